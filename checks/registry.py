"""What MANIFEST.json claims. One entry per implemented check."""
HOOK_COMMITS = []
NOTES = ("Every check: TLC decides (invariants of a TLA+ module evaluated on TLC-enumerated or recorded cases); the Go harness only "
         "replays cases into /repo's code and records what it did. Exit 2 = infrastructure trouble, never a verdict.")
NOT_APPLICABLE = {}
CHECKS = {
 "C25": dict(level="model_checking", technique="TLA+ spec (IntSets/SetClosure) + TLC: exhaustive small universes enumerated by TLC, replayed into the real code, results validated by a TLC trace spec",
   text="Bounded-exhaustive: every pair of finite/co-finite sets over 0..3 and every API-constructible equation system with <=3 nodes is executed on the real container/set code and TLC checks each recorded result against set semantics and the stratified least solution; seeded random 4-7 node systems and a regression corpus on top. Right level: the space of small systems is finite and the defects (aliasing, fixpoint iteration, cycle detection) show up in small systems.",
   note="Trusts TLC, the Json module, and the harness's construction of systems through the public Closure API; systems the API cannot build (intersection/complement nodes referring to later nodes) are outside the universe."),
 "C26": dict(level="model_checking", technique="TLA+ spec (Graphs) + TLC: all digraphs on <=4 vertices enumerated by TLC, run through the real code, every recorded result validated by a TLC trace spec",
   text="Bounded-exhaustive: every digraph with 1..4 vertices (66,066 graphs) plus seeded random graphs up to 8 vertices is run through graph.Tarjan, Matrix.Closure/Graph, Transpose and LongestPath; TLC checks each record against the declarative definitions (SCC partition, callee-first order, reachability, reversed edges, nil iff cyclic, maximum path length).",
   note="Trusts TLC and the recording harness; adjacency order is increasing in the exhaustive part and shuffled (with duplicates) in the random part."),
 "C27": dict(level="model_checking", technique="TLA+ spec (Diff: LCS recurrence, hunk application) + TLC: all small text pairs enumerated by TLC, diffed by the real code, each output validated by a TLC trace spec",
   text="Bounded-exhaustive: every pair of texts with 1..4 lines over a 3-line alphabet (14,400 pairs) plus seeded random edited copies up to 60 lines is diffed by diff.LineDiff; TLC checks on each parsed output: empty iff equal, number of +/- lines equals m+n-2*LCS (LCS by the textbook recurrence), header sizes match the hunk body, and applying the hunks to the first text (checking old- and new-side coordinates) yields the second.",
   note="Trusts TLC, and the harness's small parser of the unified format; abbreviated blocks (> 14 lines) are checked by counts only."),
}
