"""C14 Template instantiation preserves meaning.

Seeded random templated grammars (global flags with and without defaults, inline flags, lookahead flags, explicit arguments '+X', '~X',
'X: true', 'X: Y', pass-through 'X', implicit propagation by name, predicates with !, &&, ||, ==, != guarding alternatives at any depth)
are compiled by the real front end; the plain rules and the names of the instantiated nonterminals are dumped. TLC TemplTrace evaluates
Templates.tla - the denotation of every instance <<nonterminal, true parameters>> as a least fixpoint - and compares, up to length L,
the language of every instantiated nonterminal and of every input with it; grammars leaving a parameter uninitialised must be rejected
with that message, and (without lookahead flags) nothing else may be rejected.
"""
import vlib

LEVEL = "exploration"


def sig(c):
    t = c.get("tmtext", "")
    return "templ:" + " ".join(t[t.find(":: parser"):].split())[:240]


def sigv(c, rec, vname):
    return vname + ":" + sig(c)


def run(ctx):
    thorough = ctx.tier == "thorough"
    kw = dict(sig=sig, sigv=sigv, rerun=None, input_keys=["tmtext", "orig"],
              observed_keys=["err", "uninitErr", "crash", "g", "instances", "inputs"],
              nontrivial=lambda c: c["err"] == "" and len(c["instances"]) >= 4)
    L = 5 if thorough else 4
    f = ctx.path("rnd.ndjson")
    ctx.vhrun(["c14-random", "20000" if thorough else "3000", f, str(L)])
    vlib.validate_cases(ctx, "TemplTrace", "TemplTrace.cfg", f, label="random", timeout=3300, **kw)
    ctx.cov["rule"] = ("Seeded random templated grammars compiled by the real front end; TLC compares the language (length <= %d) of every instantiated "
                       "nonterminal (identified by its generated name) and of the inputs with the denotation of the template under the corresponding "
                       "parameter values. Non-trivial: grammars that compile and have at least 4 instances." % L)
    ctx.assumptions += ["bounded language equality (length <= L)", "the .tm renderer of the harness is trusted",
                        "a choice whose alternatives are all disabled denotes the empty string (the maintainers' own test expectation)"]
