"""C11 Generated Go lexers tokenize exactly as the lexer rules specify.

Seeded random lexer specifications (2-6 rules over symbolic alphabets with 1-4 byte characters, newline and space; distinct priorities;
(space) rules; a (class) rule with keywords; two start conditions switched from rule actions; tokenLine / tokenColumn / nonBacktracking;
rune, byte, case-insensitive and case-insensitive byte modes; code points above 2048 so that the compressed rune map is generated) are
compiled, generated with the real templates, built and run on ~30 texts each. TLC C11Trace compares every recorded token sequence
(token, byte positions, line, column) with LexMachine!Tokens - longest match by Brzozowski derivatives, priorities, keyword
specialisation, space skipping, invalid tokens, start conditions, end-of-input.
"""
import vlib

LEVEL = "exploration"


def sig(c):
    t = c.get("tmtext", "")
    return "lexer:" + " ".join(t[t.find("package ="):t.find(":: parser")].split())[:260]


def sigv(c, rec, vname):
    return vname + ":" + sig(c)


def run(ctx):
    thorough = ctx.tier == "thorough"
    kw = dict(sig=sig, sigv=sigv, rerun=None, input_keys=["tmtext", "mode", "rules", "keywords"],
              observed_keys=["genErr", "runs"],
              nontrivial=lambda c: c["genErr"] == "" and sum(len(r["toks"]) for r in c["runs"]) >= 40)
    n = 900 if thorough else 150
    B = 150
    for b in range(0, n, B):
        out = ctx.path("lex%d.ndjson" % b)
        ctx.vhrun(["c11-gen", str(B), ctx.path("mod%d" % b), out], env_extra={"VERIF_SEED": str(ctx.seed * 100 + b // B)}, timeout=3000)
        vlib.run(["rm", "-rf", ctx.path("mod%d" % b)], check=False)
        vlib.validate_cases(ctx, "C11Trace", "C11Trace.cfg", out, label="batch%d" % (b // B), timeout=3300, **kw)
    ctx.cov["rule"] = ("%d random lexer specifications generated with the real templates, built and run on ~30 texts each (<= 12 characters: random, members of the "
                       "rules' languages, keywords, newlines); TLC compares every token of every run with the specification's token sequence. Non-trivial: "
                       "lexers that build and produce at least 40 tokens over their texts." % n)
    ctx.assumptions += ["texts are short (<= 12 characters)", "the .tm renderer and the adapter file added to each generated package are trusted",
                        "class rules are exercised in case-sensitive modes only (constant patterns are not recognised as keywords under caseInsensitive)"]
