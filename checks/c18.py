"""C18 Generation is deterministic.

Histories of Generate(g) steps: several processes (GOMAXPROCS 1 / 2 / 16, different orders of grammars, repetitions inside one process)
generate the five shipped grammars, the cc (plain and flex mode) and ts test grammars and three stress grammars (keywords, lookaheads, mid-rule actions with $-references, categories,
differing nodePrefix); every written file is hashed. The concatenated history is validated by TLC (Gen.tla): the output of a grammar
is a function of the grammar alone - a history the spec cannot follow deadlocks at the first deviating step - and shipped grammars
reproduce the committed files.
"""
import os
import random
import vlib

LEVEL = "exploration"

SHIPPED = ["parsers/json/json.tm", "parsers/simple/simple.tm", "parsers/test/test.tm", "parsers/tm/textmapper.tm", "parsers/js/js.tm"]


def run(ctx):
    thorough = ctx.tier == "thorough"
    cdir = os.path.join(vlib.VERIF, "corpus", "C18")
    stress = ["file:" + os.path.join(cdir, f) for f in sorted(os.listdir(cdir)) if f.endswith(".tm")]
    # the other targets share package-level template tables with the go target: cc (plain and flex mode) and ts grammars of the repository
    stress += ["file:" + os.path.join(vlib.REPO, t) for t in ("testing/cpp/json/json.tm", "testing/cpp/json_flex/json.tm", "testing/ts/json/json.tm")
               if os.path.exists(os.path.join(vlib.REPO, t))]
    shipped = ["shipped:" + s for s in SHIPPED if thorough or "/js/" not in s]
    rnd = random.Random(ctx.seed)
    hist = ctx.path("history.ndjson")
    nproc = 0
    with open(hist, "w") as out:
        for gmp in (["1", "2", "16"] if not thorough else ["1", "2", "3", "16", "16"]):
            for order in range(2 if not thorough else 4):
                specs = stress + shipped
                rnd.shuffle(specs)
                part = ctx.path("h-%d.ndjson" % nproc)
                ctx.vhrun(["c18-history", "p%d-gomaxprocs%s" % (nproc, gmp), part, "3" if not thorough else "5"] + specs,
                          env_extra={"GOMAXPROCS": gmp}, timeout=3000)
                out.write(open(part).read())
                nproc += 1
    steps = vlib.read_ndjson(hist)
    ctx.cov["evaluations"] = len(steps)
    ctx.cov["traces_validated_against_impl"] = nproc
    for g in {s["grammar"] for s in steps}:
        ctx.nontrivial(g)
    for s in steps:
        ctx.nontrivial(s["proc"])
    ctx.sample({k: steps[0][k] for k in ("proc", "step", "grammar", "files", "hashes")})
    r = ctx.tlc("Gen", "GenHistory.cfg", env={"VERIF_CASES": hist}, workers=1, timeout=1800, continue_=False, name="history")
    for v in r.violations:
        i = r.var(v, "i") or 0
        s = steps[min(i, len(steps) - 1)]
        if v["kind"] == "deadlock":
            first = next(x for x in steps if x["grammar"] == s["grammar"])
            diff = [f for f, h in zip(s["files"], s["hashes"]) if f not in first["files"] or first["hashes"][first["files"].index(f)] != h]
            ctx.fail("nondeterministic:%s" % s["grammar"], case=dict(grammar=s["grammar"], first=dict(proc=first["proc"], step=first["step"]), later=dict(proc=s["proc"], step=s["step"])),
                     observed=dict(differing_files=diff, first=first["hashes"], later=s["hashes"], err=s["err"]),
                     detail="TLC: the recorded history is not a behaviour of Gen.tla - step %d (%s in %s) writes different files than the first generation of that grammar" % (i, s["grammar"], s["proc"]))
        else:
            bad = [x for x in steps if (v["name"] == "NoGenerationError" and x["err"]) or (v["name"] == "ShippedMatchCommitted" and x["shipped"] and not all(x["onDisk"]))]
            b = bad[0] if bad else s
            ctx.fail("%s:%s" % (v["name"], b["grammar"]), case=dict(grammar=b["grammar"], proc=b["proc"]), observed=dict(err=b["err"], onDisk=b["onDisk"], files=b["files"]),
                     detail="TLC invariant %s violated" % v["name"])
    # the command-line generator and the files on disk (GenCLI.tla): design properties by TLC, then histories of write / -diff / edit / delete
    # replayed with the real binary in scratch directories (json.tm), the disk compared with the in-process generator after every step
    r = ctx.tlc("GenCLI", "GenCLIDesign.cfg", timeout=600, continue_=False, name="cli-design")
    for v in r.violations:
        raise vlib.Infra("design model GenCLI.tla violated (%s): a spec defect, not a verdict" % v["name"])
    hc = ctx.path("cli.ndjson")
    ctx.tlc("GenCLIGen", "Gen.cfg", workers=1, timeout=900, name="cligen", env={"VERIF_OUT": hc})
    hs = vlib.read_ndjson(hc)
    if not thorough:
        hs = [h for i, h in enumerate(hs) if i % 3 == ctx.seed % 3]
    vlib.write_ndjson(hc, hs)
    tmbin = ctx.path("bin", "textmapper")
    p = vlib.run([vlib.GO, "build", "-o", tmbin, "./cmd/textmapper"], cwd=vlib.REPO, env=vlib.goenv(), timeout=900, check=False)
    if p.returncode != 0:
        raise vlib.Infra("textmapper does not build: " + p.stderr[-2000:])
    ho = ctx.path("cli.rec.ndjson")
    ctx.vhrun(["gencli-run", hc, os.path.join(vlib.REPO, "parsers", "json", "json.tm"), tmbin, ctx.path("cliwork"), ho], timeout=3000)
    csig = lambda c: "cli:" + " ".join(s["op"] + (str(s["f"]) if s["f"] else "") for s in c["steps"])
    vlib.validate_cases(ctx, "GenCLITrace", "GenCLITrace.cfg", ho, label="cli", timeout=1800, sig=csig, sigv=lambda c, rec, v: v + ":" + csig(c), rerun=None,
                        input_keys=["steps"], observed_keys=["obs", "crash"], nontrivial=lambda c: any(o["differs"] for o in c["obs"]))
    ctx.cov["rule"] = ("%d processes (GOMAXPROCS 1/2/16, shuffled grammar orders) each generate %d grammars 3 times in one process; every written file is hashed; TLC replays the "
                       "whole history. Repetition, not enumeration of schedules: Go randomises every map iteration, so an order dependence that can change the output at all "
                       "surfaces with high probability over %d generations. The command line (GenCLI.tla): histories of up to four write / -diff / edit / delete steps with the real binary. "
                       "Distinct: grammars and processes." % (nproc, len(stress) + len(shipped), len(steps)))
    ctx.assumptions += ["file contents are compared through a 64-bit prefix of SHA-256", "goroutine schedules and map orders are sampled by repetition, not enumerated"]
