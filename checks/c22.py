"""C22 The grammar compiler never crashes and reports in-range diagnostics.

mutants (token-level, line-level, byte-level, splice and rename mutations - single and double - of the shipped grammars, the compiler's
own test data and 33 hand-written ill-formedness injectors aimed at the semantic checks of the pipeline) -> compiled by the real
compiler.Compile in a pool of sub-processes (process exits, panics and time-outs are observed) -> TLC Mutate.tla: each compilation is a
step Ok | Errors(list); crash/hang have no action (trace rejected); every diagnostic range lies inside the text and line/column equal
the position of the offset.
"""
import os
import vlib

LEVEL = "exploration"


def sig(c):
    return "%s:%s:%s" % (c["seedFile"], c["op"], c["outcome"])


def sigv(c, rec, vname):
    if c["outcome"] in ("crash", "hang"):
        import re
        lines = (c.get("detail") or "").splitlines()
        fatal = re.sub(r"\[\d+\]|\d+", "N", lines[0]) if lines else ""
        frame = next((l.strip() for l in lines if l.startswith("  at ")), "")
        return re.sub(r"\d+", "N", "%s:%s %s" % (c["outcome"], fatal, frame))
    return vname + ":" + sig(c)


def run(ctx):
    thorough = ctx.tier == "thorough"
    out = ctx.path("mutants.ndjson")
    n = 400000 if thorough else 30000
    # random grammars of the front-end checks (extended notation, templates with lookahead flags, token sets) join the pool as
    # rendered text only: they are compiled here, in sub-processes, so that a process exit is a verdict and not a dead harness
    gdir = ctx.path("generated")
    k = "400" if thorough else "120"
    for kind, extra in (("c13", ["4"]), ("c14", ["4"]), ("c15", [])):
        g = ctx.path(kind + ".ndjson")
        ctx.vhrun([kind + "-random", k, g] + extra, env_extra={"VERIF_RENDER_ONLY": "1"})
        ctx.vhrun(["tm-texts", g, gdir, kind + "_"])
    ctx.vhrun(["c22-run", str(n), out, os.path.join(vlib.VERIF, "corpus", "C22"), "gen:" + gdir], timeout=3400)
    kw = dict(sig=sig, sigv=sigv, rerun=None, input_keys=["seedFile", "op", "text"], observed_keys=["outcome", "detail", "errs"],
              nontrivial=lambda c: c["outcome"] == "errors" and len(c["errs"]) >= 2)
    # TLC validates in slices to keep the JSON it loads small
    rows = vlib.read_ndjson(out)
    B = 20000
    for b in range(0, len(rows), B):
        part = ctx.path("part%d.ndjson" % (b // B))
        vlib.write_ndjson(part, [{k: v for k, v in r.items() if k != "text" or r["outcome"] in ("crash", "hang")} for r in rows[b:b + B]])
        vlib.validate_cases(ctx, "Mutate", "Mutate.cfg", part, label="part%d" % (b // B), timeout=3300, **kw)
    # the diagnostic list itself (package status: Add / AddError / Sort / Dedupe), Diagnostics.tla: design properties by TLC, then every
    # program "report up to three errors, then sort / dedupe / both" replayed in the real package and compared after every step
    r = ctx.tlc("Diagnostics", "DiagnosticsDesign.cfg", timeout=900, continue_=False, name="diag-design")
    for v in r.violations:
        raise vlib.Infra("design model Diagnostics.tla violated (%s): a spec defect, not a verdict" % v["name"])
    dc = ctx.path("diag.ndjson")
    ctx.tlc("DiagGen", "DiagGen.cfg", workers=1, timeout=900, name="diaggen", env={"VERIF_OUT": dc})
    do = ctx.path("diag.rec.ndjson")
    ctx.vhrun(["diag-run", dc, do], timeout=600)
    dsig = lambda c: "status:%s:%s" % (" ".join("%d/%d/%d" % (e["file"], e["off"], e["msg"]) for e in c["adds"]), "+".join(c["tail"]))
    vlib.validate_cases(ctx, "DiagTrace", "DiagTrace.cfg", do, label="status", timeout=1800, sig=dsig, sigv=lambda c, rec, v: v + ":" + dsig(c), rerun=None,
                        input_keys=["adds", "tail"], observed_keys=["lists", "crash"], nontrivial=lambda c: len(c["lists"][0]) > len(c["lists"][-1]))
    ctx.cov["rule"] = ("%d grammar texts: the 60 seeds unmutated plus seeded single and double mutations (delete/duplicate/swap/replace token, delete/duplicate line, truncate, "
                       "insert or substitute nasty bytes, splice a foreign line, rename an identifier occurrence); each compiled by the real compiler in a sub-process pool; TLC "
                       "admits only Ok / Errors outcomes and checks every diagnostic's range, line and column. Non-trivial: texts that produce at least two diagnostics; distinct "
                       "by (seed, operator, outcome). The diagnostic list (status.Add/AddError/Sort/Dedupe): all 21840 programs over 16 errors replayed against Diagnostics.tla." % len(rows))
    ctx.assumptions += ["js.tm (60 kB+) is not in the mutation pool for time", "crash detection is an observation of the sub-process, TLC rejects the trace"]
