"""Run-time layer helpers: pick conflict-free grammars, attach option configs, generate+build+run the parsers (vh rt-gen)."""
import json
import random
import vlib
import lalrcommon as lc

CONFIGS = [
    dict(optimize=False, defaultReduce=False, minimize=False),
    dict(optimize=True, defaultReduce=False, minimize=False),
    dict(optimize=True, defaultReduce=True, minimize=False),
    dict(optimize=False, defaultReduce=False, minimize=True),
    dict(optimize=True, defaultReduce=True, minimize=True),
]


def conflict_free(ctx, gfile, name, maxterms=4, need=None):
    """Compile with the real lalr.Compile and keep grammars it accepts without conflicts (%expect 0/0)."""
    rec = lc.dump(ctx, gfile, ctx.path("cf-%s.rec" % name))
    out = []
    for c in vlib.read_ndjson(rec):
        if c["compiles"][0]["err"] or c["nT"] > maxterms:
            continue
        out.append({k: c[k] for k in lc.GKEYS if k in c})
        if need and len(out) >= need:
            break
    return out


def make_specs(ctx, grammars, nconf, L, events=False, extra_cfg=None):
    rnd = random.Random(ctx.seed * 7919 + 11)
    specs = []
    for i, g in enumerate(grammars):
        confs = rnd.sample(range(len(CONFIGS)), min(nconf, len(CONFIGS)))
        if nconf >= len(CONFIGS):
            confs = range(len(CONFIGS))
        for k in confs:
            s = dict(g)
            cfg = dict(CONFIGS[k])
            cfg["events"] = events
            if extra_cfg:
                cfg.update(extra_cfg)
            s["cfg"] = cfg
            s["L"] = L
            specs.append(s)
    return specs


def add_arrows(ctx, specs):
    """Nested '-> Node' parts over random, properly nested sub-ranges of right-hand sides (markers excluded)."""
    rnd = random.Random(ctx.seed * 104729 + 5)
    for s in specs:
        rules = []
        for r in s["rules"]:
            r = dict(r)
            n = len(r["rhs"])
            arrows = []
            if n >= 1 and all(x >= 0 for x in r["rhs"]) and rnd.random() < 0.6:
                for _ in range(rnd.randint(1, 3)):
                    i = rnd.randint(1, n)
                    j = rnd.randint(i, n)
                    if [i, j] in arrows or (i == 1 and j == n and n > 1 and rnd.random() < 0.5):
                        continue
                    if all(not (a[0] < i <= a[1] < j or i < a[0] <= j < a[1]) for a in arrows):
                        arrows.append([i, j])
            r["arrows"] = arrows
            rules.append(r)
        s["rules"] = rules
    return specs


def rtgen(ctx, specs, name):
    f = ctx.path("specs-%s.ndjson" % name)
    vlib.write_ndjson(f, specs)
    out = ctx.path("rt-%s.ndjson" % name)
    ctx.vhrun(["rt-gen", f, ctx.path("mod-" + name, "x").rsplit("/", 1)[0], out], timeout=3000)
    return out


def rt_rerun_factory(ctx):
    n = [0]

    def rerun(inp, out):
        n[0] += 1
        vlib.write_ndjson(out + ".in", [inp])
        ctx.vhrun(["rt-gen", out + ".in", ctx.path("mod-re%d" % n[0], "x").rsplit("/", 1)[0], out], timeout=900)
        return vlib.read_ndjson(out)[0]
    return rerun


RT_KEYS = lc.GKEYS + ["cfg", "L", "tm", "alph"]
