"""C26 Graph algorithms: components, closure, transpose, longest path.

gen (TLC C26Gen: all digraphs on 1..4 vertices) -> run (vh c26-run: real util/graph) -> validate
(TLC C26Trace against Graphs.tla); seeded random graphs (<= 8 vertices, shuffled adjacency lists with
duplicates) recorded and validated the same way.
"""
import vlib

LEVEL = "model_checking"


def sig(c):
    return "graph:" + ";".join(",".join(map(str, e)) for e in c["g"])


def run(ctx):
    thorough = ctx.tier == "thorough"

    def rerun(inp, out):
        vlib.write_ndjson(out + ".in", [inp])
        ctx.vhrun(["c26-run", out + ".in", out])
        return vlib.read_ndjson(out)[0]

    kw = dict(sig=sig, rerun=rerun, input_keys=["g"], observed_keys=["comps", "stacks", "closure", "mgraph", "transpose", "pathNil", "path"],
              nontrivial=lambda c: len(c["g"]) >= 3 and sum(len(e) for e in c["g"]) >= 3)
    if ctx.replay:
        f = ctx.path("replay.in")
        vlib.write_ndjson(f, [ctx.replay["case"]])
        ctx.vhrun(["c26-run", f, f + ".rec"])
        vlib.validate_cases(ctx, "C26Trace", "C26Trace.cfg", f + ".rec", label="replay", **kw)
        return
    for n in (1, 2, 3, 4):
        f = ctx.path("g%d.ndjson" % n)
        ctx.tlc("C26Gen", "Gen.cfg", env={"VERIF_OUT": f, "VERIF_C26_N": n}, workers=1, timeout=1500, name="gen%d" % n)
        ctx.vhrun(["c26-run", f, f + ".rec"])
        vlib.validate_cases(ctx, "C26Trace", "C26Trace.cfg", f + ".rec", label="n%d" % n, **kw)
    rnd = ctx.path("rnd.ndjson")
    ctx.vhrun(["c26-random", "100000" if thorough else "8000", rnd])
    vlib.validate_cases(ctx, "C26Trace", "C26Trace.cfg", rnd, label="random", timeout=3000, **kw)
    ctx.cov["exhaustive"] = True
    ctx.cov["rule"] = ("TLC enumerates every digraph (self-loops included) on 1..4 vertices (2+16+512+65536); vh runs Tarjan, Matrix.Closure/Graph, "
                       "Transpose, LongestPath on each; TLC validates each record against Graphs.tla. Random: seeded graphs up to 8 vertices with shuffled "
                       "adjacency lists and duplicate edges. Non-trivial: >= 3 vertices and >= 3 edges, distinct by adjacency text.")
    ctx.assumptions += ["TLC and the Json/IOUtils community modules", "the order condition is 'callee components first', not one fixed order",
                        "graphs with < 2 vertices: Tarjan makes no callback (as the property's quantifier allows)"]
