"""C27 Line diffs are correct and minimal.

gen (TLC C27Gen: all pairs of texts <= 4 lines over 3 lines) -> run (vh c27-run: real diff.LineDiff, output parsed into hunks)
-> validate (TLC C27Trace: Diff.tla - LCS recurrence, header counts, hunk application); seeded random longer texts on top.
"""
import vlib

LEVEL = "model_checking"


def sig(c):
    return "diff:a=%s;b=%s" % (",".join(map(str, c["a"])), ",".join(map(str, c["b"])))


def count(h, cs):
    return sum((l["skip"] if l["skip"] > 0 else 1) for l in h["lines"] if l["c"] in cs)


def sigv(c, rec, vname):
    """Known-finding classifier: the only header discrepancy is exactly one extra line per
    '... N lines skipped ...' marker on that side (the marker itself is counted)."""
    if vname == "HeaderConforms":
        ok = True
        for h in rec["hunks"]:
            ml = sum(1 for l in h["lines"] if l["skip"] > 0 and l["c"] in " -")
            mr = sum(1 for l in h["lines"] if l["skip"] > 0 and l["c"] in " +")
            if h["ls"] - count(h, " -") != ml or h["rs"] - count(h, " +") != mr:
                ok = False
        if ok:
            return "header-size-counts-skip-marker"
    return vname + ":" + sig(c)


def run(ctx):
    thorough = ctx.tier == "thorough"

    def rerun(inp, out):
        vlib.write_ndjson(out + ".in", [inp])
        ctx.vhrun(["c27-run", out + ".in", out])
        return vlib.read_ndjson(out)[0]

    kw = dict(sig=sig, sigv=sigv, rerun=rerun, input_keys=["a", "b"], observed_keys=["empty", "hunks", "parseError"],
              nontrivial=lambda c: c["a"] != c["b"] and len(c["hunks"]) >= 1 and any(l["c"] == " " for h in c["hunks"] for l in h["lines"]))
    if ctx.replay:
        f = ctx.path("replay.in")
        vlib.write_ndjson(f, [ctx.replay["case"]])
        ctx.vhrun(["c27-run", f, f + ".rec"])
        vlib.validate_cases(ctx, "C27Trace", "C27Trace.cfg", f + ".rec", label="replay", **kw)
        return
    f = ctx.path("pairs.ndjson")
    maxl, alpha = (4, 3) if not thorough else (5, 3)
    ctx.tlc("C27Gen", "Gen.cfg", env={"VERIF_OUT": f, "VERIF_C27_MAXLINES": maxl, "VERIF_C27_ALPHA": alpha}, workers=1, timeout=2400, name="gen")
    ctx.vhrun(["c27-run", f, f + ".rec"])
    vlib.validate_cases(ctx, "C27Trace", "C27Trace.cfg", f + ".rec", label="pairs", timeout=3000, **kw)
    rnd = ctx.path("rnd.ndjson")
    ctx.vhrun(["c27-random", "40000" if thorough else "4000", rnd])
    vlib.validate_cases(ctx, "C27Trace", "C27Trace.cfg", rnd, label="random", timeout=3000, **kw)
    ctx.cov["exhaustive"] = True
    ctx.cov["rule"] = ("TLC enumerates all pairs of texts with 1..%d lines over %d distinct lines (line 0 is the empty line); vh records LineDiff and parses the hunks; "
                       "TLC checks empty<=>equal, #edits = m+n-2*LCS, header sizes, and that the hunks applied to a give b (both coordinates). Random: edited copies of "
                       "texts up to 60 lines (several hunks, >14-line blocks). Non-trivial: differing texts whose diff has context lines; distinct by (a,b)." % (maxl, alpha))
    ctx.assumptions += ["the harness's parser of the unified format (c27Parse) is trusted", "the content of '... N lines skipped ...' abbreviations is not verifiable; only its counts are checked"]
