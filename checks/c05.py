"""C05 Compressed parser tables decode to the same actions.

grammars (U_G sample, seeded random incl. precedence/nonassoc, corpus, the five shipped grammars) -> real lalr.Compile with
Optimize / Optimize+DefaultReduce -> TLC OptTrace: for every state x terminal the displacement decoding (transcribed from
go_parser.go.tmpl) equals the default-encoding decoding; gotos equal; defaultReduce only turns plain errors of lookahead
states into the most frequent reduction.
"""
import vlib
import lalrcommon as lc

LEVEL = "model_checking"


def sig(c):
    return c.get("tag") and ("shipped:" + c["tag"]) or lc.gsig(c)


def sigv(c, rec, vname):
    return vname + ":" + sig(c)


def run(ctx):
    thorough = ctx.tier == "thorough"
    kw = dict(sig=sig, sigv=sigv, rerun=lc.rerun_factory(ctx, "opt"), input_keys=lc.GKEYS, observed_keys=["t", "opt", "optdr"],
              nontrivial=lambda c: len(c["opt"]["Table"]) > 0)
    if ctx.replay:
        f = ctx.path("replay.in")
        vlib.write_ndjson(f, [ctx.replay["case"]])
        vlib.validate_cases(ctx, "OptTrace", "OptTrace.cfg", lc.dump(ctx, f, f + ".rec", "opt"), label="replay", env={"VERIF_CHUNK_STRIDE": 1}, **kw)
        return
    sets = []
    c = lc.corpus("C05")
    if c:
        sets.append(("corpus", c))
    if thorough:
        sets += [("ug", lc.universe(ctx, "ug", 3, 2, 4)), ("ugp", lc.universe(ctx, "ugp", 3, 2, 4, prec=True)),
                 ("rnd", lc.random_grammars(ctx, 5000)), ("rndp", lc.random_grammars(ctx, 5000, prec=True, name="rndp"))]
    else:
        sets += [("ug", lc.universe(ctx, "ug", 3, 2, 48)), ("rnd", lc.random_grammars(ctx, 300)),
                 ("rndp", lc.random_grammars(ctx, 300, prec=True, name="rndp"))]
    for name, f in sets:
        vlib.validate_cases(ctx, "OptTrace", "OptTrace.cfg", lc.dump(ctx, f, f + ".rec", "opt"), label=name, timeout=3300, env={"VERIF_CHUNK_STRIDE": 1}, **kw)
    # shipped grammars through compiler.Compile (front end included)
    shipped = ctx.path("shipped.ndjson")
    ctx.vhrun(["tm-tables", shipped])
    kw2 = dict(kw)
    kw2["rerun"] = None
    vlib.validate_cases(ctx, "OptTrace", "OptTrace.cfg", shipped, label="shipped", timeout=3300, env={"VERIF_CHUNK_STRIDE": 1 if thorough else 8}, **kw2)
    ctx.cov["exhaustive"] = False
    # the packer on its own (verif hook lalr.VerifPack): TLC enumerates line sets over values that collide under the packer's hash
    kwp = dict(sig=lambda c: "pack:" + ";".join(",".join("%d=%d" % (p[0], p[1]) for p in l) for l in c["lines"])[:200], rerun=None, input_keys=["lines"],
               observed_keys=["indices", "table", "check", "crash"], nontrivial=lambda c: len(c["lines"]) >= 2)
    pg = ctx.path("packgen.ndjson")
    ctx.tlc("PackGen", "Gen.cfg", workers=1, timeout=1500, name="packgen",
            env={"VERIF_OUT": pg, "VERIF_PACK_N": 3 if thorough else 2, "VERIF_STRIDE": 5 if thorough else 1, "VERIF_OFFSET": ctx.seed})
    ctx.vhrun(["pack-run", pg, pg + ".rec"])
    vlib.validate_cases(ctx, "PackTrace", "PackTrace.cfg", pg + ".rec", label="pack-enumerated", timeout=3000, **kwp)
    pr = ctx.path("packrnd.ndjson")
    ctx.vhrun(["pack-random", "30000" if thorough else "4000", pr])
    vlib.validate_cases(ctx, "PackTrace", "PackTrace.cfg", pr, label="pack-random", timeout=3000, **kwp)
    ctx.assumptions += ["packer phase: lines over positions 0..3 with values chosen so that different lines collide under the packer's polynomial hash"]
    ctx.cov["rule"] = ("For each grammar (U_G sample, seeded random with and without precedence, corpus, and the shipped json/simple/test/tm/js grammars) the real "
                       "tables are produced in the default encoding, with optimizeTables and with optimizeTables+defaultReduce; TLC compares every state x terminal "
                       "cell and every state x nonterminal goto of both decoders (exhaustive per table). Non-trivial: grammars whose packed Table is non-empty.")
    ctx.assumptions += ["the decoders in Tables.tla are transcriptions of go_parser.go.tmpl (OptAction/OptGoto) and lalr.go (default encoding)"]
