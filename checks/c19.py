"""C19 Error recovery is safe and transparent.

Conflict-free grammars are extended with an 'error' terminal and recovery rules (A: error | A: error t | A: error t A ...); each is
generated twice - with and without the recovery rules - built and run on every token string up to length L. TLC (ParseTrace, recovery
invariants): no panic or hang; handler offsets non-decreasing and inside the input; on every sentence (Earley on the rules without
recovery) no error is reported and result and listener events equal those of the parser generated without recovery; a non-sentence is
never accepted silently.
"""
import random
import vlib
import lalrcommon as lc
import rtcommon as rt
import c01

LEVEL = "model_checking"


def with_error(g, rnd):
    """Renumber so that a fresh terminal E = old nT stands for 'error'; append recovery rules."""
    nT = g["nT"]
    sh = lambda x: x + 1 if x >= nT else x
    rules = [dict(lhs=sh(r["lhs"]), rhs=[sh(x) for x in r["rhs"]]) for r in g["rules"]]
    inputs = [dict(nt=sh(i["nt"]), eoi=i["eoi"]) for i in g["inputs"]]
    E = nT
    base = dict(nT=nT + 1, nS=g["nS"] + 1, rules=rules, inputs=inputs, errTerm=0, alph=list(range(1, nT)))
    nts = sorted({r["lhs"] for r in rules})
    extra = []
    for _ in range(rnd.randint(1, 2)):
        a = rnd.choice(nts)
        t = rnd.randint(1, nT - 1)
        shape = rnd.choice([0, 1, 1, 1, 2, 2, 3, 4])
        rhs = [[E], [E, t], [E, t, a], [t, E], [t, E, t]][shape]
        if dict(lhs=a, rhs=rhs) not in extra:
            extra.append(dict(lhs=a, rhs=rhs))
    rec = dict(base, rules=rules + extra, errTerm=E)
    return rec, base


def run(ctx):
    thorough = ctx.tier == "thorough"
    kw = dict(sig=c01.sig, sigv=lambda c, rec, v: v + ":" + c01.sig(c), rerun=None, input_keys=rt.RT_KEYS + ["errTerm"],
              observed_keys=["genErr", "bad", "runs", "er", "tmtext"], nontrivial=lambda c: c.get("ran") and any(len(e) > 0 for ent in c.get("er", []) for e in ent))
    rnd = random.Random(ctx.seed * 31 + 19)
    bases = rt.conflict_free(ctx, lc.universe(ctx, "ug", 3, 2, 24 if thorough else 96), "ug", maxterms=3, need=400 if thorough else 60)
    bases += rt.conflict_free(ctx, lc.random_grammars(ctx, 3000 if thorough else 600), "rnd", maxterms=3, need=400 if thorough else 60)
    # recovery is switched on by a non-empty follow set of 'error' over the rules reachable from the first eoi input
    bases = [g for g in bases if not g.get("markers") and g["inputs"][0]["eoi"]]
    cands = []
    for g in bases:
        for _ in range(2):
            cands.append(with_error(g, rnd))
    # keep the candidates whose recovering version still compiles without conflicts (the error token is a terminal for LALR)
    f = ctx.path("cand.ndjson")
    vlib.write_ndjson(f, [dict(nT=r["nT"], nS=r["nS"], rules=r["rules"], inputs=r["inputs"]) for r, _ in cands])
    comp = vlib.read_ndjson(lc.dump(ctx, f, f + ".rec"))
    pairs = [cands[i] for i, c in enumerate(comp) if not c["compiles"][0]["err"]][: (150 if thorough else 24)]
    # nested recovery contexts: two error rules with different synchronisation tokens, so that the token of the inner rule
    # also occurs where only the outer rule can recover (and vice versa)
    def nested(variant):
        a, b, c, d, E = 1, 2, 3, 4, 5
        S, Ls, St, T = 6, 7, 8, 9
        rules = [dict(lhs=S, rhs=[Ls]), dict(lhs=Ls, rhs=[Ls, St]), dict(lhs=Ls, rhs=[St]), dict(lhs=St, rhs=[T, b]), dict(lhs=T, rhs=[a])]
        if variant == 0:
            rules += [dict(lhs=T, rhs=[c, T, d])]
            err = [dict(lhs=St, rhs=[E, b]), dict(lhs=T, rhs=[c, E, d])]
        elif variant == 1:
            rules += [dict(lhs=T, rhs=[c, Ls, d])]
            err = [dict(lhs=St, rhs=[E, b]), dict(lhs=T, rhs=[c, E, d])]
        else:
            rules += [dict(lhs=T, rhs=[c, T, d]), dict(lhs=T, rhs=[T, a])]
            err = [dict(lhs=St, rhs=[E, b]), dict(lhs=T, rhs=[c, E, d]), dict(lhs=St, rhs=[a, E, b])]
        base = dict(nT=6, nS=10, rules=rules, inputs=[dict(nt=S, eoi=True)], alph=[a, b, c, d])
        return dict(base, rules=rules + err, errTerm=E), base
    pairs += [nested(v) for v in (0, 1, 2)]
    L = 6 if thorough else 5
    specs = []
    for recg, baseg in pairs:
        for g in (recg, baseg):
            s = dict(g)
            s["cfg"] = dict(optimize=False, defaultReduce=False, minimize=False, events=True)
            s["L"] = L
            specs.append(s)
    out = rt.rtgen(ctx, specs, "rec")
    rows = vlib.read_ndjson(out)
    joined = []
    for i in range(0, len(rows), 2):
        r, b = rows[i], rows[i + 1]
        r["hasBase"] = bool(b.get("ran"))
        r["baseEv"] = b.get("ev", []) if b.get("ran") else []
        joined.append(r)
    jf = ctx.path("joined.ndjson")
    vlib.write_ndjson(jf, joined)
    vlib.validate_cases(ctx, "ParseTrace", "ParseTraceRec.cfg", jf, label="recovery", timeout=3300, **kw)
    ctx.cov["programs"] = len(joined)
    # the shipped recovering parsers (tm, js) on valid, mutated and broken repository texts
    sp = ctx.path("shipped.ndjson")
    ctx.vhrun(["c20-parse", "20000" if thorough else "3000", sp], timeout=3000)
    rows = [r for r in vlib.read_ndjson(sp) if r.get("parser") in ("tm", "js")]
    vlib.write_ndjson(sp, rows)
    vlib.validate_cases(ctx, "C19Shipped", "C19Shipped.cfg", sp, label="shipped", timeout=3000,
                        sig=lambda c: "shipped:%s:%s" % (c.get("parser"), c.get("origin")), sigv=lambda c, rec, v: "%s:shipped:%s:%s:%s" % (v, c.get("parser"), c.get("origin"), (c.get("text") or "")[:60]),
                        rerun=None, input_keys=["parser", "origin", "text", "len"], observed_keys=["crash", "errs", "err"],
                        nontrivial=lambda c: len(c.get("errs", [])) >= 2)
    ctx.cov["rule"] = ("%d conflict-free grammars (<= 2 real terminals) extended with 1-2 recovery rules over the 'error' terminal, each generated with and without them and run on all "
                       "token strings <= %d; TLC checks termination/no panic, handler offsets monotone and inside the input, transparency on sentences (events and result equal the "
                       "non-recovering parser's), and that non-sentences are never accepted silently. Non-trivial: parsers whose handler was called on some input." % (len(joined), L))
    ctx.assumptions += ["shipped tm/js parsers: termination, no panic and ordered in-range error offsets on mutated repository texts (no twin to compare with)", "the error token is rendered as the tm 'error:' token; recovery rules are appended so that node numbering of the base rules is unchanged",
                        "shipped js/tm/test parsers are monitored for these invariants by the C20 check's inputs (when built)"]
