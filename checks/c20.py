"""C20 Parse events always form a well-nested tree.

(a) TLC C20Gen enumerates every well-nested event stream of up to 4 nodes over positions 0..4 (any report order in which containers follow
    their contents, empty nodes included) -> replayed into the real tm tree builder through the verif-tag export (parsers/tm/ast) ->
    TLC C20Trace: the tree has exactly the reported nodes, each under its smallest container, siblings in source order.
(b) the shipped tm, js, json and test parsers run on repository texts and their mutations (valid, malformed, recovery-triggering);
    TLC checks that every recorded listener stream is well nested (inside the input, disjoint or nested, containers last).
"""
import vlib

LEVEL = "model_checking"


def sig(c):
    if c["kind"] == "build":
        return "build:len=%d:%s" % (c["len"], ";".join("%d-%d" % (e[1], e[2]) for e in c["ev"]))
    return "parse:%s:%s" % (c.get("parser"), c.get("origin"))


def run(ctx):
    thorough = ctx.tier == "thorough"

    def rerun(inp, out):
        vlib.write_ndjson(out + ".in", [inp])
        ctx.vhrun(["c20-build", out + ".in", out])
        return vlib.read_ndjson(out)[0]

    kwb = dict(sig=sig, sigv=lambda c, rec, v: v + ":" + sig(c), rerun=rerun, input_keys=["len", "ev"], observed_keys=["parent", "children", "crash"],
               nontrivial=lambda c: len(c["ev"]) >= 3 and any(p != 0 for p in c["parent"]))
    if ctx.replay and ctx.replay["case"].get("ev") is not None and "parser" not in ctx.replay["case"]:
        f = ctx.path("replay.in")
        vlib.write_ndjson(f, [ctx.replay["case"]])
        ctx.vhrun(["c20-build", f, f + ".rec"])
        vlib.validate_cases(ctx, "C20Trace", "C20Trace.cfg", f + ".rec", label="replay", **kwb)
        return
    f = ctx.path("streams.ndjson")
    ctx.tlc("C20Gen", "Gen.cfg", workers=1, timeout=3000, name="gen", env={"VERIF_OUT": f, "VERIF_C20_NODES": 5 if thorough else 4, "VERIF_C20_LEN": 4 if not thorough else 4})
    ctx.vhrun(["c20-build", f, f + ".rec"])
    vlib.validate_cases(ctx, "C20Trace", "C20Trace.cfg", f + ".rec", label="streams", timeout=3300, **kwb)
    out = ctx.path("parses.ndjson")
    ctx.vhrun(["c20-parse", str(40000 if thorough else 4000), out], timeout=3000)
    kwp = dict(sig=sig, sigv=lambda c, rec, v: v + ":" + sig(c) + ":" + (c.get("text") or "")[:60], rerun=None, input_keys=["parser", "origin", "text", "len"],
               observed_keys=["ev", "crash", "err"], nontrivial=lambda c: len(c["ev"]) >= 10)
    rows = vlib.read_ndjson(out)
    B = 5000
    for b in range(0, len(rows), B):
        part = ctx.path("pp%d.ndjson" % (b // B))
        vlib.write_ndjson(part, rows[b:b + B])
        vlib.validate_cases(ctx, "C20Trace", "C20Trace.cfg", part, label="parses%d" % (b // B), timeout=3300, **kwp)
    # generated parsers that trim trailing whitespace (fixWhitespace) with injected comments: rules ending in nullable symbols,
    # with and without a trailing state marker; and recovering variants (an initializer that may be a bare or wrapped 'error') on texts with
    # dropped, doubled and invalid tokens, so that recovery pushes empty and non-empty error symbols next to comments
    gout = ctx.path("genfw.ndjson")
    ctx.vhrun(["c20-gen", ctx.path("fwmod"), gout, "400" if thorough else "60"], timeout=3000)
    vlib.run(["rm", "-rf", ctx.path("fwmod")], check=False)
    vlib.validate_cases(ctx, "C20Trace", "C20Trace.cfg", gout, label="generated-fixws", timeout=3300, **kwp)
    ctx.cov["exhaustive"] = True
    ctx.cov["rule"] = ("(a) every well-nested event stream of <= %d nodes over positions 0..4 (all admissible report orders, empty nodes included) is replayed into the real tm "
                       "tree builder and the dumped tree validated by TLC; (b) %d runs of the shipped tm/js/json/test parsers on repository texts with up to 3 mutations: the "
                       "recorded listener streams are validated as well nested. Non-trivial: streams with nesting / parses with at least 10 events."
                       % (5 if thorough else 4, len(rows)))
    ctx.assumptions += ["containment is the builders' notion: an empty node at the start of a range belongs to it, at its end it does not; siblings with identical ranges are unordered",
                        "the generated ast/parse.go of other grammars shares the template with parsers/tm/ast/parse.go, which is the instance exercised"]
