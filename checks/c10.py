"""C10 Regular expressions and character classes denote their documented sets.

gen (TLC C10Gen: every documented spelling of code points, ranges, \\d \\w \\s, \\p{..} styles, '.', negation, subtraction x {fold} x {bytes};
named malformed spellings) -> run (vh c10-run: spelling rendered, lex.ParseRegexp + lex.Compile, every probe code point scanned) ->
validate (TLC C10Trace with RegexSyntax.tla: denotation on the probe universe; malformed => error located inside the pattern).
"""
import vlib

LEVEL = "exploration"


def sig(c):
    return "re[%s%s] %s" % ("i" if c["fold"] else "", "b" if c["bytes"] else "", c.get("spelling") or __import__("json").dumps(c["p"], sort_keys=True)[:120])


def sigv(c, rec, vname):
    name = rec["p"].get("name", "") if rec["p"]["k"] == "mal" else ""
    if vname == "MalformedRejected" and name in ("x-nonhex-G", "u-nonhex-Z"):
        return "hexval-accepts-G-to-Z"
    if vname == "MalformedRejected" and name == "xb-overflow":
        return "x-brace-overflow"
    return vname + ":" + sig(rec)


def run(ctx):
    thorough = ctx.tier == "thorough"

    def rerun(inp, out):
        vlib.write_ndjson(out + ".in", [inp])
        ctx.vhrun(["c10-run", out + ".in", out])
        return vlib.read_ndjson(out)[0]

    kw = dict(sig=sig, sigv=sigv, rerun=rerun, input_keys=["p", "fold", "bytes", "malformed"],
              observed_keys=["spelling", "err", "errOff", "errEnd", "matches", "inUniverse"],
              nontrivial=lambda c: c["p"]["k"] == "class" and (len(c["p"]["items"]) > 1 or c["p"]["subs"] or c["fold"]))
    if ctx.replay:
        f = ctx.path("replay.in")
        vlib.write_ndjson(f, [ctx.replay["case"]])
        ctx.vhrun(["c10-run", f, f + ".rec"])
        vlib.validate_cases(ctx, "C10Trace", "C10Trace.cfg", f + ".rec", label="replay", **kw)
        return
    stride = 1 if thorough else 8
    f = ctx.path("pats.ndjson")
    ctx.tlc("C10Gen", "Gen.cfg", workers=1, timeout=3000, name="gen", env={"VERIF_OUT": f, "VERIF_C10_STRIDE": stride, "VERIF_C10_OFFSET": ctx.seed % stride})
    ctx.vhrun(["c10-run", f, f + ".rec"])
    vlib.validate_cases(ctx, "C10Trace", "C10Trace.cfg", f + ".rec", label="patterns", timeout=3300, **kw)
    ctx.cov["rule"] = ("TLC enumerates single-character patterns: 25 code points in every applicable spelling (raw, \\\\xHH, \\\\uHHHH, \\\\UHHHHHHHH, \\\\x{..}, octal, backslash, control), "
                       "11 ranges with mixed spellings, \\\\d\\\\D\\\\w\\\\W\\\\s\\\\S, \\\\p/\\\\P{..} in four styles, '.', classes of 1-2 items, negation, one subtraction, under fold x bytes "
                       "(every %s class; all atoms), plus 29 named malformed spellings x 4 modes; the real parser/compiler is probed on 60+ boundary and case-orbit code "
                       "points; TLC evaluates the denotation. Non-trivial: classes with several items, subtraction or folding." % ("" if thorough else "8th"))
    ctx.assumptions += ["Unicode leaf facts (category membership, simple fold orbits of the probes) come from Go's unicode package", "membership is tested on the probe universe, not all code points",
                        "outside a class a code point above 0xff in byte mode stands for its UTF-8 bytes (multi-byte pattern): not in this single-character universe"]
