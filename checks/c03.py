"""C03 Lookahead sets and conflict reports are exactly LALR(1).

grammars (TLC LalrGen universe U_G sample/all; seeded random; corpus) -> vh lalr-dump (real lalr.Compile, several %expect values)
-> TLC LalrTrace: parallel walk of the LR(1)-merged-by-core automaton and the real tables; bijection, per-cell actions,
SR/RR counts, error iff counts differ from %expect.
"""
import vlib
import lalrcommon as lc

LEVEL = "model_checking"


def nontrivial(c):
    return any(a < -2 for a in c["t"]["Action"])   # at least one state that needs lookahead


def sigv(c, rec, vname):
    if vname == "NoSharedFinalState":
        return "final-state-conflated-with-inner-state"
    return vname + ":" + lc.gsig(c)


def run(ctx):
    thorough = ctx.tier == "thorough"
    kw = dict(sig=lc.gsig, sigv=sigv, rerun=lc.rerun_factory(ctx), input_keys=lc.GKEYS, observed_keys=["t", "compiles"], nontrivial=nontrivial, skip_invariants=("InScope",))
    if ctx.replay:
        f = ctx.path("replay.in")
        vlib.write_ndjson(f, [ctx.replay["case"]])
        vlib.validate_cases(ctx, "LalrTrace", "LalrTrace.cfg", lc.dump(ctx, f, f + ".rec"), label="replay", **kw)
        return
    sets = []
    c = lc.corpus("C03")
    if c:
        sets.append(("corpus", c))
    if thorough:
        sets.append(("ug", lc.universe(ctx, "ug", 3, 2, 1)))
        # (a universe with 4 rules cannot be enumerated by TLC within the time limit even when sampled with a stride: random grammars instead)
        sets.append(("rnd", lc.random_grammars(ctx, 12000)))
    else:
        sets.append(("ug", lc.universe(ctx, "ug", 3, 2, 24)))
        sets.append(("rnd", lc.random_grammars(ctx, 400)))
    for name, f in sets:
        vlib.validate_cases(ctx, "LalrTrace", "LalrTrace.cfg", lc.dump(ctx, f, f + ".rec"), label=name, timeout=3300, **kw)
    ctx.cov["exhaustive"] = thorough
    ctx.cov["rule"] = ("Grammars: U_G (3 terminals incl. eoi, <=2 nonterminals, <=3 rules, rhs<=2, inputs eoi/no-eoi/two inputs) enumerated by TLC (%s), "
                       "seeded random grammars (<=5 terminals, <=4 nonterminals, biased shapes) and the regression corpus; each compiled by the real lalr.Compile with 4 "
                       "%%expect settings; TLC walks the canonical-LR(1)-merged-by-core automaton against the dumped tables. Non-trivial: grammars with at least one "
                       "lookahead-dependent state; distinct by grammar text." % ("all" if thorough else "every 24th, offset by seed"))
    ctx.assumptions += ["grammars in which the same nonterminal is declared as two inputs are outside this check's universe (judged by the run-time layers)",
                        "a state with one reduction and no terminal shift may either default-reduce or list exactly its LALR(1) lookaheads",
                        "cells with a shift and several reductions under precedence are merged in the documented order (LR.tla CellStep)"]
