"""C28 Symbol names map to valid target identifiers.

gen (TLC C28Gen: all tm identifier spellings <= 4 chars over {a,B,0,_,-}, quoted terminals with 1-2 content chars, pairs of a sample)
-> run (vh c28-run: ident.Produce in 4 styles; grammars declaring two symbols in terminal/nonterminal roles through compiler.Compile)
-> validate (TLC C28Trace with Ident.tla: non-empty valid identifiers in the requested casing; equal identifiers => compile error;
accepted grammars have pairwise distinct valid identifiers).
"""
import vlib

LEVEL = "exploration"


def s(cps):
    return "".join(chr(c) for c in cps)


def sig(c):
    return ("name:" + s(c["name"])) if c["kind"] == "name" else "pair:%s,%s roles=%s" % (s(c["a"]), s(c["b"]), ",".join(c.get("roles", [])))


def sigv(c, rec, vname):
    if vname == "IdentifiersValid" and rec["kind"] == "name" and set(rec["name"]) <= {95, 45}:
        return "underscores-only-name-gives-empty-identifier"
    return vname + ":" + sig(rec)


def run(ctx):
    thorough = ctx.tier == "thorough"

    def rerun(inp, out):
        vlib.write_ndjson(out + ".in", [inp])
        ctx.vhrun(["c28-run", out + ".in", out])
        rows = vlib.read_ndjson(out)
        bad = [r for r in rows if r.get("roles") == inp.get("roles")]
        return (bad or rows)[0]

    kw = dict(sig=sig, sigv=sigv, rerun=None, input_keys=["kind", "name", "a", "b", "roles"], observed_keys=["text", "ids", "wouldBe", "err", "msgs", "symIds"],
              nontrivial=lambda c: (c["kind"] == "name" and any(x in c["name"] for x in (45, 95, 39, 48))) or (c["kind"] == "pair" and c["distinctNames"] and c["wouldBe"][0] == c["wouldBe"][1]))
    f = ctx.path("names.ndjson")
    ctx.tlc("C28Gen", "Gen.cfg", workers=1, timeout=3000, name="gen", env={"VERIF_OUT": f, "VERIF_C28_MAXLEN": 5 if thorough else 4})
    ctx.vhrun(["c28-run", f, f + ".rec"])
    vlib.validate_cases(ctx, "C28Trace", "C28Trace.cfg", f + ".rec", label="names", timeout=3300, **kw)
    ctx.cov["exhaustive"] = True
    ctx.cov["rule"] = ("TLC enumerates every identifier spelling of length <= %d over {a,B,0,_,-} admitted by the tm ID rule and quoted terminals with 1-2 content characters over "
                       "{a + _ - 0 space e-acute { $} plus escapes; ident.Produce is recorded in 4 styles; every ordered pair of a 30-name sample is declared in three role "
                       "assignments (two terminals / terminal+nonterminal / two nonterminals) and compiled by the real compiler. Non-trivial: names with - _ digits or quotes; "
                       "pairs of distinct names with equal identifiers." % (5 if thorough else 4))
    ctx.assumptions += ["valid in all target languages = non-empty ASCII identifier [A-Za-z_][A-Za-z0-9_]*", "the exact identifier text is not prescribed, only validity, casing shape and collision reporting"]
