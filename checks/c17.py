"""C17 Generation completes and the generated Go code builds.

TLC C17Gen enumerates, for five base grammars (lexer only; plain parser with semantic values; event-based AST grammar with fields,
categories, injected tokens and recovery; runtime lookaheads with a mid-rule action; lalr(2)), the home option valuation and every
valuation within two flips of it over 23 boolean options -> each is compiled and generated in-process by the real compiler/gen and
built with go1.26 -> TLC C17Trace: Compile -> Rejected | (Write+ -> Build ok); a crash, generator error or failing build has no transition
(invariant Accepted over ENABLED). The post-processing step of every generated Go file, gen.ExtractGoImports, is checked on its own against
Imports.tla: TLC enumerates 5944 sources of qualified references, the real function's output is parsed back with go/parser.
"""
import os
import vlib

LEVEL = "exploration"


def sig(c):
    return "%s k=%s %s" % (c["base"], c.get("k"), ",".join("%s=%s" % (k, str(v).lower()) for k, v in sorted(c["opts"].items())))


def sigv(c, rec, vname):
    d = (c.get("detail") or "") + (c.get("buildMsg") or "")
    if c["base"] == "lalrk" and c["opts"].get("optimizeTables") and "rule index out of range" in d:
        return "optimizeTables-with-lalrk-chains-exits"
    o = c["opts"]
    if o.get("tokenStream") and "stream.Value undefined" in d and "undefined: Listener" not in d:
        return "tokenStream-with-semantic-values-does-not-build"
    if o.get("tokenStream") and "undefined: Listener" in d and not o.get("eventBased"):
        return "tokenStream-without-eventBased-does-not-build"
    if o.get("eventAST") and not o.get("genSelector") and "selector is not in std" in d:
        return "eventAST-without-genSelector-does-not-build"
    return "%s:%s" % (c.get("outcome"), sig(c))


def run(ctx):
    thorough = ctx.tier == "thorough"
    stride = 1 if thorough else 4
    f = ctx.path("configs.ndjson")
    ctx.tlc("C17Gen", "Gen.cfg", workers=1, timeout=3000, name="gen", env={"VERIF_OUT": f, "VERIF_C17_STRIDE": stride, "VERIF_C17_OFFSET": ctx.seed % stride})
    out = ctx.path("gen.ndjson")
    # log.Fatal in the generator would kill the harness: run in slices so that a dying slice is attributed
    rows = vlib.read_ndjson(f)
    for r in rows:
        if isinstance(r["opts"], list):      # TLC serialises the function with an empty domain as []
            r["opts"] = {}
    # size thresholds of the generated tables (8/16/32-bit element types): a lexer with > 32767 DFA states, one around 500
    rows += [dict(base="biglexer", opts={}, k=0), dict(base="midlexer", opts={}, k=0), dict(base="midlexer", opts={"optimizeTables": True}, k=0)]
    # thresholds of the rune map (flat table / compressed ranges): lexers whose highest distinguished code point sits on either side of
    # 0x800, 0x1000, 0x10000 and at the top of the code space
    rows += [dict(base="awkward", opts={}, k=0), dict(base="awkward", opts={"tokenLine": False}, k=0)]
    for f in sorted(os.listdir(os.path.join(vlib.VERIF, "corpus", "C17"))):
        if f.startswith("runetop_"):
            rows += [dict(base=f[:-len(".tmbody")], opts={}, k=0), dict(base=f[:-len(".tmbody")], opts={"caseInsensitive": True}, k=0)]
    results = []
    B = 60
    for b in range(0, len(rows), B):
        part = ctx.path("cfg%d.ndjson" % (b // B))
        vlib.write_ndjson(part, rows[b:b + B])
        po = ctx.path("gen%d.ndjson" % (b // B))
        p = ctx.vhrun(["c17-gen", part, os.path.join(vlib.VERIF, "corpus", "C17"), ctx.path("mod%d" % (b // B), "x").rsplit("/", 1)[0], po], timeout=3000, check=False)
        if p.returncode != 0:
            # bisect one by one to find the configuration that makes the process exit
            for k, r in enumerate(rows[b:b + B]):
                one = ctx.path("one%d_%d.ndjson" % (b, k))
                vlib.write_ndjson(one, [r])
                oo = one + ".out"
                q = ctx.vhrun(["c17-gen", one, os.path.join(vlib.VERIF, "corpus", "C17"), ctx.path("modone%d_%d" % (b, k), "x").rsplit("/", 1)[0], oo], timeout=600, check=False)
                if q.returncode != 0:
                    results.append(dict(r, outcome="crash", detail="process exit: " + (q.stderr or "")[-300:], files=[], built=False, buildMsg="", tmtext=""))
                else:
                    results += vlib.read_ndjson(oo)
        else:
            results += vlib.read_ndjson(po)
    vlib.write_ndjson(out, results)
    kw = dict(sig=sig, sigv=sigv, rerun=None, input_keys=["base", "opts", "k", "tmtext"], observed_keys=["outcome", "detail", "files", "built", "buildMsg"],
              nontrivial=lambda c: c["outcome"] == "generated" and len(c["opts"]) >= 2)
    vlib.validate_cases(ctx, "C17Trace", "C17Trace.cfg", out, label="configs", timeout=1800, **kw)
    # the post-processing step every generated Go file passes through: gen.ExtractGoImports (Imports.tla), all sources of 1-3 qualified
    # references over 5 paths x 4 alias choices in the documented format, with and without a package clause
    ic = ctx.path("imports.ndjson")
    ctx.tlc("ImportsGen", "Gen.cfg", workers=1, timeout=900, name="importsgen", env={"VERIF_OUT": ic})
    io = ctx.path("imports.rec.ndjson")
    ctx.vhrun(["imports-run", ic, io], timeout=600)
    isig = lambda c: "imports:%s:%s" % ("pkg" if c["pkg"] else "nopkg", " ".join("%d/%s" % (r["path"], r["alias"] or "-") for r in c["refs"]))
    vlib.validate_cases(ctx, "ImportsTrace", "ImportsTrace.cfg", io, label="imports", timeout=1800, sig=isig, sigv=lambda c, rec, v: v + ":" + isig(c), rerun=None,
                        input_keys=["refs", "pkg", "src"], observed_keys=["out", "crash", "parses", "imports", "groupBreak", "sels", "placed", "leftover"],
                        nontrivial=lambda c: len(c["imports"]) >= 2)
    # how tables are written into the generated code (Emit.tla): element width at the int8/int16 boundaries, greedy line layout read back,
    # keyword-switch sizes and buckets around the power-of-two thresholds; through the gen.Verif* hooks
    ec = ctx.path("emit.ndjson")
    ctx.tlc("EmitGen", "Gen.cfg", workers=1, timeout=900, name="emitgen", env={"VERIF_OUT": ec})
    eo = ctx.path("emit.rec.ndjson")
    ctx.vhrun(["emit-run", ec, eo], timeout=600)
    esig = lambda c: "emit:%s:%s" % (c["k"], (str(c["arr"]) + " pad%d w%d" % (c["padLen"], c["maxWidth"])) if c["k"] != "switch" else str(c["keys"]))
    vlib.validate_cases(ctx, "EmitTrace", "EmitTrace.cfg", eo, label="emit", timeout=1800, sig=esig, sigv=lambda c, rec, v: v + ":" + esig(c), rerun=None,
                        input_keys=["k", "arr", "padLen", "maxWidth", "keys"], observed_keys=["crash", "width", "values", "breaks", "maxLine", "size", "cases"],
                        nontrivial=lambda c: c["width"] > 8 or len(c["breaks"]) > 1 or len(c["cases"]) > 1)
    # the option block itself (Options.tla): which assignments are reported (unknown, foreign to the target, re-initialised, ill-typed value or
    # list element, each at its place) and which value every option ends up with; every block of one or two assignments over eleven
    # representative options and an unknown one x seven value spellings x targets go / cc, compiled by the real front end
    oc = ctx.path("options.ndjson")
    ctx.tlc("OptionsGen", "Gen.cfg", workers=1, timeout=900, name="optionsgen", env={"VERIF_OUT": oc})
    oo = ctx.path("options.rec.ndjson")
    ctx.vhrun(["options-run", oc, oo], timeout=900)
    osig = lambda c: "options:%s:%s" % (c["target"], " ".join("%s=%s" % (a["name"], a["value"]) for a in c["assigns"]))
    vlib.validate_cases(ctx, "OptionsTrace", "OptionsTrace.cfg", oo, label="options", timeout=1800, sig=osig, sigv=lambda c, rec, v: v + ":" + osig(c), rerun=None,
                        input_keys=["assigns", "target", "tmtext"], observed_keys=["crash", "errs", "otherErrs", "other", "hasGrammar", "final"],
                        nontrivial=lambda c: len(c["errs"]) >= 2)
    ctx.cov["programs"] = len(results)
    ctx.cov["rule"] = ("5 base grammars x (home valuation + all single and pairwise flips of 23 boolean Go-target options)%s = %d configurations; each compiled, generated and built by the "
                       "real tool chain; TLC admits Rejected or Write+/Build-ok only. gen.ExtractGoImports: all 5944 sources of 1-3 qualified references (5 paths x 4 alias choices, with/without package clause) "
                       "against Imports.tla; 819 arrays over the int8/int16 boundary values, 8184 table layouts and 135 keyword sets against Emit.tla; 14280 option blocks against Options.tla. Non-trivial: accepted configurations that set at least two options." % ("" if thorough else ", all single flips and every 4th pairwise one", len(results)))
    ctx.assumptions += ["'builds' is decided by go1.26 build; configurations the compiler rejects with errors are outside the quantifier",
                        "the predicted file set is limited to lexer/token/parser files",
                        "table-size thresholds: one lexer with more than 32767 DFA states, one mid-size grammar and ten lexers around the rune-map thresholds are generated and built with the home valuation"]
