"""C04 Precedence and associativity resolve conflicts as documented.

Table level: grammars with %left/%right/%nonassoc groups and %prec markers (TLC universe U_G x a family of precedence
declarations; seeded random expression-shaped grammars; corpus) -> real lalr.Compile -> TLC LalrTrace: every shift/reduce cell is
decided by LR!ResolvePrec (rule precedence = %prec terminal else last terminal; higher wins; equal: left reduces, right shifts,
nonassoc makes an explicit error entry), undecided cells are counted as conflicts and default to shift / earlier rule.
"""
import vlib
import lalrcommon as lc
import c03

LEVEL = "model_checking"


def nontrivial(c):
    return bool(c.get("prec")) and any(a < -2 for a in c["t"]["Action"])


def run(ctx):
    thorough = ctx.tier == "thorough"
    kw = dict(sig=lc.gsig, sigv=c03.sigv, rerun=lc.rerun_factory(ctx), input_keys=lc.GKEYS, observed_keys=["t", "compiles"],
              nontrivial=nontrivial, skip_invariants=("InScope",))
    if ctx.replay:
        f = ctx.path("replay.in")
        vlib.write_ndjson(f, [ctx.replay["case"]])
        vlib.validate_cases(ctx, "LalrTrace", "LalrTrace.cfg", lc.dump(ctx, f, f + ".rec"), label="replay", **kw)
        return
    sets = []
    c = lc.corpus("C04")
    if c:
        sets.append(("corpus", c))
    if thorough:
        sets += [("ugp", lc.universe(ctx, "ugp", 3, 2, 2, prec=True, allprec=True)), ("rndp", lc.random_grammars(ctx, 8000, prec=True, name="rndp"))]
    else:
        sets += [("ugp", lc.universe(ctx, "ugp", 3, 2, 16, prec=True)), ("rndp", lc.random_grammars(ctx, 600, prec=True, name="rndp"))]
    for name, f in sets:
        vlib.validate_cases(ctx, "LalrTrace", "LalrTrace.cfg", lc.dump(ctx, f, f + ".rec"), label=name, timeout=3300, **kw)
    ctx.cov["rule"] = ("Grammars with 1-3 precedence groups (all associativities), %prec markers, operators shared between rules: U_G x 6 precedence families enumerated "
                       "by TLC (sampled in quick), seeded random expression-shaped grammars, corpus; each compiled by the real lalr.Compile; TLC checks every cell's "
                       "decision against LR!ResolvePrec / CellStep on the LALR(1) oracle, explicit nonassoc errors, SR/RR counts. Non-trivial: grammars with precedence "
                       "declarations and at least one lookahead-dependent state.")
    ctx.assumptions += ["same scope and known finding as C03 (shared LalrTrace)", "cells with a shift and several reductions are merged in increasing rule order as LR!CellStep documents"]
