"""C06 Parser state minimization preserves behaviour from every entry point.

grammars (U_G sample; seeded random incl. a 'duplicated nonterminal' family with several inputs, no-eoi inputs, the same
nonterminal as two inputs, rule classes varied by action/type/flags; corpus; shipped grammars) -> real lalr.Compile with and
without MinimizeDFA -> TLC MinTrace: lock-step walk of both tables from entry state = input index; same transitions, same
action kind and rule class on every terminal, same accept moments.
"""
import vlib
import lalrcommon as lc

LEVEL = "model_checking"


def sig(c):
    return c.get("tag") and ("shipped:" + c["tag"]) or lc.gsig(c)


def sigv(c, rec, vname):
    tf, mf = rec["t"]["FinalStates"], rec["min"]["FinalStates"]
    merged = any(mf[i] == mf[j] and tf[i] != tf[j] for i in range(len(mf)) for j in range(i))
    if merged and vname in ("SameAccept", "SameTransitions", "SameActions"):
        return "final-states-of-different-inputs-merged"
    return vname + ":" + sig(c)


def run(ctx):
    thorough = ctx.tier == "thorough"
    kw = dict(sig=sig, sigv=sigv, rerun=lc.rerun_factory(ctx, "min"), input_keys=lc.GKEYS, observed_keys=["t", "min"],
              nontrivial=lambda c: c["min"]["NumStates"] < c["t"]["NumStates"], skip_invariants=("InScope",))
    if ctx.replay:
        f = ctx.path("replay.in")
        vlib.write_ndjson(f, [ctx.replay["case"]])
        vlib.validate_cases(ctx, "MinTrace", "MinTrace.cfg", lc.dump(ctx, f, f + ".rec", "min"), label="replay", **kw)
        return
    sets = []
    c = lc.corpus("C06")
    if c:
        sets.append(("corpus", c))
    if thorough:
        sets += [("ug", lc.universe(ctx, "ug", 3, 2, 2)), ("rnd", lc.random_grammars(ctx, 4000)),
                 ("dup", lc.random_grammars(ctx, 8000, name="dup", kind="dup"))]
    else:
        sets += [("ug", lc.universe(ctx, "ug", 3, 2, 48)), ("rnd", lc.random_grammars(ctx, 300)),
                 ("dup", lc.random_grammars(ctx, 700, name="dup", kind="dup"))]
    for name, f in sets:
        vlib.validate_cases(ctx, "MinTrace", "MinTrace.cfg", lc.dump(ctx, f, f + ".rec", "min"), label=name, timeout=3300, **kw)
    shipped = ctx.path("shipped.ndjson")
    ctx.vhrun(["tm-tables", shipped, "min"], env_extra={"VERIF_SKIP_JS": "0" if thorough else "1"})
    kw2 = dict(kw)
    kw2["rerun"] = None
    vlib.validate_cases(ctx, "MinTrace", "MinTrace.cfg", shipped, label="shipped", timeout=3300, **kw2)
    ctx.cov["rule"] = ("Each grammar is compiled by the real lalr.Compile with MinimizeDFA off and on; TLC walks both tables in lock step from every input's entry "
                       "state (the input index, as the generated parser does) over all symbols and compares actions by rule class, transitions and accept moments on "
                       "every reachable pair (exhaustive per grammar, hence for all token sequences). Non-trivial: grammars where minimization merged at least one state.")
    ctx.assumptions += ["rule class = (lhs, length, action, type, flags) as the property states; synthetic lookahead rules are never merged",
                        "decoders in Tables.tla are transcriptions of the generated parser's lalr()/gotoState"]
