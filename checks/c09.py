"""C09 Lexer tables implement longest match with rule priority.

rule sets (regex ASTs over symbolic alphabets: rune mode a b c e-acute U+1D11E; case-folding mode; byte mode with bytes >= 0x80;
1-3 rules, priorities, 1-2 start conditions; seeded random + corpus) -> rendered to pattern text, lex.ParseRegexp + lex.Compile,
Tables.Scan on EVERY text up to length L -> TLC LexTrace: Regex!LongestMatch (Brzozowski derivatives) at every text.
"""
import os
import vlib

LEVEL = "model_checking"


def rsig(c):
    return "lex[%s nsc=%d] " % (c["mode"], c.get("nsc", 1)) + " ; ".join("%s p%d sc%s" % (r.get("text", "?"), r["prio"], r["sc"]) for r in c["rules"])


def sigv(c, rec, vname):
    return vname + ":" + rsig(rec)


def plan(ctx):
    thorough = ctx.tier == "thorough"
    return [("rune", 6000 if thorough else 500, 4), ("fold", 3000 if thorough else 250, 4), ("bytes", 3000 if thorough else 250, 3),
            ("foldbytes", 2000 if thorough else 200, 4)]


def run(ctx, pid="C09"):
    def rerun(inp, out):
        vlib.write_ndjson(out + ".in", [inp])
        ctx.vhrun(["lex-run", out + ".in", out])
        return vlib.read_ndjson(out)[0]

    kw = dict(sig=rsig, sigv=sigv, rerun=rerun, input_keys=["mode", "nsc", "L", "rules"], observed_keys=["err", "nbt", "scans", "sdfaOk", "sdfaErr", "sdfa"],
              nontrivial=(lambda c: c["err"] == "" and c["nbt"] > 0) if pid == "C09" else (lambda c: c["sdfaOk"] and c["nstates"] >= 3))
    cfg = "LexTrace.cfg" if pid == "C09" else "ShiftDfa.cfg"
    if ctx.replay:
        f = ctx.path("replay.in")
        vlib.write_ndjson(f, [ctx.replay["case"]])
        ctx.vhrun(["lex-run", f, f + ".rec"])
        vlib.validate_cases(ctx, "LexTrace", cfg, f + ".rec", label="replay", **kw)
        return
    corpus = os.path.join(vlib.VERIF, "corpus", pid, "rules.ndjson")
    if os.path.exists(corpus):
        ctx.vhrun(["lex-run", corpus, ctx.path("corpus.rec")])
        vlib.validate_cases(ctx, "LexTrace", cfg, ctx.path("corpus.rec"), label="corpus", **kw)
    if pid == "C09":
        batches = [(mode, n, L, None) for mode, n, L in plan(ctx)]
    elif ctx.tier == "thorough":
        # batches keep every TLC validation well inside its time limit on a loaded machine
        batches = [("bytes", 1500, 3, ctx.seed * 10 + b) for b in range(4)]
    else:
        batches = [("bytes", 1100, 3, None)]
    for k, (mode, n, L, seed) in enumerate(batches):
        f = ctx.path("rnd-%s-%d.ndjson" % (mode, k))
        ctx.vhrun(["lex-random", str(n), f, mode, str(L)], env_extra={"VERIF_SEED": str(seed)} if seed is not None else None)
        vlib.validate_cases(ctx, "LexTrace", cfg, f, label="%s%d" % (mode, k) if seed is not None else mode, timeout=3300, **kw)
    ctx.cov["rule"] = ("Seeded random rule sets (regex ASTs of depth <= 3 with literals, classes incl. negated, * + ? {m,n}, alternation; 1-3 rules; priorities; 1-2 start "
                       "conditions) in rune, case-folding and byte mode are compiled by the real lex package and scanned on every text up to length 4 (3 in byte mode) over "
                       "the mode's symbolic alphabet; TLC evaluates the derivative-based LongestMatch at every text and compares size and action. Non-trivial: "
                       + ("rule sets whose tables need backtracking." if pid == "C09" else "rule sets accepted by the shift-DFA packer with >= 3 DFA states."))
    ctx.assumptions += ["the AST -> pattern text renderer of the harness is trusted", "rule sets rejected by the compiler are only checked for the accepts-empty verdict"]
