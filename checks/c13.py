"""C13 Desugaring extended notation preserves the language.

Seeded random grammars in extended notation (optional parts, nested choices, '*'/'+' lists with one- and two-token separators,
set(...) of unions and intersections, up to three nonterminals, depth <= 3) are rendered to .tm, compiled by the real front end
(compiler.Compile: syntax loading, Expand, set resolution) and the plain rules of the compiled grammar are dumped; TLC SugarTrace:
for every input nonterminal, LangUpTo(expanded rules, L) = Sugar!SugarDen(source, L) - the least-fixpoint language of the plain rules
against the denotation of the extended notation (conflicts are irrelevant here: the comparison is on languages, not tables).
"""
import os
import vlib

LEVEL = "exploration"


def sig(c):
    t = c.get("tmtext", "")
    return "sugar:" + " ".join(t[t.find(":: parser"):].split())[:200]


def sigv(c, rec, vname):
    if vname == "LanguagePreserved" and '"op": "and"' in __import__("json").dumps(c.get("src")) and empty_and_set(c):
        return "empty-set-becomes-empty-rule"
    return vname + ":" + sig(c)


def empty_and_set(c):
    def walk(e):
        if e["k"] == "set" and e["op"] == "and" and len(set(e["c"])) > 1:
            return True
        return any(walk(s) for s in e.get("sub", []))
    return any(walk(n["e"]) for n in c["src"])


def run(ctx):
    thorough = ctx.tier == "thorough"

    def rerun(inp, out):
        raise vlib.Infra("no single-case rerun for C13")

    kw = dict(sig=sig, sigv=sigv, rerun=None, input_keys=["tmtext"], observed_keys=["err", "conflict", "g", "src", "inputs"],
              nontrivial=lambda c: c["err"] == "" and len(c["g"]["rules"]) >= 6)
    L = 5 if thorough else 4
    corpus = os.path.join(vlib.VERIF, "corpus", "C13", "cases.ndjson")
    if os.path.exists(corpus):
        ctx.vhrun(["c13-run", corpus, ctx.path("corpus.rec")])
        vlib.validate_cases(ctx, "SugarTrace", "SugarTrace.cfg", ctx.path("corpus.rec"), label="corpus", **kw)
    f = ctx.path("rnd.ndjson")
    ctx.vhrun(["c13-random", "20000" if thorough else "3000", f, str(L)])
    vlib.validate_cases(ctx, "SugarTrace", "SugarTrace.cfg", f, label="random", timeout=3300, **kw)
    ctx.cov["rule"] = ("Seeded random extended-notation grammars (1-3 nonterminals, expression depth <= 3: sequences, nested choices, optionals, */+ lists with and without "
                       "separators incl. two-token separators, set(a|b), set(a&b)) compiled by the real front end; TLC compares, per input, the language of the dumped plain rules "
                       "with the denotation of the source up to length %d. Non-trivial: grammars expanding to at least 6 plain rules." % L)
    ctx.assumptions += ["bounded language equality (length <= L)", "the .tm renderer of the harness is trusted"]
