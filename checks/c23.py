"""C23 The language server stays consistent under any message history.

Design: LS.tla models the client stream, the sequential handler chain of go.lsp.dev (a reply unlocks the next handler before the
response is written), the document map and the output stream; TLC checks DiagOrder, DefLatest, RepliesUnique, IdleComplete (and
EventuallyIdle under fairness) for 2 documents x 2 contents x 4 ops, and shows that the same properties FAIL when handlers may overlap or
when type checking runs in the background (the two knobs) - the model can see the failures it is meant to exclude.
Conformance: TLC LSGen enumerates all client histories up to length 3 (quick: a stride of them); random longer histories are added; every
history is played over JSON-RPC/stdio into the real 'textmapper ls' binary built from the working tree (tag verif: edits whose version
is 2 mod 5 are held for a few ms, so that a server that overlaps handlers or publishes in the background shows it), pipelined or waiting
for each answer; the recorded session (sends and receives in one process-local order) is validated by TLC LSTrace against the sequential
meaning proved for the design: diagnostics in request order with their versions, the diagnostics of exactly that content at UTF-16
positions inside the document, one response per request computed from the latest content with locations of same-named identifiers.
"""
import os
import vlib

LEVEL = "model_checking"

TRIPLES = [(1, 2, 3), (3, 7, 5), (6, 4, 8), (7, 3, 2), (2, 6, 7), (8, 3, 1)]


def sig(c):
    return "ls:%s:%s:%s" % (c.get("mode"), ",".join(map(str, c.get("contents", []))),
                            " ".join("%s-%s%s%s" % (o["k"], o["u"], o.get("c") or "", "s" if o.get("slow") else ("p%d" % o["p"] if o["k"] == "def" else ""))
                                     for o in c.get("ops", [])))[:240]


def sigv(c, rec, vname):
    if vname == "NoCrash" and any(o["k"] == "change0" for o in c.get("ops", [])):
        return "crash-on-empty-content-changes"
    return vname + ":" + sig(c)


def build_tm(ctx):
    out = ctx.path("bin", "textmapper")
    p = vlib.run([vlib.GO, "build", "-tags", "verif", "-o", out, "./cmd/textmapper"], cwd=vlib.REPO, env=vlib.goenv(), timeout=900, check=False)
    if p.returncode != 0:
        raise vlib.Infra("textmapper build failed:\n" + p.stderr[-3000:])
    return out


def run(ctx):
    thorough = ctx.tier == "thorough"
    # 1. design
    r = ctx.tlc("LS", "LSDesign.cfg", timeout=1500, continue_=False, name="design")
    for v in r.violations:
        raise vlib.Infra("design model LS.tla violated (%s): a spec defect, not a verdict" % v["name"])
    r = ctx.tlc("LS", "LSDesignLive.cfg", timeout=600, continue_=False, name="live")
    if r.violations or "violated" in r.out:
        raise vlib.Infra("design model LS.tla: liveness violated")
    for cfg in ("LSDesignOverlap.cfg", "LSDesignBackground.cfg"):
        r = ctx.tlc("LS", cfg, timeout=600, continue_=False, name=cfg)
        if not any(v["name"] == "DiagOrder" for v in r.violations):
            raise vlib.Infra("design model LS.tla with %s should violate DiagOrder (vacuity guard)" % cfg)
    # 2. conformance
    tm = build_tm(ctx)
    env = {"VERIF_LS_CORPUS": os.path.join(vlib.VERIF, "corpus", "C23")}
    kw = dict(sig=sig, sigv=sigv, rerun=None, input_keys=["ops", "contents", "mode"], observed_keys=["recv", "crashed", "timeout", "ran"],
              nontrivial=lambda c: c.get("ran") and len(c["ops"]) >= 3 and any(o["k"] == "def" for o in c["ops"]))
    if ctx.replay:
        f = ctx.path("replay.in")
        vlib.write_ndjson(f, [ctx.replay["case"]])
        ctx.vhrun(["ls-run", tm, f, f + ".rec"], env_extra=env)
        vlib.validate_cases(ctx, "LSTrace", "LSTrace.cfg", f + ".rec", label="replay", **kw)
        return
    g = ctx.path("hist.ndjson")
    ctx.tlc("LSGen", "Gen.cfg", env={"VERIF_OUT": g, "VERIF_LS_N": 3, "VERIF_LS_NC": 2, "VERIF_LS_NP": 3,
                                     "VERIF_STRIDE": 1 if thorough else 11, "VERIF_OFFSET": ctx.seed}, workers=1, timeout=1500, name="gen")
    hs = vlib.read_ndjson(g)
    for i, h in enumerate(hs):
        t = TRIPLES[(i + ctx.seed) % len(TRIPLES)]
        h["contents"] = list(t[:2])
        h["mode"] = "stepwise" if (i // len(TRIPLES)) % 3 == 2 else "pipelined"
    vlib.write_ndjson(g, hs)
    ctx.vhrun(["ls-run", tm, g, g + ".rec"], env_extra=env, timeout=3000)
    vlib.validate_cases(ctx, "LSTrace", "LSTrace.cfg", g + ".rec", label="enumerated", timeout=3000, **kw)
    rnd = ctx.path("rnd.ndjson")
    ctx.vhrun(["ls-random", "6000" if thorough else "600", rnd, "12"], env_extra=env)
    ctx.vhrun(["ls-run", tm, rnd, rnd + ".rec"], env_extra=env, timeout=3000)
    vlib.validate_cases(ctx, "LSTrace", "LSTrace.cfg", rnd + ".rec", label="random", timeout=3000, **kw)
    ctx.cov["exhaustive"] = thorough
    ctx.cov["rule"] = ("Design: TLC explores LS.tla (2 documents, 2 contents, 4 ops) exhaustively. Conformance: histories of length <= 3 over "
                       "{open,change (optionally slow),change0,close,definition} x 2 documents x 2 contents x 3 cursor positions (%s) plus seeded random histories "
                       "of length 3..12 over 8+ documents contents (ASCII, errors, 2- and 4-byte characters, CRLF, empty, garbage) are played into the real "
                       "'textmapper ls' process; TLC validates every recorded session." % ("all of them" if thorough else "every 11th"))
    ctx.assumptions += ["the driver's JSON-RPC framing and its UTF-16 position tables are trusted", "scheduling is perturbed by the delay hook and by pipelining, not enumerated",
                        "identifier occurrences and compile errors (in byte offsets) come from the real parser/compiler; their conversion to line/UTF-16 is independent"]
