"""C07 LALR(k) resolution never changes the accepted language.

Families of grammars whose reduce/reduce conflicts need 2..k tokens (parameterised classics, several left contexts, several tries,
lookahead that continues after a reduction) plus seeded random grammars that compile only with lalr(k) -> generated parsers
(':: parser lalr(k)') run on every token string up to the sentence length -> TLC ParseTrace: accepted iff sentence (Earley), error at
the first non-viable token.
"""
import vlib
import lalrcommon as lc
import rtcommon as rt
import c01

LEVEL = "exploration"


def G(nT, nS, rules, k, tag):
    return dict(nT=nT, nS=nS, rules=[dict(lhs=l, rhs=r) for l, r in rules], inputs=[dict(nt=nT, eoi=True)], k=k, tag=tag)


def families(maxk):
    out = []
    for k in range(2, maxk + 1):
        # terminals: 1 a, 2 b, 3 c, 4 e ; S=5 A=6 B=7 :  S: A a^(k-1) b | B a^(k-1) c ; A: e ; B: e
        a = [1] * (k - 1)
        out.append(G(5, 8, [(5, [6] + a + [2]), (5, [7] + a + [3]), (6, [4]), (7, [4])], k, "classic-k%d" % k))
        # A and B distinguished only at depth k, with a common continuation afterwards
        out.append(G(5, 8, [(5, [6] + a + [2, 1]), (5, [7] + a + [3, 1]), (6, [4]), (7, [4]), (6, [4, 4])], k, "classic-tail-k%d" % k))
    # two left contexts that merge into one reducing state (terminals 1 a 2 b 3 c 4 d 5 f 6 e 7 x 8 y; S=9 A=10 B=11)
    out.append(G(9, 12, [(9, [7, 10, 1, 2]), (9, [8, 10, 1, 3]), (9, [7, 11, 1, 4]), (9, [8, 11, 1, 5]), (10, [6]), (11, [6])], 2, "two-contexts-k2"))
    out.append(G(9, 12, [(9, [7, 10, 1, 1, 2]), (9, [8, 10, 1, 1, 3]), (9, [7, 11, 1, 1, 4]), (9, [8, 11, 1, 1, 5]), (10, [6]), (11, [6])], 3, "two-contexts-k3"))
    # two tries of depth 3 with equal edge terminals (terminals 1 a 2 b 3 c 4 d 5 e 6 f 7 g; S=8 A=9 B=10 C=11 D=12)
    out.append(G(8, 13, [(8, [9, 1, 2, 3]), (8, [10, 1, 2, 4]), (8, [11, 1, 2, 3]), (8, [12, 1, 2, 4]), (9, [5]), (10, [5]), (11, [6]), (12, [6])], 3, "two-tries-k3"))
    out.append(G(8, 11, [(8, [9, 1, 2, 3]), (8, [10, 1, 2, 4]), (8, [9, 7, 2, 4]), (8, [10, 7, 2, 3]), (9, [5]), (10, [5])], 3, "two-tries-swapped-k3"))
    # the lookahead continues after a reduction: S: A a b | T d | B a c ; T: A a ; A: e ; B: e  (1 a 2 b 3 c 4 d 5 e; S=6 A=7 B=8 T=9)
    out.append(G(6, 10, [(6, [7, 1, 2]), (6, [9, 4]), (9, [7, 1]), (6, [8, 1, 3]), (7, [5]), (8, [5])], 2, "lookahead-after-reduction-k2"))
    # the same with the reduction on the other side: S: A X d | B a f ; X: a ; A: e ; B: e  (1 a 2 d 3 f 4 e; S=5 A=6 B=7 X=8)
    out.append(G(5, 9, [(5, [6, 8, 2]), (5, [7, 1, 3]), (8, [1]), (6, [4]), (7, [4])], 2, "lookahead-after-reduction-k2-nt"))
    # two states with equal LALR(1) rows and equivalent successors whose lookahead automata choose in opposite ways (only the automaton
    # tells them apart, which matters to minimizeDFA): S: p e x | q e x | p A a b | p B a c | q A a c | q B a b ; A: e ; B: e
    # (1 p 2 q 3 e 4 x 5 a 6 b 7 c; S=8 A=9 B=10)
    out.append(G(8, 11, [(8, [1, 3, 4]), (8, [2, 3, 4]), (8, [1, 9, 5, 6]), (8, [1, 10, 5, 7]), (8, [2, 9, 5, 7]), (8, [2, 10, 5, 6]), (9, [3]), (10, [3])], 2,
                 "equal-rows-opposite-automata-k2"))
    # a conflict that two tokens resolve on one next-terminal but not on another (1 a 2 b 3 c 4 x 5 y 6 e; S=7 E=8 F=9), in both orders of the
    # terminals: not lalr(2) - the compiler has to report it; if it compiles, the parser has to accept exactly the language
    out.append(G(7, 10, [(7, [8, 1, 2, 4]), (7, [9, 1, 2, 5]), (7, [8, 3, 4]), (7, [9, 3, 5]), (8, [6]), (9, [6])], 2, "partly-resolvable-last-k2"))
    out.append(G(7, 10, [(7, [8, 3, 2, 4]), (7, [9, 3, 2, 5]), (7, [8, 1, 4]), (7, [9, 1, 5]), (8, [6]), (9, [6])], 2, "partly-resolvable-first-k2"))
    return out


def sigv(c, rec, vname):
    if (c.get("tag") or "").startswith("lookahead-after-reduction-k2") and vname == "AcceptConforms":
        return "lalrk-lookahead-after-reduction"
    return c01.sigv(c, rec, vname)


def run(ctx):
    thorough = ctx.tier == "thorough"
    kw = dict(sig=c01.sig, sigv=sigv, rerun=rt.rt_rerun_factory(ctx), input_keys=rt.RT_KEYS, observed_keys=["genErr", "bad", "runs", "tmtext"],
              nontrivial=lambda c: c.get("ran") and c.get("k", 0) >= 2)
    if ctx.replay:
        out = rt.rtgen(ctx, [ctx.replay["case"]], "replay")
        vlib.validate_cases(ctx, "ParseTrace", "ParseTraceLAK.cfg", out, label="replay", **kw)
        return
    specs = []
    for g in families(8 if thorough else 4):
        s = dict(g)
        s["cfg"] = dict(optimize=False, defaultReduce=False, minimize=False, events=False)
        used = sorted({x for r in g["rules"] for x in r["rhs"] if x < g["nT"]})
        s["alph"] = used
        longest = max(len(r["rhs"]) for r in g["rules"]) + 1
        s["L"] = min(longest + (1 if len(used) <= 4 else 0), 6 if len(used) <= 5 else 5)
        specs.append(s)
        if g["k"] <= 4:
            s2 = dict(s)
            s2["cfg"] = dict(optimize=False, defaultReduce=False, minimize=True, events=False)
            specs.append(s2)
    # seeded random grammars that have reduce/reduce conflicts with lalr(1) but compile with lalr(k)
    import json
    rnd = lc.random_grammars(ctx, 3000 if thorough else 500)
    rec = lc.dump(ctx, rnd, ctx.path("rnd1.rec"))
    cand = [c for c in vlib.read_ndjson(rec) if c["t"]["RR"] > 0 and c["t"]["SR"] == 0 and c["nT"] <= 4]
    for k in (2, 3):
        f = ctx.path("cand%d.ndjson" % k)
        vlib.write_ndjson(f, [dict({x: c[x] for x in lc.GKEYS if x in c}, k=k) for c in cand])
        if not cand:
            break
        rec2 = lc.dump(ctx, f, f + ".rec")
        for c in vlib.read_ndjson(rec2):
            if not c["compiles"][0]["err"] and c["t"]["UsedLADepth"] > 0 and len(specs) < (200 if thorough else 40):
                s = {x: c[x] for x in lc.GKEYS if x in c}
                s["cfg"] = dict(optimize=False, defaultReduce=False, minimize=len(specs) % 2 == 1, events=False)
                s["L"] = 5
                specs.append(s)
    out = rt.rtgen(ctx, specs, "lak")
    vlib.validate_cases(ctx, "ParseTrace", "ParseTraceLAK.cfg", out, label="lalrk", timeout=3300, **kw)
    ctx.cov["programs"] = len(specs)
    ctx.cov["rule"] = ("%d lalr(k) grammars: parameterised families for k = 2..%d (classic A/B split at depth k, two left contexts, two tries, swapped tries, lookahead after a "
                       "reduction) and seeded random grammars whose reduce/reduce conflicts the real compiler resolves with 2-3 tokens; generated parsers run on every token string up "
                       "to the sentence length; TLC checks acceptance against Earley at every string. Non-trivial: grammars declared with k >= 2." % (len(specs), 8 if thorough else 4))
    ctx.assumptions += ["only grammars that compile without errors under lalr(k) are in the quantifier", "oracle is the language (Earley), never the lookahead automaton"]
