"""C21 Typed AST accessors match the trees the parser builds.

Seeded random grammars with typed AST generation (eventBased, eventFields, eventAST: leaf nodes, struct nodes with named and unnamed
fields, optional parts, lists with and without separators, interfaces with several member types and a binary node, the same node type
in several fields of one rule) are generated with the real templates and built; on 20 random sentences each, the generated ast.Parse
builds the tree and every accessor of every node is called by reflection (panics caught), recording which children it returned. TLC
C21Trace: no panic; the accessors are exactly the inferred fields and return what the field's navigation denotes (AstTypes.tla);
required accessors return a present child, optional ones report presence truthfully; returned nodes have a declared type; every child is
returned by some accessor of its parent.
"""
import vlib

LEVEL = "exploration"


def sig(c):
    t = c.get("tmtext", "")
    return "ast:" + " ".join(t[t.find("top -> Top"):].split())[:260]


def sigv(c, rec, vname):
    return vname + ":" + sig(c)


def run(ctx):
    thorough = ctx.tier == "thorough"
    kw = dict(sig=sig, sigv=sigv, rerun=None, input_keys=["tmtext", "nts"], observed_keys=["genErr", "types", "runs"],
              nontrivial=lambda c: c["genErr"] == "" and sum(len(n["acc"]) for r in c["runs"] for n in r["nodes"]) >= 60)
    n = 600 if thorough else 120
    B = 120
    for b in range(0, n, B):
        out = ctx.path("ast%d.ndjson" % b)
        ctx.vhrun(["c21-gen", str(B), ctx.path("mod%d" % b), out], env_extra={"VERIF_SEED": str(ctx.seed * 100 + b // B)}, timeout=3000)
        vlib.run(["rm", "-rf", ctx.path("mod%d" % b)], check=False)
        vlib.validate_cases(ctx, "C21Trace", "C21Trace.cfg", out, label="batch%d" % (b // B), timeout=3300, **kw)
    ctx.cov["rule"] = ("%d random grammars with typed AST generation generated with the real templates, built, 20 sentences each; every accessor of every node is "
                       "called; TLC checks each call against the inferred field's navigation and the four clauses of the property. Non-trivial: grammars "
                       "that build and make at least 60 accessor calls." % n)
    ctx.assumptions += ["sentences come from the harness's own derivation of the source grammar", "the reflection adapter added to the generated ast package is trusted",
                        "no injected tokens in the universe (every child stems from an annotation)"]
