"""C15 Token sets equal their fixpoint definitions.

Seeded random grammars (extended notation, 1-4 nonterminals, optional 'error' terminal, 1-2 inputs) with up to three %generate named
sets (first/last/follow/precede/any of terminals and nonterminals, |, &, ~, references to named sets, in a third of the grammars also forward and mutually recursive ones) and optionally one in-rule
set(...) are compiled by the real front end. TLC SetsTrace evaluates TokenSets.tla on the dumped plain rules: each named set and the
in-rule set equal the least-fixpoint definitions, afterErr = follow(error), and a complement self-dependency (decided on the dependency
graph of the twin grammar in which the in-rule set is opaque) is rejected - and nothing else is.
"""
import vlib

LEVEL = "exploration"


def sig(c):
    t = c.get("tmtext", "")
    return "sets:" + " ".join(t[t.find(":: parser"):].split())[:240]


def sigv(c, rec, vname):
    # the opaque variants are listed first in SetsTrace.cfg: reaching the exact ones means the opaque ones held on this case
    if vname in ("SetsConform", "AfterErrConforms") and c.get("ssym", -1) >= 0:
        return "set-members-are-not-uses-for-follow-precede"
    return vname + ":" + sig(c)


def run(ctx):
    thorough = ctx.tier == "thorough"
    kw = dict(sig=sig, sigv=sigv, rerun=None, input_keys=["tmtext", "orig"],
              observed_keys=["err", "complErr", "g", "sets", "afterErr", "ssym", "laHosts"],
              nontrivial=lambda c: c["usable"] and (len(c["sets"]) > 0 or c["ssym"] >= 0 or c["complErr"]))
    f = ctx.path("rnd.ndjson")
    ctx.vhrun(["c15-random", "30000" if thorough else "4000", f])
    vlib.validate_cases(ctx, "SetsTrace", "SetsTrace.cfg", f, label="random", timeout=3300, **kw)
    ctx.cov["rule"] = ("Seeded random grammars with named sets and in-rule sets compiled by the real front end; TLC compares every resolved set "
                       "(grammar.Grammar.Sets[].Terminals, the in-rule set's alternatives, afterErr) with the least fixpoints of TokenSets.tla over the "
                       "reachable plain rules, and the complement-cycle rejection with the dependency-graph criterion.")
    ctx.assumptions += ["the .tm renderer of the harness is trusted", "named sets refer to earlier ones in 2/3 of the grammars and to any named set (forward, mutual, self) in the rest"]
