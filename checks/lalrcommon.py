"""Shared by C03/C04/C05/C06: grammar universes (TLC LalrGen), seeded random grammars, the regression corpus,
the real-table dump (vh lalr-dump)."""
import os
import vlib


def gsig(c):
    rules = " | ".join("%d:%s%s" % (r["lhs"], ",".join(map(str, r["rhs"])), ("%%%d" % r["prec"]) if r.get("prec") else "") for r in c["rules"])
    inp = ",".join("%d%s" % (i["nt"], "" if i["eoi"] else "!") for i in c["inputs"])
    prec = ";".join("%s%s" % (p["assoc"][0], p["terms"]) for p in c.get("prec", []))
    return "g[nT=%d in=%s prec=%s] %s" % (c["nT"], inp, prec, rules)


GKEYS = ["nT", "nS", "rules", "inputs", "prec", "lookaheads", "markers", "k", "tag"]


def universe(ctx, name, maxrules, maxrhs, stride, prec=False, allprec=False):
    f = ctx.path("ug-%s.ndjson" % name)
    ctx.tlc("LalrGen", "Gen.cfg", workers=1, timeout=3000, name="gen-" + name,
            env={"VERIF_OUT": f, "VERIF_UG_MAXRULES": maxrules, "VERIF_UG_MAXRHS": maxrhs, "VERIF_UG_STRIDE": stride,
                 "VERIF_UG_OFFSET": ctx.seed % stride, "VERIF_UG_PREC": "1" if prec else "0", "VERIF_UG_ALLPREC": "1" if allprec else "0"})
    return f


def random_grammars(ctx, n, prec=False, name="rnd", kind=None):
    f = ctx.path("%s.ndjson" % name)
    ctx.vhrun(["lalr-random", str(n), f] + (["prec"] if prec else []) + ([kind] if kind else []))
    return f


def corpus(pid):
    p = os.path.join(vlib.VERIF, "corpus", pid, "grammars.ndjson")
    return p if os.path.exists(p) else None


def dump(ctx, gfile, out, *flags):
    ctx.vhrun(["lalr-dump", gfile, out] + list(flags), timeout=3000)
    return out


def rerun_factory(ctx, *flags):
    def rerun(inp, out):
        vlib.write_ndjson(out + ".in", [inp])
        ctx.vhrun(["lalr-dump", out + ".in", out] + list(flags))
        return vlib.read_ndjson(out)[0]
    return rerun
