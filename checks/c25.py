"""C25 Integer set algebra and set-equation closure are exact.

gen (TLC: C25Gen, exhaustive universes) -> run (vh c25-run: real container/set code) ->
validate (TLC: C25Trace with IntSets/SetClosure as oracle); plus seeded random larger systems
recorded by vh c25-random and validated the same way; plus (thorough) the oracle self-check.
"""
import json
import os
import vlib

LEVEL = "model_checking"


def sig(c):
    if c["kind"] == "alg":
        return "alg:a=%s%s,b=%s%s" % ("~" if c["a"]["inv"] else "", c["a"]["set"], "~" if c["b"]["inv"] else "", c["b"]["set"])
    return "closure:" + ";".join("%s%s%s" % (n["op"], n["base"] if n["op"] == "u" else "", n["edges"]) for n in c["nodes"])


def validate(ctx, recfile, label):
    cases = vlib.read_ndjson(recfile)
    ctx.cov["evaluations"] += len(cases)
    ctx.cov["traces_validated_against_impl"] += len(cases)
    for c in cases:
        if c["kind"] == "alg" and c["a"]["inv"] != c["b"]["inv"] and c["a"]["set"] and c["b"]["set"]:
            ctx.nontrivial(sig(c))
        elif c["kind"] == "closure":
            ops = {n["op"] for n in c["nodes"]}
            if len(ops) >= 2 and any(n["edges"] for n in c["nodes"]):
                ctx.nontrivial(sig(c))
    for c in (cases[len(cases) // 3], cases[(2 * len(cases)) // 3])[: 1 if len(ctx.cov["samples"]) else 2]:
        ctx.sample({k: c[k] for k in c if k not in ("id",)})
    r = ctx.tlc("C25Trace", "C25Trace.cfg", env={"VERIF_CASES": recfile}, timeout=1500, name=label)
    for nv, v in enumerate(r.violations):
        if nv >= 40:
            break       # a badly broken tree violates thousands of cases: forty replays are enough
        ci = r.var(v, "ci")
        if ci is None or ci < 1:
            raise vlib.Infra("cannot locate failing case in TLC output (%s)" % r.logfile)
        c = cases[ci - 1]
        rec = c
        if nv < 5:
            # reproduce: re-run this single case through the real code and TLC
            one = ctx.path("one-%s-%d.ndjson" % (label, ci))
            vlib.write_ndjson(one + ".in", [{k: c[k] for k in ("kind", "a", "b", "nodes") if k in c}])
            ctx.vhrun(["c25-run", one + ".in", one])
            r2 = ctx.tlc("C25Trace", "C25Trace.cfg", env={"VERIF_CASES": one}, timeout=300, workers=1, name="repro")
            if not r2.violations:
                raise vlib.Infra("violation of case %d did not reproduce" % ci)
            rec = vlib.read_ndjson(one)[0]
        ctx.fail(sig(c), case={k: c[k] for k in ("kind", "a", "b", "nodes") if k in c},
                 observed={k: rec.get(k) for k in ("merge", "inter", "compl", "err", "errNodes", "vals", "inputsIntact")},
                 detail="TLC invariant %s violated (spec C25Trace; oracle SetClosure.LeastSolution / IntSets.Sem)" % v["name"])
    return r


def run(ctx):
    thorough = ctx.tier == "thorough"
    if ctx.replay:
        one = ctx.path("replay.in")
        vlib.write_ndjson(one, [ctx.replay["case"]])
        ctx.vhrun(["c25-run", one, one + ".rec"])
        validate(ctx, one + ".rec", "replay")
        return
    # 1. exhaustive algebra universe
    alg = ctx.path("alg.ndjson")
    ctx.tlc("C25Gen", "Gen.cfg", env={"VERIF_OUT": alg, "VERIF_C25_KIND": "alg", "VERIF_C25_NODES": 1, "VERIF_C25_CLMAX": 1},
            workers=1, timeout=600, name="gen-alg")
    ctx.vhrun(["c25-run", alg, alg + ".rec"])
    validate(ctx, alg + ".rec", "alg")
    # 2. exhaustive closure universes (API-constructible systems)
    universes = [(2, 1), (3, 1)] if not thorough else [(2, 2), (3, 1), (3, 2)]
    for nn, mx in universes:
        f = ctx.path("cl-%d-%d.ndjson" % (nn, mx))
        ctx.tlc("C25Gen", "Gen.cfg", env={"VERIF_OUT": f, "VERIF_C25_KIND": "closure", "VERIF_C25_NODES": nn, "VERIF_C25_CLMAX": mx},
                workers=1, timeout=1500, name="gen-cl")
        ctx.vhrun(["c25-run", f, f + ".rec"])
        validate(ctx, f + ".rec", "cl-%d-%d" % (nn, mx))
    # 3. regression corpus + seeded random larger systems (4-7 nodes)
    corpus = os.path.join(vlib.VERIF, "corpus", "C25", "cases.ndjson")
    if os.path.exists(corpus):
        ctx.vhrun(["c25-run", corpus, ctx.path("corpus.rec")])
        validate(ctx, ctx.path("corpus.rec"), "corpus")
    rnd = ctx.path("rnd.ndjson")
    ctx.vhrun(["c25-random", "60000" if thorough else "6000", rnd])
    validate(ctx, rnd, "random")
    if thorough:
        r = ctx.tlc("C25Design", "C25Design.cfg", timeout=1500, name="design")
        for v in r.violations:
            raise vlib.Infra("oracle self-check failed (spec defect, not a verdict): %s" % v["name"])
    # 4. the mutable bit set under the LALR and lexer constructions (BitSet.tla): seeded operation sequences with arguments around the word
    # boundaries replayed on the real container.BitSet, state and result compared after every operation; the design model in the thorough tier
    if thorough:
        r = ctx.tlc("BitSet", "BitSetDesign.cfg", timeout=1500, continue_=False, name="bitset-design")
        for v in r.violations:
            raise vlib.Infra("design model BitSet.tla violated (%s): a spec defect, not a verdict" % v["name"])
    bs = ctx.path("bitset.ndjson")
    ctx.vhrun(["bitset-run", "10000" if thorough else "1500", bs])
    bsig = lambda c: "bitset:%d:%s" % (c["size"], " ".join("%s(%s)" % (o["op"], o["a"] if o["op"] != "or" else o["other"]) for o in c["ops"]))
    vlib.validate_cases(ctx, "BitSetTrace", "BitSetTrace.cfg", bs, label="bitset", timeout=3000, sig=bsig, sigv=lambda c, rec, v: v + ":" + bsig(c), rerun=None,
                        input_keys=["size", "ops"], observed_keys=["obs", "crash"], nontrivial=lambda c: any(o["cap"] > 32 and len(o["bits"]) > 2 for o in c["obs"]))
    # 5. interning of integer sequences and sparse sets (Containers.tla): every insertion sequence of <= 4 keys over a universe of keys that
    # collide under the implementation's hash; sparse.Union (twice on one reuse buffer) and sparse.Builder on seeded inputs
    r = ctx.tlc("Containers", "ContainersDesign.cfg", timeout=600, continue_=False, name="containers-design")
    for v in r.violations:
        raise vlib.Infra("design model Containers.tla violated (%s): a spec defect, not a verdict" % v["name"])
    cc = ctx.path("containers.ndjson")
    ctx.tlc("ContainersGen", "ContainersGen.cfg", workers=1, timeout=900, name="containersgen", env={"VERIF_OUT": cc})
    co = ctx.path("containers.rec.ndjson")
    ctx.vhrun(["containers-run", cc, "20000" if thorough else "3000", co])
    csig = lambda c: "containers:%s:%s" % (c["k"], c["keys"] if c["k"] == "intern" else (c["sets1"], c["sets2"]) if c["k"] == "union" else c["rounds"])
    vlib.validate_cases(ctx, "ContainersTrace", "ContainersTrace.cfg", co, label="containers", timeout=3000, sig=csig, sigv=lambda c, rec, v: v + ":" + csig(c), rerun=None,
                        input_keys=["k", "keys", "sets1", "sets2", "rounds"], observed_keys=["crash", "rets", "mrets", "lens", "first", "second", "firstAfter", "auxClean", "inputsIntact", "built"],
                        nontrivial=lambda c: len(set(c["rets"])) >= 3 or len(c["first"]) >= 3 or any(len(b) >= 2 for b in c["built"]))
    ctx.cov["exhaustive"] = True
    ctx.cov["rule"] = ("TLC enumerates all 1024 pairs of finite/co-finite sets over 0..3 and all API-constructible closure systems "
                       "with %s (nodes, max base element); vh records the real results; TLC validates each against Sem / least solution. "
                       "Random: seeded 4-7 node systems. Non-trivial: algebra pairs mixing a finite and a co-finite non-empty set; "
                       "closure systems with >=2 distinct node kinds and at least one edge (distinct by full system text). container.BitSet: seeded sequences of 12 operations "
                       "(set/clear/get/setAll/clearAll/complement/or/grow/nextZero/cardinality) around the 32-bit word boundaries against BitSet.tla (sampled, not exhaustive). "
                       "IntSliceSet/IntSliceMap: all 4680 insertion sequences of <= 4 keys over 8 hash-colliding keys; sparse.Union / Builder: seeded inputs (Containers.tla)." % universes)
    ctx.assumptions += ["TLC and the Json/IOUtils community modules", "harness builds systems through the public Closure API only (intersection/complement nodes refer to earlier nodes)",
                        "sets are interpreted over a probe universe with one element beyond those mentioned"]
