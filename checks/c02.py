"""C02 Parser listener events reproduce the unique derivation.

Run-time layer with events: every rule of a conflict-free grammar carries a '-> R<rule>' arrow; the generated event-based parser is run
on every token string <= L; for each sentence of an eoi input TLC compares the recorded listener calls (type, offset, endoffset) with
the post-order event list of Grammar!Den - the denotation computed on the source grammar with the documented range rule.
Nested arrows inside optional parts / choices / lists are covered through the extended-notation layer (C13 universe) when built.
"""
import vlib
import lalrcommon as lc
import rtcommon as rt
import c01

LEVEL = "model_checking"


def run(ctx):
    thorough = ctx.tier == "thorough"
    kw = dict(sig=c01.sig, sigv=c01.sigv, rerun=rt.rt_rerun_factory(ctx), input_keys=rt.RT_KEYS, observed_keys=["genErr", "bad", "runs", "ev", "tmtext"],
              nontrivial=lambda c: c.get("ran") and any(len(e) >= 9 for ent in c.get("ev", []) for e in ent))
    if ctx.replay:
        out = rt.rtgen(ctx, [ctx.replay["case"]], "replay")
        vlib.validate_cases(ctx, "ParseTrace", "ParseTrace.cfg", out, label="replay", **kw)
        return
    grammars = []
    c = lc.corpus("C02")
    if c:
        grammars += vlib.read_ndjson(c)
    if thorough:
        grammars += rt.conflict_free(ctx, lc.universe(ctx, "ug", 3, 2, 16), "ug", need=200)
        grammars += rt.conflict_free(ctx, lc.random_grammars(ctx, 3000), "rnd", need=250)
        nconf, L = 2, 6
    else:
        grammars += rt.conflict_free(ctx, lc.universe(ctx, "ug", 3, 2, 96), "ug", need=16)
        grammars += rt.conflict_free(ctx, lc.random_grammars(ctx, 500), "rnd", need=24)
        nconf, L = 1, 5
    specs = rt.add_arrows(ctx, rt.make_specs(ctx, grammars, nconf, L, events=True))
    import os
    cs = os.path.join(vlib.VERIF, "corpus", "C02", "specs.ndjson")
    if os.path.exists(cs):
        specs = vlib.read_ndjson(cs) + specs     # hand-written shapes: adjacent annotated parts, the second one nullable; nested parts
    B = 120
    for b in range(0, len(specs), B):
        out = rt.rtgen(ctx, specs[b:b + B], "b%d" % (b // B))
        vlib.validate_cases(ctx, "ParseTrace", "ParseTrace.cfg", out, label="batch%d" % (b // B), timeout=3300, **kw)
    # extended notation with inline arrows at any depth (optionals, nested choices, lists with annotated elements)
    def sigs(c):
        t = c.get("tmtext", "")
        return "sugar-events:" + " ".join(t[t.find("N0 ->"):t.find("%%")].split())[:240]
    kws = dict(sig=sigs, sigv=lambda c, rec, v: v + ":" + sigs(c), rerun=None, input_keys=["tmtext", "rules"], observed_keys=["genErr", "runs"],
               nontrivial=lambda c: c["genErr"] == "" and sum(len(r["events"]) for r in c["runs"]) >= 60)
    ns = 600 if thorough else 150
    for b in range(0, ns, 150):
        outs = ctx.path("sugar%d.ndjson" % b)
        ctx.vhrun(["c02s-gen", "150", ctx.path("smod%d" % b), outs], env_extra={"VERIF_SEED": str(ctx.seed * 100 + b // 150)}, timeout=3000)
        vlib.run(["rm", "-rf", ctx.path("smod%d" % b)], check=False)
        vlib.validate_cases(ctx, "C02sTrace", "C02sTrace.cfg", outs, label="sugar%d" % (b // 150), timeout=3300, **kws)
    ctx.cov["programs"] = len(specs) + ns
    ctx.cov["rule"] = ("%d conflict-free grammars with a node arrow on every rule, generated event-based, run on all token strings <= %d; for every sentence of an eoi input "
                       "TLC compares the listener calls with the post-order events of the spec's denotation (ranges: first to last element, empty parts at the following token). "
                       "Non-trivial: parsers that reported at least 3 nodes for some input. "
                       "Plus %d random grammars in extended notation with inline '-> Node' clauses at any depth (optional parts, nested choices, lists with annotated "
                       "elements, nullable annotated parts), 25 sentences each, listener calls compared with EventProv!Events (token provenance)." % (len(grammars), L, ns))
    ctx.assumptions += ["words with two different event lists in the denotation (ambiguous) are skipped", "rule-level arrows on plain rules here; nested arrows are exercised by the extended-notation checks"]
