"""C12 Tokenization always progresses, tiles the input and tracks lines.

The five shipped lexers (js, tm, json, test, simple) run on: every string up to length 2 (and a sample of length 3) over a 14-symbol nasty
alphabet (quotes, comment openers, braces, invalid UTF-8, BOM, CR/LF), and a corpus taken from the repository working tree (.tm, test
data, test sources) under truncation, injection of nasty fragments, cuts and BOM prefixes. Each run is recorded token by token
(plus two calls after end-of-input); TLC TokenTiling: finite and ending in EOI (a hang or panic has no transition), EOI at the end and
repeating, other tokens non-empty, ordered without overlap, gaps are pure space, line and column equal the position of the first byte.
"""
import vlib

LEVEL = "exploration"


def sig(c):
    return "%s:%s" % (c["lexer"], c["origin"])


def sigv(c, rec, vname):
    if vname == "ColumnsTrack" and c["lexer"] == "tm":
        return "tm-lexer-column-after-first-line"
    return vname + ":" + sig(c) + ":" + (c.get("text") or "")[:40]


def run(ctx):
    thorough = ctx.tier == "thorough"
    out = ctx.path("runs.ndjson")
    ctx.vhrun(["c12-run", str(60000 if thorough else 6000), out], timeout=3000)
    kw = dict(sig=sig, sigv=sigv, rerun=None, input_keys=["lexer", "origin", "text", "len"], observed_keys=["toks", "extra", "hang", "crash", "gapClean", "nlBefore"],
              nontrivial=lambda c: len(c["toks"]) >= 4 and any(not g for g in [False]) or len(c["toks"]) >= 4)
    rows = vlib.read_ndjson(out)
    B = 6000
    for b in range(0, len(rows), B):
        part = ctx.path("part%d.ndjson" % (b // B))
        vlib.write_ndjson(part, rows[b:b + B])
        vlib.validate_cases(ctx, "TokenTiling", "TokenTiling.cfg", part, label="part%d" % (b // B), timeout=3300, **kw)
    ctx.cov["rule"] = ("%d runs of the shipped js/tm/json/test/simple lexers: all strings <= 2 (sampled 3) over a 14-symbol nasty alphabet per lexer, plus repository texts under "
                       "truncate / inject / cut / BOM mutations; every token of every run is checked by TLC. Non-trivial: runs with at least 4 tokens; distinct by lexer and origin."
                       % len(rows))
    ctx.assumptions += ["'text between tokens is space' is checked by lexing the skipped text on its own with the same lexer (it must yield end-of-input only)",
                        "generated lexers of random grammars are covered by C11 when built; here the shipped lexers"]
