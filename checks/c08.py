"""C08 Runtime lookahead decisions pick the alternative whose predicates hold.

gen (TLC C08Gen: every set of 2 / 3 alternatives over 3 inputs; 4 sampled) -> run (vh c08-run: a grammar whose lookahead
nonterminals all reduce in one state, real lalr.Compile, Tables.Lookaheads[0] or the error) -> validate (TLC C08Trace with
Lookaheads.tla: exclusivity, order consistency, Decide over all 8 truth assignments).
"""
import vlib

LEVEL = "model_checking"


def sig(c):
    return "alts:" + " | ".join("&".join(("!" if l["neg"] else "") + str(l["input"]) for l in a) for a in c["alts"])


def run(ctx):
    thorough = ctx.tier == "thorough"

    def rerun(inp, out):
        vlib.write_ndjson(out + ".in", [inp])
        ctx.vhrun(["c08-run", out + ".in", out])
        return vlib.read_ndjson(out)[0]

    kw = dict(sig=sig, rerun=rerun, input_keys=["alts"], observed_keys=["accepted", "cases", "default", "msgs", "ok", "note"],
              nontrivial=lambda c: c["accepted"] and len(c["cases"]) >= 1)
    if ctx.replay:
        f = ctx.path("replay.in")
        vlib.write_ndjson(f, [ctx.replay["case"]])
        ctx.vhrun(["c08-run", f, f + ".rec"])
        vlib.validate_cases(ctx, "C08Trace", "C08Trace.cfg", f + ".rec", label="replay", **kw)
        return
    plan = [(2, 1), (3, 1 if thorough else 6)]   # sets of 4-5 alternatives: seeded random below (1.4M 4-sets are beyond TLC enumeration)
    for n, stride in plan:
        f = ctx.path("alts%d.ndjson" % n)
        ctx.tlc("C08Gen", "Gen.cfg", workers=1, timeout=3000, name="gen%d" % n,
                env={"VERIF_OUT": f, "VERIF_C08_N": n, "VERIF_C08_STRIDE": stride, "VERIF_C08_OFFSET": ctx.seed % stride})
        ctx.vhrun(["c08-run", f, f + ".rec"])
        vlib.validate_cases(ctx, "C08Trace", "C08Trace.cfg", f + ".rec", label="n%d" % n, timeout=3000, **kw)
    rnd = ctx.path("rnd.ndjson")
    ctx.vhrun(["c08-random", "20000" if thorough else "2000", rnd])
    vlib.validate_cases(ctx, "C08Trace", "C08Trace.cfg", rnd, label="random", timeout=3000, **kw)
    # run-time layer: the generated code that executes the decision list (cancellable and plain parsers), all 8 predicate outcomes
    rtout = ctx.path("rt.ndjson")
    ctx.vhrun(["c08-rt", rnd, ctx.path("rtmod"), rtout, "160" if thorough else "40"], timeout=3000)
    vlib.run(["rm", "-rf", ctx.path("rtmod")], check=False)
    sigrt = lambda c: "rt:%s:%s%s" % ("cancellable" if c.get("cancellable") else "plain", "many=%d" % c["many"] if c.get("many") else sig(c),
                                      " leads " + ",".join("".join(map(str, l)) for l in c["leads"]) if c.get("nlead", 1) > 1 else "")
    vlib.validate_cases(ctx, "C08RtTrace", "C08RtTrace.cfg", rtout, label="runtime", sig=sigrt, rerun=None, input_keys=["alts", "leads", "nlead", "many", "cancellable", "tmtext"],
                        observed_keys=["genErr", "chosen", "errs"], nontrivial=lambda c: c["genErr"] == "" and len(set(c["chosen"])) >= 2, timeout=3000)
    ctx.cov["exhaustive"] = True
    ctx.cov["rule"] = ("TLC enumerates every set of 2 alternatives (3003) and every%s set of 3 (76076) over 3 predicate inputs, each alternative a written sequence of 1-3 signed "
                       "predicates, plus seeded random sets of 2-5 in random order; each is compiled by the real lalr.Compile in a grammar where all "
                       "alternatives reduce in one state; TLC checks the recorded decision list against all 8 truth assignments and the rejection of non-exclusive / "
                       "inconsistently ordered sets. Non-trivial: accepted sets with at least one decision case." % ("" if thorough else " 6th"))
    ctx.assumptions += ["exclusive, ordered sets the compiler nevertheless rejects are allowed by the statement", "run-time layer: a sample of accepted sets is generated as plain and cancellable parsers and run on all 8 predicate outcomes; random sets whose alternatives start with "
                        "different terminals (in conflict per terminal only) on 16 texts; grammars with 20, 33 and 40 predicate pairs (up to 80 lookahead nonterminals)"]
