"""C24 Shift-DFA scanners agree with the lexer tables they pack.

Byte-mode rule sets (incl. classes and literals >= 0x80) -> shiftdfa.Compile; when accepted, Scanner.Scan on every byte string up to
length 3 over {a, b, 0x7f, 0x80, 0x85, 0xc3, 0xff} -> TLC LexTrace: the same derivative oracle that validates lex.Tables.Scan (C09)
must give the scanner's (size, token) - so the scanner and the tables agree wherever both are right, and any disagreement is located.
"""
import c09

LEVEL = "model_checking"


def run(ctx):
    c09.run(ctx, pid="C24")
