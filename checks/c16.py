"""C16 Semantic action references bind to the right symbols.

Seeded random grammars with Go semantic actions (1-3 rules, each starting with its own marker terminal; elements: symbols, helper
nonterminals, optional parts, nested choices, sequences, lists with separators; aliases on symbols, groups, choices and lists; a
mid-rule action and a final action per rule; every terminal used in one place only) are generated with the real templates, built and
run on 25 random sentences each. Every action records the values of its references ($alias, $symbol, $N, ${x.offset}, ${x.endoffset},
${first().offset}, ${last().endoffset}, ${left()...}) together with the parser stack. TLC C16Trace: each recorded value equals what
ActionRefs.tla derives from the token stream by provenance (the tokens of the rule instance that can only come from the referenced
element), nil/-1 when the element is absent from the expansion; every sentence parses and every final action runs once per instance.
"""
import vlib

LEVEL = "exploration"


def sig(c):
    t = c.get("tmtext", "")
    return "actions:" + " ".join(t[t.find("N0 {int}"):t.find("%%")].split())[:260]


def sigv(c, rec, vname):
    return vname + ":" + sig(c)


def run(ctx):
    thorough = ctx.tier == "thorough"
    kw = dict(sig=sig, sigv=sigv, rerun=None, input_keys=["tmtext", "rules"], observed_keys=["genErr", "runs"],
              nontrivial=lambda c: c["genErr"] == "" and sum(len(r["execs"]) for r in c["runs"]) >= 40)
    n = 1200 if thorough else 200
    B = 200
    for b in range(0, n, B):
        out = ctx.path("act%d.ndjson" % b)
        ctx.vhrun(["c16-gen", str(B), ctx.path("mod%d" % b), out], env_extra={"VERIF_SEED": str(ctx.seed * 100 + b // B)}, timeout=3000)
        vlib.run(["rm", "-rf", ctx.path("mod%d" % b)], check=False)
        vlib.validate_cases(ctx, "C16Trace", "C16Trace.cfg", out, label="batch%d" % (b // B), timeout=3300, **kw)
    ctx.cov["rule"] = ("%d random grammars with semantic actions generated with the real templates, built and run on 25 sentences each; TLC checks every "
                       "reference value of every action execution against the token-provenance definition. Non-trivial: grammars that build and run at "
                       "least 40 action executions." % n)
    ctx.assumptions += ["every terminal occurs in one place of the grammar and rules start with a marker terminal, so that the oracle is independent of the expansion",
                        "the adapter (verifRec in the %% section) is trusted; values are ints (token offsets)"]
