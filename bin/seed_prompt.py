#!/usr/bin/env python3
"""Print the prompt given to an independent seeding sub-agent for one property (only the
property text and its scratch worktree; nothing from /verif)."""
import json, sys
pid = sys.argv[1]
wt = sys.argv[2] if len(sys.argv) > 2 else f"/tmp/wt/{pid}"
k1, k2 = (sys.argv[3], sys.argv[4]) if len(sys.argv) > 4 else ("1", "2")
for l in open('/verif/properties.jsonl'):
    p = json.loads(l)
    if p['id'] == pid:
        break
else:
    sys.exit("no such property")
print(f"""You are helping to evaluate a verification effort by seeding realistic defects into an open-source Go project.
Work ONLY inside the git worktree at {wt} (a checkout of github.com/inspirer/textmapper: a Go LALR(1) parser and lexer generator). Do NOT read, list or touch /verif, and do not touch /repo (the worktree's parent); everything you need is in {wt}.

The property under study (it should hold on the unmodified code):

TITLE: {p['title']}
STATEMENT: {p['statement']}
QUANTIFIED OVER: {p['quantifier']['text']}
WHY THE EXISTING TESTS CANNOT SETTLE IT: {p['why_tests_cant']}
RELEVANT FILES: {', '.join(p['anchors']['files'])}

TASK. Produce TWO different, independent changes to the project's non-test source code, each of which
 (a) breaks the property above,
 (b) still compiles (`go1.26 build ./...`),
 (c) leaves the project's existing test suite passing, unedited (`go1.26 test -vet=off -count=1 ./...` from {wt}; all packages must say ok), and
 (d) needs something specific to manifest - an unusual input, a size threshold, a particular multi-step sequence or interleaving, or two cooperating sites that each look fine alone - rather than something ordinary use would expose at once.
Make them realistic: the kind of thing a maintainer could plausibly commit (an off-by-one, the wrong side of a tie, a dropped condition, a 'harmless' optimisation or refactoring), not sabotage, and small (a few lines). The two changes should be in different functions / mechanisms.

For each change k in {k1},{k2} create {wt}/SEED/k/ containing:
  - patch.diff : `git diff` against HEAD for the source change only (must apply with `git apply` on a clean checkout);
  - a demonstration: a Go test file (say where to copy it) or a small Go program, plus run.sh, which FAILS (non-zero exit) with the patch applied and PASSES without it;
  - notes.md : which part of the property it breaks, what it needs in order to manifest, and the exact commands you ran with their outcomes (build, full test suite with the patch, demo with and without).

Environment: no network. In every shell call first run: export GOFLAGS=-mod=mod GOPROXY=off GOSUMDB=off GOTOOLCHAIN=local ; and use the `go1.26` binary, not `go`. If a demo needs generated parser code, the generator binary is `go1.26 run ./cmd/textmapper generate` (see README / regen.sh); keep any scratch module inside {wt}/SEED/. Do NOT use `git stash` (the stash is shared between worktrees and other people work in sibling worktrees); to compare with and without your change use `git diff > file`, `git apply -R file`, `git apply file`.
Verify (b), (c) and the demo yourself before finishing. At the end restore the worktree's tracked files (git -C {wt} checkout -- .) and remove untracked files other than SEED/. If you cannot find a second change meeting all of (a)-(d), deliver one and say so.
Your final message: a short summary per change (files touched, what manifests it).""")
