"""Shared plumbing for /verif checks: scratch dirs, harness build, TLC runs, verdicts, evidence.

Verdict policy (DESIGN.md 2.4):
  exit 0  property held on everything explored (KNOWN-FINDING lines allowed)
  exit 1  + "VIOLATION property=<id> replay=<path>" for a reproduced violation not listed in known_findings.json
  exit 2  infrastructure trouble (TLC error, timeout, build failure, dead driver): never a violation
"""
import hashlib
import json
import os
import re
import shutil
import subprocess
import sys
import tempfile
import time

VERIF = os.path.dirname(os.path.dirname(os.path.abspath(__file__)))
REPO = os.environ.get("VERIF_REPO", "/repo")
SPEC = os.path.join(VERIF, "spec")
HARNESS = os.path.join(VERIF, "harness")
GO = os.environ.get("VERIF_GO", "go1.26")
NCPU = os.cpu_count() or 4


class Infra(Exception):
    """Infrastructure failure: exit 2, never a violation."""


def goenv():
    e = dict(os.environ)
    e.update(GOFLAGS="-mod=mod", GOPROXY="off", GOSUMDB="off", GOTOOLCHAIN="local", CGO_ENABLED="0")
    return e


def log(*a):
    print(*a, file=sys.stderr, flush=True)


def run(cmd, cwd=None, env=None, timeout=None, check=True, stdin=None, capture=True):
    t0 = time.time()
    try:
        p = subprocess.run(cmd, cwd=cwd, env=env, timeout=timeout, input=stdin,
                           stdout=subprocess.PIPE if capture else None,
                           stderr=subprocess.PIPE if capture else None, text=True, errors="replace")
    except subprocess.TimeoutExpired:
        raise Infra("timeout after %ss: %s" % (timeout, " ".join(map(str, cmd))[:300]))
    if check and p.returncode != 0:
        raise Infra("command failed (%d): %s\n%s\n%s" % (p.returncode, " ".join(map(str, cmd))[:300],
                                                          (p.stdout or "")[-3000:], (p.stderr or "")[-3000:]))
    p.wall = time.time() - t0
    return p


class Ctx:
    def __init__(self, pid, tier, seed, level):
        self.pid, self.tier, self.seed, self.level = pid, tier, seed, level
        self.t0 = time.time()
        base = os.environ.get("VERIF_SCRATCH_BASE") or tempfile.gettempdir()
        self.scratch = tempfile.mkdtemp(prefix="verif-%s-" % pid, dir=base)
        self.failures = []      # dicts: signature, case, observed, expected, detail
        self.cov = {"evaluations": 0, "distinct_nontrivial": 0, "rule": "", "samples": [],
                    "states": 0, "transitions": 0, "traces_validated_against_impl": 0}
        self.assumptions = []
        self.tlc_runs = []
        self._vh = None
        self._nt = set()

    # ---------- scratch
    def path(self, *p):
        q = os.path.join(self.scratch, *p)
        os.makedirs(os.path.dirname(q), exist_ok=True)
        return q

    def cleanup(self):
        if os.environ.get("VERIF_KEEP"):
            log("scratch kept:", self.scratch)
            return
        shutil.rmtree(self.scratch, ignore_errors=True)

    # ---------- harness
    def vh(self):
        """Build the Go harness against /repo's current working tree (tag verif)."""
        if self._vh:
            return self._vh
        src = os.path.join(REPO, "go.sum")
        dst = os.path.join(HARNESS, "go.sum")
        try:
            if not os.path.exists(dst) or open(src).read() != open(dst).read():
                shutil.copy(src, dst)
        except OSError as e:
            raise Infra("go.sum copy: %s" % e)
        out = self.path("bin", "vh")
        env = goenv()
        env["VERIF_REPO"] = REPO
        modfile = None
        if REPO != "/repo":
            # alternative repo location (used when trying seeded changes in a scratch worktree)
            txt = open(os.path.join(HARNESS, "go.mod")).read().replace("=> /repo", "=> " + REPO)
            modfile = self.path("alt.mod")
            open(modfile, "w").write(txt)
            shutil.copy(dst, self.path("alt.sum"))
        cmd = [GO, "build", "-tags", "verif", "-o", out]
        if modfile:
            cmd += ["-modfile", modfile]
        cmd += ["./cmd/vh"]
        p = run(cmd, cwd=HARNESS, env=env, timeout=900, check=False)
        if p.returncode != 0:
            raise Infra("harness build failed against %s:\n%s" % (REPO, p.stderr[-4000:]))
        self._vh = out
        return out

    def vhrun(self, args, timeout=1800, stdin=None, env_extra=None, check=True):
        env = goenv()
        env["VERIF_SEED"] = str(self.seed)
        env["VERIF_TIER"] = self.tier
        env["VERIF_REPO"] = REPO
        env["VERIF_DIR"] = VERIF
        if env_extra:
            env.update(env_extra)
        return run([self.vh()] + list(args), cwd=self.scratch, env=env, timeout=timeout, stdin=stdin, check=check)

    # ---------- TLC
    def tlc(self, module, cfg=None, env=None, workers=None, timeout=900, extra=(), simulate=None,
            deadlock_is_reject=True, continue_=True, name=None):
        """Run TLC on spec/<module>.tla in a scratch copy of spec/. Returns a TlcResult."""
        sdir = self.path("spec")
        if not os.path.exists(os.path.join(sdir, module + ".tla")):
            shutil.copytree(SPEC, sdir, dirs_exist_ok=True)
        n = len(self.tlc_runs)
        meta = self.path("meta%d" % n, "x")
        cfgpath = os.path.join(sdir, "cfg", cfg) if cfg else None
        cmd = ["tlc", "-workers", str(workers or min(NCPU, 16)), "-metadir", os.path.dirname(meta), "-noGenerateSpecTE"]
        if continue_ and not simulate:
            cmd.append("-continue")
        if simulate:
            cmd += ["-simulate", simulate]
        if cfgpath:
            cmd += ["-config", cfgpath]
        cmd += list(extra) + [module + ".tla"]
        e = dict(os.environ)
        jo = e.get("JAVA_TOOL_OPTIONS", "")
        e["JAVA_TOOL_OPTIONS"] = (jo + " -Xss512m").strip()
        e["VERIF_SEED"] = str(self.seed)
        if env:
            e.update({k: str(v) for k, v in env.items()})
        t0 = time.time()
        try:
            p = subprocess.run(["timeout", "-k", "10", str(timeout)] + cmd, cwd=sdir, env=e,
                               stdout=subprocess.PIPE, stderr=subprocess.STDOUT, text=True, errors="replace")
        except Exception as ex:  # pragma: no cover
            raise Infra("tlc: %s" % ex)
        r = TlcResult(module, cfg, p.returncode, p.stdout, time.time() - t0)
        logf = self.path("tlc%d-%s.log" % (n, name or module))
        open(logf, "w").write(p.stdout)
        r.logfile = logf
        self.tlc_runs.append(r)
        if p.returncode == 124 or p.returncode == 137:
            raise Infra("TLC timeout (%ss) on %s %s" % (timeout, module, cfg))
        if r.fatal:
            raise Infra("TLC error on %s %s:\n%s" % (module, cfg, r.fatal[-3000:]))
        self.cov["states"] += r.distinct
        self.cov["transitions"] += r.generated
        return r

    # ---------- verdict helpers
    def fail(self, signature, case, observed=None, expected=None, detail=None):
        self.failures.append(dict(signature=signature, case=case, observed=observed, expected=expected, detail=detail))

    def sample(self, s, limit=4):
        if len(self.cov["samples"]) < limit:
            self.cov["samples"].append(s)

    def nontrivial(self, key):
        """Count a distinct non-trivial case (key must identify the case)."""
        self._nt.add(key if isinstance(key, str) else json.dumps(key, sort_keys=True))


_STATE_RE = re.compile(r"^State (\d+):")


class TlcResult:
    def __init__(self, module, cfg, rc, out, wall):
        self.module, self.cfg, self.rc, self.out, self.wall = module, cfg, rc, out, wall
        m = re.findall(r"(\d+) states generated, (\d+) distinct states found", out)
        self.generated = int(m[-1][0]) if m else 0
        self.distinct = int(m[-1][1]) if m else 0
        self.ok = "Model checking completed. No error has been found." in out or \
                  ("Progress:" not in out and rc == 0)
        self.violations = self._parse_violations(out)
        self.fatal = None
        if not self.violations and not self.ok:
            # any Error: that is not an invariant/deadlock/property violation is infrastructure
            errs = [l for l in out.splitlines() if l.startswith("Error:") or "Exception" in l or "StackOverflow" in l]
            if errs or rc not in (0,):
                self.fatal = "\n".join(errs) + "\n" + out[-2500:]
        else:
            # parse errors, evaluation errors, assumption failures reported alongside
            for l in out.splitlines():
                if l.startswith("Error:") and not re.search(
                        r"Invariant .* is violated|Deadlock reached|Action property .* is violated|"
                        r"Temporal properties were violated|The behavior up to this point|"
                        r"The following behavior constitutes", l):
                    self.fatal = l + "\n" + out[-2500:]
                    break

    @staticmethod
    def _parse_violations(out):
        """Split output into violation blocks: kind, name, final-state text (var -> text)."""
        res = []
        lines = out.splitlines()
        i = 0
        cur = None
        while i < len(lines):
            l = lines[i]
            m = re.match(r"Error: Invariant (\S+) is violated", l)
            m2 = re.match(r"Error: Deadlock reached", l)
            m3 = re.match(r"Error: Action property (\S+) is violated", l)
            if m or m2 or m3:
                cur = dict(kind="invariant" if m else "deadlock" if m2 else "action",
                           name=(m or m3).group(1).rstrip(".") if (m or m3) else "Deadlock", states=[])
                res.append(cur)
                if "by the initial state" in l:
                    st = []
                    i += 1
                    while i < len(lines) and lines[i].strip() != "" and not lines[i].startswith("Error:"):
                        st.append(lines[i])
                        i += 1
                    cur["states"].append("\n".join(st))
                    continue
            elif cur is not None and _STATE_RE.match(l):
                st = []
                i += 1
                while i < len(lines) and lines[i].strip() != "" and not lines[i].startswith("Error:") \
                        and not _STATE_RE.match(lines[i]):
                    st.append(lines[i])
                    i += 1
                cur["states"].append("\n".join(st))
                continue
            i += 1
        return res

    def var(self, viol, name, which=-1):
        """Extract an integer/string/simple value of variable `name` from a state of a violation block."""
        if not viol["states"]:
            return None
        txt = viol["states"][which]
        m = re.search(r"(?:^|\n)(?:/\\ )?%s = (.*?)(?=\n/\\ |\Z)" % re.escape(name), txt, re.S)
        if not m:
            return None
        v = m.group(1).strip()
        if re.fullmatch(r"-?\d+", v):
            return int(v)
        if v.startswith('"') and v.endswith('"'):
            return v[1:-1]
        return v


# ---------------- known findings / evidence / main driver

def load_known():
    p = os.path.join(VERIF, "known_findings.json")
    if not os.path.exists(p):
        return {"findings": [], "fixed": []}
    return json.load(open(p))


def finish(ctx, exit_infra=None):
    """Write evidence, replay files; print verdict lines; return exit code."""
    known = [k for k in load_known().get("findings", []) if k.get("property") == ctx.pid or ctx.pid in k.get("properties", [])]
    viol, knownhits = [], {}
    for f in ctx.failures:
        hit = None
        for k in known:
            if k.get("signature") == f["signature"] or (k.get("signature_regex") and re.fullmatch(k["signature_regex"], f["signature"])):
                hit = k
                break
        if hit:
            knownhits.setdefault(hit["signature"] if "signature" in hit else hit["signature_regex"], (hit, []))[1].append(f)
        else:
            viol.append(f)
    os.makedirs(os.path.join(VERIF, "replays"), exist_ok=True)
    os.makedirs(os.path.join(VERIF, "evidence"), exist_ok=True)
    for key, (k, fs) in knownhits.items():
        print("KNOWN-FINDING: property=%s %s (%d case(s) this run; signature %s)" % (ctx.pid, k.get("what", ""), len(fs), key))
    seen = set()
    rc = 0
    for n, f in enumerate(viol):
        if f["signature"] in seen and n > 20:
            continue
        seen.add(f["signature"])
        h = hashlib.sha1(json.dumps(f, sort_keys=True, default=str).encode()).hexdigest()[:10]
        rp = os.path.join(VERIF, "replays", "%s-%s-%s.json" % (ctx.pid, ctx.seed, h))
        json.dump(dict(property=ctx.pid, tier=ctx.tier, seed=ctx.seed, **f), open(rp, "w"), indent=1, default=str)
        print("VIOLATION property=%s replay=%s" % (ctx.pid, rp))
        print("  signature: %s" % f["signature"])
        if f.get("detail"):
            print("  detail: %s" % str(f["detail"])[:600])
        rc = 1
        if n >= 40:
            print("  ... %d more violations not listed" % (len(viol) - n - 1))
            break
    cov = dict(ctx.cov)
    cov["distinct_nontrivial"] = max(cov.get("distinct_nontrivial", 0), len(ctx._nt))
    cov["tlc_runs"] = [dict(module=r.module, cfg=r.cfg, generated=r.generated, distinct=r.distinct,
                            wall_s=round(r.wall, 1), violations=len(r.violations)) for r in ctx.tlc_runs]
    cov["known_findings_hit"] = sorted(knownhits.keys())
    ev = dict(property_id=ctx.pid, tier=ctx.tier, seed=ctx.seed, level=ctx.level, coverage=cov,
              assumptions=ctx.assumptions, wall_s=round(time.time() - ctx.t0, 1), violations=len(viol))
    if exit_infra is None and not os.environ.get('VERIF_NO_EVIDENCE'):
        json.dump(ev, open(os.path.join(VERIF, "evidence", ctx.pid + ".json"), "w"), indent=1, default=str)
    return rc


def read_ndjson(path):
    out = []
    with open(path) as f:
        for l in f:
            l = l.strip()
            if l:
                out.append(json.loads(l))
    return out


def write_ndjson(path, rows):
    with open(path, "w") as f:
        for r in rows:
            f.write(json.dumps(r, separators=(",", ":")) + "\n")


# ---------------- generic "recorded cases -> TLC trace spec" validation

def validate_cases(ctx, module, cfg, recfile, sig, label, rerun=None, sigv=None, input_keys=None, observed_keys=None,
                   nontrivial=None, timeout=1500, env=None, count_traces=True, workers=None, skip_invariants=()):
    """Validate recorded cases (ndjson, one case per line) with a TLC trace spec whose states carry `ci`
    (1-based case index). Each violated case is re-run through the real code (rerun(case)->recorded case)
    and re-validated alone before it is reported (DESIGN 2.4c)."""
    cases = read_ndjson(recfile)
    if not cases:
        raise Infra("no cases recorded in %s" % recfile)
    ctx.cov["evaluations"] += len(cases)
    if count_traces:
        ctx.cov["traces_validated_against_impl"] += len(cases)
    if nontrivial:
        for c in cases:
            if nontrivial(c):
                ctx.nontrivial(sig(c))
    picks = [cases[len(cases) // 3], cases[(2 * len(cases)) // 3]]
    for c in picks[: 1 if ctx.cov["samples"] else 2]:
        ctx.sample(c)
    e = {"VERIF_CASES": recfile}
    if env:
        e.update(env)
    r = ctx.tlc(module, cfg, env=e, timeout=timeout, name=label, workers=workers)
    seen = set()
    for v in r.violations:
        ci = r.var(v, "ci")
        if ci is None or ci < 1:
            raise Infra("cannot locate failing case in TLC output (%s)" % r.logfile)
        if ci in seen:
            continue
        seen.add(ci)
        if v["name"] in skip_invariants:
            ctx.cov["skipped_out_of_scope"] = ctx.cov.get("skipped_out_of_scope", 0) + 1
            continue
        c = cases[ci - 1]
        inp = {k: c[k] for k in (input_keys or c.keys()) if k in c}
        rec = c
        if rerun and len(seen) <= 6:
            one = ctx.path("one-%s-%d.ndjson" % (label, ci))
            rec = rerun(inp, one)
            write_ndjson(one, [rec])
            e2 = dict(e)
            e2["VERIF_CASES"] = one
            e2["VERIF_CHUNK_STRIDE"] = 1
            r2 = ctx.tlc(module, cfg, env=e2, timeout=600, workers=1, name="repro")
            if not r2.violations:
                raise Infra("violation of case %d (%s) did not reproduce" % (ci, label))
        obs = {k: rec.get(k) for k in (observed_keys or [])} if observed_keys else None
        ctx.fail(sigv(c, rec, v["name"]) if sigv else sig(c), case=inp, observed=obs,
                 detail="TLC %s %s violated in %s (%s)" % (v["kind"], v["name"], module, label))
    return r, cases
