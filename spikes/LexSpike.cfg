SPECIFICATION Spec
INVARIANT Ok
CHECK_DEADLOCK FALSE
ALIAS Alias
