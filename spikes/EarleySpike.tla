---- MODULE EarleySpike ----
EXTENDS Integers, Sequences, FiniteSets, TLC

G == [nT |-> 8, nS |-> 12,
       rules |-> << [lhs |-> 8, rhs |-> <<1, 9, 2>>],
                    [lhs |-> 8, rhs |-> <<3, 11, 4>>],
                    [lhs |-> 8, rhs |-> <<5>>],
                    [lhs |-> 9, rhs |-> <<10>>],
                    [lhs |-> 9, rhs |-> <<9, 6, 10>>],
                    [lhs |-> 9, rhs |-> <<>>],
                    [lhs |-> 10, rhs |-> <<5, 7, 8>>],
                    [lhs |-> 11, rhs |-> <<8>>],
                    [lhs |-> 11, rhs |-> <<11, 6, 8>>],
                    [lhs |-> 11, rhs |-> <<>>] >>,
       input |-> 8]
L == 5
RuleIdx == 1..Len(G.rules)
Rhs(r) == IF r = 0 THEN <<G.input>> ELSE G.rules[r].rhs
Lhs(r) == IF r = 0 THEN -1 ELSE G.rules[r].lhs

RECURSIVE NullFix(_)
NullFix(N) ==
  LET N2 == N \cup { G.rules[r].lhs : r \in { r \in RuleIdx : \A i \in 1..Len(G.rules[r].rhs) : G.rules[r].rhs[i] \in N } }
  IN IF N2 = N THEN N ELSE NullFix(N2)
Nullable == NullFix({})

\* Earley item: <<r, d, o>>
NextSym(it) == IF it[2] < Len(Rhs(it[1])) THEN Rhs(it[1])[it[2]+1] ELSE -2

RECURSIVE Close(_, _, _)
Close(chart, k, S) ==
  LET pred == UNION { LET B == NextSym(it) IN
                       IF B >= G.nT THEN { <<r2, 0, k>> : r2 \in { r2 \in RuleIdx : G.rules[r2].lhs = B } }
                                          \cup (IF B \in Nullable THEN { <<it[1], it[2]+1, it[3]>> } ELSE {})
                       ELSE {} : it \in S }
      comp == UNION { IF NextSym(it) = -2
                       THEN LET src == IF it[3] = k THEN S ELSE chart[it[3]+1]
                            IN { <<p[1], p[2]+1, p[3]>> : p \in { p \in src : NextSym(p) = Lhs(it[1]) } }
                       ELSE {} : it \in S }
      S2 == S \cup pred \cup comp
  IN IF S2 = S THEN S ELSE Close(chart, k, S2)

Scan(chart, tok) ==
  LET k == Len(chart)
      sc == { <<it[1], it[2]+1, it[3]>> : it \in { it \in chart[k] : NextSym(it) = tok } }
  IN Append(chart, Close(chart, k, sc))

Chart0 == << Close(<<>>, 0, { <<0, 0, 0>> }) >>
Accepts(chart) == <<0, 1, 0>> \in chart[Len(chart)]

VARIABLES prefix, chart
Init == prefix = <<>> /\ chart = Chart0
Next == /\ Len(prefix) < L
        /\ chart[Len(chart)] # {}
        /\ \E t \in 1..(G.nT-1) :
             /\ prefix' = Append(prefix, t)
             /\ chart' = Scan(chart, t)
Spec == Init /\ [][Next]_<<prefix, chart>>
Inv == TRUE
====
