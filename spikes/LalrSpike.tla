---- MODULE LalrSpike ----
EXTENDS Integers, Sequences, FiniteSets, TLC, FiniteSetsExt, SequencesExt

\* Grammar: terminals 0..nT-1 (0 = eoi), nonterminals nT..nS-1
\* rules: sequence of [lhs, rhs]; input nonterminal In (eoi)
G1 == [nT |-> 4, nS |-> 7,
       rules |-> << [lhs |-> 4, rhs |-> <<4, 1, 5>>],   \* E -> E + T
                    [lhs |-> 4, rhs |-> <<5>>],          \* E -> T
                    [lhs |-> 5, rhs |-> <<5, 2, 6>>],    \* T -> T * F
                    [lhs |-> 5, rhs |-> <<6>>],          \* T -> F
                    [lhs |-> 6, rhs |-> <<3>>],          \* F -> id
                    [lhs |-> 6, rhs |-> <<>>] >>,        \* F -> 
       input |-> 4]

VARIABLE done

Terms(g) == 0..(g.nT-1)
IsNT(g, s) == s >= g.nT
RuleIdx(g) == 1..Len(g.rules)

\* nullable nonterminals: least fixpoint
RECURSIVE NullFix(_, _)
NullFix(g, N) ==
  LET N2 == N \cup { g.rules[r].lhs : r \in { r \in RuleIdx(g) : \A i \in 1..Len(g.rules[r].rhs) : g.rules[r].rhs[i] \in N } }
  IN IF N2 = N THEN N ELSE NullFix(g, N2)
Nullable(g) == NullFix(g, {})

\* FIRST sets of symbols: function sym -> set of terminals, fixpoint
RECURSIVE FirstFix(_, _, _)
FirstSeq(g, F, nl, w) == \* first of sequence w given F
  UNION { F[w[i]] : i \in { i \in 1..Len(w) : \A j \in 1..(i-1) : w[j] \in nl } }
FirstFix(g, nl, F) ==
  LET F2 == [s \in 0..(g.nS-1) |->
               IF s < g.nT THEN {s}
               ELSE F[s] \cup UNION { FirstSeq(g, F, nl, g.rules[r].rhs) : r \in { r \in RuleIdx(g) : g.rules[r].lhs = s } }]
  IN IF F2 = F THEN F ELSE FirstFix(g, nl, F2)
First(g, nl) == FirstFix(g, nl, [s \in 0..(g.nS-1) |-> IF s < g.nT THEN {s} ELSE {}])

SeqNullable(nl, w) == \A i \in 1..Len(w) : w[i] \in nl

\* LR(1) items: <<r, d, la>> ; r = 0 is the augmented rule S' -> input
Rhs(g, r) == IF r = 0 THEN <<g.input>> ELSE g.rules[r].rhs
RECURSIVE Closure1(_, _, _, _)
Closure1(g, nl, F, I) ==
  LET add == { <<r2, 0, t>> :
                 it \in { it \in I : it[2] < Len(Rhs(g, it[1])) /\ IsNT(g, Rhs(g, it[1])[it[2]+1]) },
                 r2 \in RuleIdx(g), t \in Terms(g) }
      \* filter properly
      new == UNION { LET rhs == Rhs(g, it[1])
                         B == rhs[it[2]+1]
                         beta == SubSeq(rhs, it[2]+2, Len(rhs))
                         las == FirstSeq(g, F, nl, beta) \cup (IF SeqNullable(nl, beta) THEN {it[3]} ELSE {})
                     IN { <<r2, 0, t>> : r2 \in { r2 \in RuleIdx(g) : g.rules[r2].lhs = B }, t \in las }
                   : it \in { it \in I : it[2] < Len(Rhs(g, it[1])) /\ IsNT(g, Rhs(g, it[1])[it[2]+1]) } }
      I2 == I \cup new
  IN IF I2 = I THEN I ELSE Closure1(g, nl, F, I2)

Goto1(g, nl, F, I, X) ==
  Closure1(g, nl, F, { <<it[1], it[2]+1, it[3]>> : it \in { it \in I : it[2] < Len(Rhs(g, it[1])) /\ Rhs(g, it[1])[it[2]+1] = X } })

RECURSIVE States1(_, _, _, _, _)
States1(g, nl, F, seen, frontier) ==
  IF frontier = {} THEN seen
  ELSE LET nxt == { Goto1(g, nl, F, I, X) : I \in frontier, X \in 0..(g.nS-1) } \ {{}}
           new == nxt \ seen
       IN States1(g, nl, F, seen \cup new, new)

LR1States(g) ==
  LET nl == Nullable(g)
      F == First(g, nl)
      s0 == Closure1(g, nl, F, { <<0, 0, 0>> })
  IN States1(g, nl, F, {s0}, {s0})

Core(I) == { <<it[1], it[2]>> : it \in I }
LALRStates(g) == LET S == LR1States(g) IN { UNION { I \in S : Core(I) = c } : c \in { Core(I) : I \in S } }

Init == done = FALSE
Next == /\ ~done
        /\ done' = TRUE
        /\ LET S == LR1States(G1) IN PrintT(<<"lr1", Cardinality(S), "lalr", Cardinality(LALRStates(G1))>>)
Spec == Init /\ [][Next]_done
====
