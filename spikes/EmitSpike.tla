---- MODULE Emit ----
EXTENDS Integers, Sequences, FiniteSets, TLC, Json, IOUtils, SequencesExt, FiniteSetsExt
Lits == { [v |-> v, neg |-> n] : v \in 1..3, n \in BOOLEAN }
\* conjunctions: sequences of 1..2 literals over distinct vars
Conj == { <<a>> : a \in Lits } \cup { <<p[1], p[2]>> : p \in { q \in Lits \X Lits : q[1].v # q[2].v } }
Cases == { <<c1, c2>> : c1 \in Conj, c2 \in Conj }
Holds(conj, asg) == \A i \in 1..Len(conj) : asg[conj[i].v] = ~conj[i].neg
Asgs == [1..3 -> BOOLEAN]
Expected(cs) == [ a \in Asgs |-> { i \in 1..2 : Holds(cs[i], a) } ]
AsJson(cs) == [ alts |-> cs, exp |-> [ k \in 1..8 |-> LET a == SetToSeq(Asgs)[k] IN [asg |-> a, sat |-> SetToSeq(Expected(cs)[a])] ] ]
ASSUME PrintT(<<"cases", Cardinality(Cases)>>)
ASSUME ndJsonSerialize(IOEnv.VERIF_OUT, [ i \in 1..Cardinality(Cases) |-> AsJson(SetToSeq(Cases)[i]) ])
VARIABLE x
Init == x = 0
Next == UNCHANGED x
====
