---- MODULE IsoSpike ----
EXTENDS Integers, Sequences, FiniteSets, TLC, Json, IOUtils, FiniteSetsExt

Cases == ndJsonDeserialize(IOEnv.VERIF_CASES)

At0(s, i) == s[i+1]
Terms(g) == 0..(g.nT-1)
Syms(g) == 0..(g.nS-1)
RuleIdx(g) == 1..Len(g.rules)
NIn(g) == Len(g.inputs)

\* rules: r > 0 user rule (1-based), r < 0 augmented rule for input -r
Rhs(g, r) == IF r > 0 THEN g.rules[r].rhs
             ELSE IF g.inputs[-r].eoi THEN <<g.inputs[-r].nt, 0>> ELSE <<g.inputs[-r].nt>>
Lhs(g, r) == IF r > 0 THEN g.rules[r].lhs ELSE -1

RECURSIVE NullFix(_, _)
NullFix(g, N) ==
  LET N2 == N \cup { g.rules[r].lhs : r \in { r \in RuleIdx(g) : \A i \in 1..Len(g.rules[r].rhs) : g.rules[r].rhs[i] \in N } }
  IN IF N2 = N THEN N ELSE NullFix(g, N2)

FirstSeq(F, nl, w) == UNION { F[w[i]] : i \in { i \in 1..Len(w) : \A j \in 1..(i-1) : w[j] \in nl } }
RECURSIVE FirstFix(_, _, _)
FirstFix(g, nl, F) ==
  LET F2 == [s \in Syms(g) |->
               IF s < g.nT THEN {s}
               ELSE F[s] \cup UNION { FirstSeq(F, nl, g.rules[r].rhs) : r \in { r \in RuleIdx(g) : g.rules[r].lhs = s } }]
  IN IF F2 = F THEN F ELSE FirstFix(g, nl, F2)
SeqNullable(nl, w) == \A i \in 1..Len(w) : w[i] \in nl

NextSym(g, it) == IF it[2] < Len(Rhs(g, it[1])) THEN Rhs(g, it[1])[it[2]+1] ELSE -1

RECURSIVE Closure1(_, _, _, _)
Closure1(g, nl, F, I) ==
  LET new == UNION { LET rhs == Rhs(g, it[1])
                         B == rhs[it[2]+1]
                         beta == SubSeq(rhs, it[2]+2, Len(rhs))
                         las == FirstSeq(F, nl, beta) \cup (IF SeqNullable(nl, beta) THEN {it[3]} ELSE {})
                     IN { <<r2, 0, t>> : r2 \in { r2 \in RuleIdx(g) : g.rules[r2].lhs = B }, t \in las }
                   : it \in { it \in I : NextSym(g, it) >= g.nT } }
      I2 == I \cup new
  IN IF I2 = I THEN I ELSE Closure1(g, nl, F, I2)

Goto1(g, nl, F, I, X) ==
  Closure1(g, nl, F, { <<it[1], it[2]+1, it[3]>> : it \in { it \in I : NextSym(g, it) = X } })

RECURSIVE States1(_, _, _, _, _)
States1(g, nl, F, seen, frontier) ==
  IF frontier = {} THEN seen
  ELSE LET nxt == { Goto1(g, nl, F, I, X) : I \in frontier, X \in Syms(g) } \ {{}}
           new == nxt \ seen
       IN States1(g, nl, F, seen \cup new, new)

Start1(g, nl, F, i) ==
  Closure1(g, nl, F, { <<-i, 0, t>> : t \in (IF g.inputs[i].eoi THEN {0} ELSE Terms(g)) })

Core(I) == { <<it[1], it[2]>> : it \in I }

\* The whole analysis of a grammar, as a record (computed once per case in Init)
Analyse(g) ==
  LET nl == NullFix(g, {})
      F == FirstFix(g, nl, [s \in Syms(g) |-> IF s < g.nT THEN {s} ELSE {}])
      starts == [i \in 1..NIn(g) |-> Start1(g, nl, F, i)]
      S1 == States1(g, nl, F, {starts[i] : i \in 1..NIn(g)}, {starts[i] : i \in 1..NIn(g)})
      cores == { Core(I) : I \in S1 }
      merged == [c \in cores |-> UNION { I \in S1 : Core(I) = c }]
      \* LALR goto: on cores
      lgoto(c, X) == LET J == { <<it[1], it[2]+1>> : it \in { it \in merged[c] : NextSym(g, it) = X } }
                     IN IF J = {} THEN {} ELSE CHOOSE c2 \in cores : \A k \in J : k \in c2 /\ 
                            { k2 \in c2 : k2[2] > 0 \/ k2[1] < 0 } = { k2 \in J : TRUE } \cup { k2 \in c2 : k2[1] < 0 /\ k2[2] = 0 }
  IN [nl |-> nl, F |-> F, starts |-> [i \in 1..NIn(g) |-> Core(starts[i])], cores |-> cores, merged |-> merged]

\* --- real table decoding
RGoto(c, s, X) ==
  LET lo == At0(c.Goto, X) hi == At0(c.Goto, X+1)
      idx == { k \in lo..(hi-1) : (k - lo) % 2 = 0 /\ At0(c.FromTo, k) = s }
  IN IF idx = {} THEN -1 ELSE At0(c.FromTo, (CHOOSE k \in idx : TRUE) + 1)

RECURSIVE LalrLookup(_, _, _)
LalrLookup(c, a, t) == IF At0(c.Lalr, a) < 0 THEN At0(c.Lalr, a+1)
                       ELSE IF At0(c.Lalr, a) = t THEN At0(c.Lalr, a+1) ELSE LalrLookup(c, a+2, t)
RECURSIVE LalrTerms(_, _)
LalrTerms(c, a) == IF At0(c.Lalr, a) < 0 THEN {} ELSE {At0(c.Lalr, a)} \cup LalrTerms(c, a+2)

\* decoded real action: <<"s", target>> | <<"r", rule0>> | <<"e">>
RAction(c, s, t) ==
  LET a == At0(c.Action, s) IN
  IF a >= 0 THEN <<"r", a>>
  ELSE IF a = -1 THEN (IF RGoto(c, s, t) >= 0 THEN <<"s", RGoto(c, s, t)>> ELSE <<"e">>)
  ELSE IF a = -2 THEN <<"e">>
  ELSE LET v == LalrLookup(c, -3 - a, t) IN
       IF v >= 0 THEN <<"r", v>> ELSE IF v = -1 THEN <<"s", RGoto(c, s, t)>> ELSE <<"e">>

\* --- spec side per LALR state (merged item set Q)
Reduces(g, Q, t) == { it[1] : it \in { it \in Q : it[1] > 0 /\ NextSym(g, it) = -1 /\ it[3] = t } }
AllReduces(g, Q) == { it[1] : it \in { it \in Q : it[1] > 0 /\ NextSym(g, it) = -1 } }
ShiftSyms(g, Q) == { NextSym(g, it) : it \in Q } \ {-1}
IsFinalItem(g, it) == it[1] < 0 /\ NextSym(g, it) = -1

VARIABLES ci, phase, pairs, an
vars == <<ci, phase, pairs, an>>

GotoCore(g, A, c, X) ==
  LET J == { <<it[1], it[2]+1>> : it \in { it \in A.merged[c] : NextSym(g, it) = X } }
  IN IF J = {} THEN {} 
     ELSE LET cands == { c2 \in A.cores : J \subseteq c2 /\ \A k \in c2 : (k[2] > 0 => k \in J) } IN
          IF Cardinality(cands) = 1 THEN CHOOSE c2 \in cands : TRUE ELSE {<<"ambiguous", cands>>}

Init == /\ ci \in 1..Len(Cases)
        /\ phase = "walk"
        /\ an = Analyse(Cases[ci])
        /\ pairs = { <<an.starts[i], i-1>> : i \in 1..NIn(Cases[ci]) }

Walk == /\ phase = "walk"
        /\ LET c == Cases[ci]
               new == { <<GotoCore(c, an, p[1], X), RGoto(c, p[2], X)>> : p \in pairs, X \in Syms(c) }
                        \ { <<{}, -1>> }
               p2 == pairs \cup new
           IN /\ pairs' = p2
              /\ phase' = IF p2 = pairs THEN "check" ELSE "walk"
        /\ UNCHANGED <<ci, an>>

Done == phase = "check" /\ phase' = "done" /\ UNCHANGED <<ci, pairs, an>>
Fin == phase = "done" /\ UNCHANGED vars
Next == Walk \/ Done \/ Fin
Spec == Init /\ [][Next]_vars

\* ---- invariants evaluated when phase = "check"
Functional == phase = "check" => \A p, q \in pairs : (p[1] = q[1]) <=> (p[2] = q[2])
NoDangling == phase = "check" => \A p \in pairs : p[1] # {} /\ p[2] >= 0
Covers == phase = "check" => Cardinality(pairs) = Cases[ci].NumStates
ExpectedAct(g, Q, t) ==
  LET R == Reduces(g, Q, t) sh == t \in ShiftSyms(g, Q) IN
  IF sh THEN "s" ELSE IF R = {} THEN "e" ELSE "r"
ActionsAgree ==
  phase = "check" =>
    LET c == Cases[ci] IN
    \A p \in pairs :
      LET Q == an.merged[p[1]]
          s == p[2]
          isFinal == \E it \in Q : IsFinalItem(c, it)
          red == AllReduces(c, Q)
          tsh == { x \in ShiftSyms(c, Q) : x < c.nT }
          lr0 == red = {} \/ (Cardinality(red) = 1 /\ tsh = {})
      IN isFinal \/
         IF lr0 THEN
            At0(c.Action, s) = (IF red = {} THEN (IF ShiftSyms(c, Q) = {} THEN -2 ELSE -1) ELSE (CHOOSE r \in red : TRUE) - 1)
         ELSE /\ At0(c.Action, s) < -2
              /\ \A t \in Terms(c) :
                   LET ra == RAction(c, s, t)
                       R == Reduces(c, Q, t) IN
                   IF t \in tsh THEN ra[1] = "s"
                   ELSE IF R = {} THEN ra[1] = "e"
                   ELSE ra = <<"r", (CHOOSE r \in R : \A r2 \in R : r <= r2) - 1>>
SRCount(c) == Cardinality({ <<p, t>> \in pairs \X Terms(c) :
                 LET Q == an.merged[p[1]] red == AllReduces(c, Q) tsh == { x \in ShiftSyms(c, Q) : x < c.nT }
                 IN ~(red = {} \/ (Cardinality(red) = 1 /\ tsh = {})) /\ ~(\E it \in Q : IsFinalItem(c, it)) /\ t \in tsh /\ Reduces(c, Q, t) # {} })
RRCount(c) == Cardinality({ <<p, t>> \in pairs \X Terms(c) :
                 LET Q == an.merged[p[1]] red == AllReduces(c, Q) tsh == { x \in ShiftSyms(c, Q) : x < c.nT }
                 IN ~(red = {} \/ (Cardinality(red) = 1 /\ tsh = {})) /\ ~(\E it \in Q : IsFinalItem(c, it)) /\ t \notin tsh /\ Cardinality(Reduces(c, Q, t)) >= 2 })
Counts == phase = "check" => (SRCount(Cases[ci]) = Cases[ci].SR /\ RRCount(Cases[ci]) = Cases[ci].RR)

Fails ==
  IF phase # "check" THEN {} ELSE
    LET c == Cases[ci] IN
    { <<p[2], t, RAction(c, p[2], t), At0(c.Action, p[2]), AllReduces(c, an.merged[p[1]]), { x \in ShiftSyms(c, an.merged[p[1]]) : x < c.nT }, Reduces(c, an.merged[p[1]], t)>> :
        <<p, t>> \in { <<p, t>> \in pairs \X Terms(c) :
          LET Q == an.merged[p[1]]
              s == p[2]
              isFinal == \E it \in Q : IsFinalItem(c, it)
              red == AllReduces(c, Q)
              tsh == { x \in ShiftSyms(c, Q) : x < c.nT }
              lr0 == red = {} \/ (Cardinality(red) = 1 /\ tsh = {})
              ra == RAction(c, s, t)
              R == Reduces(c, Q, t)
          IN ~isFinal /\ ~(IF lr0 THEN At0(c.Action, s) = (IF red = {} THEN (IF ShiftSyms(c, Q) = {} THEN -2 ELSE -1) ELSE (CHOOSE r \in red : TRUE) - 1)
               ELSE (At0(c.Action, s) < -2 /\ (IF t \in tsh THEN ra[1] = "s" ELSE IF R = {} THEN ra[1] = "e" ELSE ra = <<"r", (CHOOSE r \in R : \A r2 \in R : r <= r2) - 1>>))) } }
Alias == [ci |-> ci, id |-> Cases[ci].id, fails |-> Fails, sr |-> SRCount(Cases[ci]), rr |-> RRCount(Cases[ci]), npairs |-> Cardinality(pairs)]
NoFails == Fails = {}
====
