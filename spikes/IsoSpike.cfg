SPECIFICATION Spec
INVARIANT Functional
INVARIANT NoDangling
INVARIANT Covers
INVARIANT NoFails
INVARIANT Counts
CHECK_DEADLOCK FALSE
ALIAS Alias
