language g1(go);

package = "spike/g1"
eventBased = true
debugParser = false

:: lexer

WS: /[ \n]+/ (space)
'a': /a/
'b': /b/
'c': /c/

:: parser

%input S, T no-eoi;

S -> Root: A 'c' ;
A -> ANode: A 'a' | B? -> Opt ;
B -> BNode: 'b' ;
T: 'a' 'b' ;

%%
{{define "onAfterShift"}}
	verifShift(int(p.next.symbol), int(state))
{{end}}
{{define "onAfterParser"}}
var VerifLog []int
func verifShift(sym, state int) { VerifLog = append(VerifLog, sym, state) }
{{end}}
