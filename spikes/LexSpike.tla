---- MODULE LexSpike ----
EXTENDS Integers, Sequences, FiniteSets, TLC, Json, IOUtils

Cases == ndJsonDeserialize(IOEnv.VERIF_CASES)

\* regex values: records [k, c, sub]; derived constructors
Empty == [k |-> "empty"]   \* empty language
Eps == [k |-> "eps"]
Cat(a, b) == IF a.k = "empty" \/ b.k = "empty" THEN Empty ELSE IF a.k = "eps" THEN b ELSE IF b.k = "eps" THEN a ELSE [k |-> "cat", sub |-> <<a, b>>]
Alt(a, b) == IF a.k = "empty" THEN b ELSE IF b.k = "empty" THEN a ELSE IF a = b THEN a ELSE [k |-> "alt", sub |-> <<a, b>>]
Star(a) == [k |-> "star", sub |-> <<a>>]

RECURSIVE Nullable(_)
Nullable(e) ==
  CASE e.k = "empty" -> FALSE
    [] e.k = "eps" -> TRUE
    [] e.k = "lit" -> FALSE
    [] e.k = "class" -> FALSE
    [] e.k = "cat" -> Nullable(e.sub[1]) /\ Nullable(e.sub[2])
    [] e.k = "alt" -> Nullable(e.sub[1]) \/ Nullable(e.sub[2])
    [] e.k = "star" -> TRUE
    [] e.k = "plus" -> Nullable(e.sub[1])
    [] e.k = "opt" -> TRUE

RECURSIVE Deriv(_, _)
Deriv(e, c) ==
  CASE e.k = "empty" -> Empty
    [] e.k = "eps" -> Empty
    [] e.k = "lit" -> IF e.c[1] = c THEN Eps ELSE Empty
    [] e.k = "class" -> IF \E i \in 1..Len(e.c) : e.c[i] = c THEN Eps ELSE Empty
    [] e.k = "cat" -> LET d1 == Cat(Deriv(e.sub[1], c), e.sub[2]) IN
                      IF Nullable(e.sub[1]) THEN Alt(d1, Deriv(e.sub[2], c)) ELSE d1
    [] e.k = "alt" -> Alt(Deriv(e.sub[1], c), Deriv(e.sub[2], c))
    [] e.k = "star" -> Cat(Deriv(e.sub[1], c), e)
    [] e.k = "plus" -> Cat(Deriv(e.sub[1], c), Star(e.sub[1]))
    [] e.k = "opt" -> Deriv(e.sub[1], c)

\* with the smart constructors every non-"empty" value denotes a non-empty language
Alive(e) == e.k # "empty"

\* Expected scan result for text t given rules: fold over prefixes
RECURSIVE Walk(_, _, _, _, _, _, _)
\* ds: current derivatives per rule; i: chars consumed; bestSize/bestAct: last accept; 
Walk(rules, t, ds, i, bestSize, bestAct, alive) ==
  LET n == Len(rules)
      acc == { j \in 1..n : Nullable(ds[j]) }
      top == IF acc = {} THEN 0 ELSE CHOOSE j \in acc : \A j2 \in acc : rules[j].prio > rules[j2].prio \/ (rules[j].prio = rules[j2].prio /\ j <= j2)
      bs == IF acc # {} /\ i > 0 THEN i ELSE bestSize
      ba == IF acc # {} /\ i > 0 THEN rules[top].action ELSE bestAct
      anyAlive == \E j \in 1..n : Alive(ds[j])
  IN IF ~anyAlive THEN (IF bs > 0 THEN <<bs, ba>> ELSE <<i - 1, 0>>)
     ELSE IF i = Len(t) THEN (IF bs > 0 THEN <<bs, ba>> ELSE <<i, 0>>)
     ELSE Walk(rules, t, [j \in 1..n |-> Deriv(ds[j], t[i+1])], i + 1, bs, ba, anyAlive)

Expected(rules, t) == Walk(rules, t, [j \in 1..Len(rules) |-> rules[j].re], 0, 0, 0, TRUE)

VARIABLES ci, done
Init == ci \in { i \in 1..Len(Cases) : Cases[i].err = "" } /\ done = FALSE
Next == ~done /\ done' = TRUE /\ UNCHANGED ci
Spec == Init /\ [][Next]_<<ci, done>>
Bad == { s \in 1..Len(Cases[ci].scans) :
          LET sc == Cases[ci].scans[s] IN Expected(Cases[ci].rules, sc.t) # <<sc.size, sc.action>> }
Ok == Bad = {}
Alias == [id |-> Cases[ci].id, rules |-> [j \in 1..Len(Cases[ci].rules) |-> Cases[ci].rules[j].text],
          bad |-> { <<Cases[ci].scans[s].t, Cases[ci].scans[s].size, Cases[ci].scans[s].action, Expected(Cases[ci].rules, Cases[ci].scans[s].t)>> : s \in Bad }]
====
