language g2(go);

package = "spike/g2"
eventBased = true

:: lexer

WS: /[ \n]+/ (space)
'a': /a/
'x': /x/

:: parser

%input N;

N -> NN: N C 'x' | 'a' ;
C -> CC: ;
