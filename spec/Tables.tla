---------------------------- MODULE Tables ----------------------------
(* Decoders of the generated tables, transcribed from lalr/lalr.go and the parser template. *)
(* Arrays come from JSON dumps and are 0-based in the implementation: At0(a, i) = a[i+1].   *)
EXTENDS Integers, Sequences, FiniteSets

At0(s, i) == s[i+1]

(* DefaultEnc.gotoState: pairs (from, to) of symbol X live in FromTo[Goto[X] .. Goto[X+1]) *)
GotoIdx(c, s, X) ==
  LET lo == At0(c.Goto, X)  hi == At0(c.Goto, X+1)
  IN { k \in lo..(hi-1) : (k - lo) % 2 = 0 /\ At0(c.FromTo, k) = s }
RGoto(c, s, X) ==
  LET idx == GotoIdx(c, s, X) IN IF idx = {} THEN -1 ELSE At0(c.FromTo, (CHOOSE k \in idx : TRUE) + 1)
(* what the binary-search branch of gotoState needs (used when a symbol has >= 16 transitions) *)
GotoSorted(c, X) ==
  LET lo == At0(c.Goto, X)  hi == At0(c.Goto, X+1)
  IN \A k \in lo..(hi-3) : (k - lo) % 2 = 0 => At0(c.FromTo, k) < At0(c.FromTo, k+2)
(* the implementation's own search, transcribed (linear below 32 entries, binary search above) *)
RECURSIVE BinSearch(_, _, _, _)
BinSearch(c, s, min, max) ==
  IF min >= max THEN -1
  ELSE LET e0 == (min + max) \div 2
           e == e0 - (e0 % 2)
           i == At0(c.FromTo, e)
       IN IF i = s THEN At0(c.FromTo, e + 1)
          ELSE IF i < s THEN BinSearch(c, s, e + 2, max) ELSE BinSearch(c, s, min, e)
ImplGoto(c, s, X) ==
  LET lo == At0(c.Goto, X)  hi == At0(c.Goto, X+1)
  IN IF hi - lo < 32 THEN RGoto(c, s, X) ELSE BinSearch(c, s, lo, hi)

(* binary search regardless of size: equals RGoto whenever GotoSorted holds (checked per case) *)
FGoto(c, s, X) == BinSearch(c, s, At0(c.Goto, X), At0(c.Goto, X+1))

RECURSIVE LalrLookup(_, _, _)
LalrLookup(c, a, t) == IF At0(c.Lalr, a) < 0 THEN At0(c.Lalr, a+1)
                       ELSE IF At0(c.Lalr, a) = t THEN At0(c.Lalr, a+1) ELSE LalrLookup(c, a+2, t)
RECURSIVE LalrTerms(_, _)
LalrTerms(c, a) == IF At0(c.Lalr, a) < 0 THEN {} ELSE {At0(c.Lalr, a)} \cup LalrTerms(c, a+2)
(* listed explicitly with value v *)
LalrListed(c, s, t, v) ==
  LET a == At0(c.Action, s) IN a < -2 /\ t \in LalrTerms(c, -3 - a) /\ LalrLookup(c, -3 - a, t) = v

(* decoded LALR(1) action of state s on terminal t: <<"s", target>> | <<"r", rule>> | <<"e">> | <<"la", v>> *)
RAction(c, s, t) ==
  LET a == At0(c.Action, s) IN
  IF a >= 0 THEN <<"r", a>>
  ELSE IF a = -1 THEN (IF RGoto(c, s, t) >= 0 THEN <<"s", RGoto(c, s, t)>> ELSE <<"e">>)
  ELSE IF a = -2 THEN <<"e">>
  ELSE LET v == LalrLookup(c, -3 - a, t) IN
       IF v >= 0 THEN <<"r", v>>
       ELSE IF v = -1 THEN (IF RGoto(c, s, t) >= 0 THEN <<"s", RGoto(c, s, t)>> ELSE <<"e">>)
       ELSE IF v = -2 THEN <<"e">>
       ELSE <<"la", v>>          \* LALR(k) chain (C07)

RActionF(c, s, t) ==        \* RAction with FGoto
  LET a == At0(c.Action, s) IN
  IF a >= 0 THEN <<"r", a>>
  ELSE IF a = -1 THEN (LET g == FGoto(c, s, t) IN IF g >= 0 THEN <<"s", g>> ELSE <<"e">>)
  ELSE IF a = -2 THEN <<"e">>
  ELSE LET v == LalrLookup(c, -3 - a, t) IN
       IF v >= 0 THEN <<"r", v>>
       ELSE IF v = -1 THEN (LET g == FGoto(c, s, t) IN IF g >= 0 THEN <<"s", g>> ELSE <<"e">>)
       ELSE IF v = -2 THEN <<"e">>
       ELSE <<"la", v>>

(* ---- DisplacementEnc (optimizeTables), decoded exactly as go_parser.go.tmpl decodes it.   *)
(* o = [DefGoto, Goto, DefAct, Action, Base, Table, Check]; nT = number of terminals.        *)
OptRawAction(o, s, t) ==
  LET a == At0(o.Action, s) IN
  IF a > o.Base
  THEN LET pos == a + t IN
       IF pos >= 0 /\ pos < Len(o.Table) /\ At0(o.Check, pos) = t THEN At0(o.Table, pos) ELSE At0(o.DefAct, s)
  ELSE At0(o.DefAct, s)
OptAction(o, s, t) ==       \* <<"s", target>> | <<"r", rule>> | <<"e">>
  LET act == OptRawAction(o, s, t) IN
  IF act >= 0 THEN <<"r", act>> ELSE IF act < -1 THEN <<"s", -2 - act>> ELSE <<"e">>
OptGoto(o, nT, s, A) ==
  LET pos == At0(o.Goto, A - nT) + s IN
  IF pos >= 0 /\ pos < Len(o.Table) /\ At0(o.Check, pos) = s THEN At0(o.Table, pos) ELSE At0(o.DefGoto, A - nT)

(* reductions listed for a lookahead state and how often (for defaultReduce) *)
RECURSIVE LalrRuleCount(_, _, _)
LalrRuleCount(c, a, r) == IF At0(c.Lalr, a) < 0 THEN 0
                          ELSE (IF At0(c.Lalr, a+1) = r THEN 1 ELSE 0) + LalrRuleCount(c, a+2, r)
RECURSIVE LalrRules(_, _)
LalrRules(c, a) == IF At0(c.Lalr, a) < 0 THEN {}
                   ELSE (IF At0(c.Lalr, a+1) >= 0 THEN {At0(c.Lalr, a+1)} ELSE {}) \cup LalrRules(c, a+2)
MostFrequentRules(c, s) ==
  LET a == -3 - At0(c.Action, s)
      rs == LalrRules(c, a)
  IN { r \in rs : \A r2 \in rs : LalrRuleCount(c, a, r2) <= LalrRuleCount(c, a, r) }
=============================================================================
