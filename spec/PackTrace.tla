---------------------------- MODULE PackTrace ----------------------------
(* Recorded results of the real packer (lalr pack via the verif hook) against Packer!Correct. *)
EXTENDS Packer, TLC, Json, IOUtils
Cases == ndJsonDeserialize(IOEnv.VERIF_CASES)
VARIABLES blk, ci, st
vars == <<blk, ci, st>>
NBlocks == 64
Init == blk \in 0..(NBlocks-1) /\ ci = 0 /\ st = "block"
Pick == /\ st = "block"
        /\ \E i \in { i \in 1..Len(Cases) : i % NBlocks = blk } : ci' = i
        /\ st' = "recorded" /\ UNCHANGED blk
Validate == st = "recorded" /\ st' = "validated" /\ UNCHANGED <<blk, ci>>
Next == Pick \/ Validate \/ (st = "validated" /\ UNCHANGED vars)
Spec == Init /\ [][Next]_vars
C == Cases[ci]
Rec == st = "recorded"
NoCrash == Rec => C.crash = ""
PackedCorrectly == (Rec /\ C.crash = "") => Correct(C.lines, C.indices, C.table, C.check, 3)
=============================================================================
