---------------------------- MODULE RegexSyntax ----------------------------
(* The documented pattern syntax for single characters and character classes, and what it  *)
(* denotes (C10).  A pattern is an abstract syntax tree whose leaves remember the SPELLING  *)
(* form used (raw character, \xHH, \uHHHH, \UHHHHHHHH, \x{...}, octal, \-escape, control    *)
(* letter), so that every documented way of writing a code point is exercised; the harness  *)
(* only concatenates the spelling.  Denotations are sets of code points, evaluated on a      *)
(* probe universe.  Leaf facts about Unicode (category membership, simple case-fold orbits)  *)
(* are supplied with each recorded case by the harness from Go's unicode package (trusted).  *)
EXTENDS Integers, Sequences, FiniteSets

ToSetQ(s) == { s[i] : i \in 1..Len(s) }

(* item: [k |-> "ch", cp, form] | [k |-> "range", lo, hi, flo, fhi] | [k |-> "esc", name]    *)
(*       | [k |-> "prop", name, style] | [k |-> "dot"]                                        *)
Digits == 48..57
Word == (48..57) \cup (65..90) \cup {95} \cup (97..122)
Space == {9, 10, 11, 12, 13, 32}

ItemDen(it, U, facts) ==
  CASE it.k = "ch" -> {it.cp} \cap U
    [] it.k = "range" -> { x \in U : it.lo <= x /\ x <= it.hi }
    [] it.k = "dot" -> U \ {10}
    [] it.k = "esc" ->
         (CASE it.name = "d" -> Digits \cap U   [] it.name = "D" -> U \ Digits
            [] it.name = "w" -> Word \cap U     [] it.name = "W" -> U \ Word
            [] it.name = "s" -> Space \cap U    [] it.name = "S" -> U \ Space)
    [] it.k = "prop" ->
         LET members == ToSetQ(facts[it.name]) \cap U IN
         IF it.style \in {"p", "Pneg"} THEN members ELSE U \ members     \* \p{X}, \P{^X}  vs  \P{X}, \p{^X}

(* simple case folding: close a set under the fold orbits (restricted to the universe); in byte mode only
   ASCII letters are added as case partners (asciiOnly) *)
FoldSet(S, U, orbits, asciiOnly) ==
  S \cup { y \in U : (asciiOnly => y < 128) /\ \E k \in 1..Len(orbits) : y \in ToSetQ(orbits[k]) /\ ToSetQ(orbits[k]) \cap S # {} }

(* class: [items, neg, subs]; nested subtracted classes are evaluated without folding, the result is folded
   once, then negated *)
RECURSIVE ClassBase(_, _, _)
ClassBase(c, U, facts) ==
  (UNION { ItemDen(c.items[i], U, facts) : i \in 1..Len(c.items) })
    \ UNION { LET b == ClassBase(c.subs[j], U, facts) IN IF c.subs[j].neg THEN U \ b ELSE b : j \in 1..Len(c.subs) }
ClassDen(c, U, fold, facts, orbits, asciiOnly) ==
  LET b == ClassBase(c, U, facts)
      f == IF fold THEN FoldSet(b, U, orbits, asciiOnly) ELSE b
  IN IF c.neg THEN U \ f ELSE f

(* a pattern is a class or a standalone atom.  Outside a class a single character is case-folded; a Unicode
   category is folded before its own negation is applied; \d \w \s stand for themselves *)
PatternDen(p, U, fold, facts, orbits, asciiOnly) ==
  IF p.k = "class" THEN ClassDen(p, U, fold, facts, orbits, asciiOnly)
  ELSE IF fold /\ p.k = "ch" THEN FoldSet(ItemDen(p, U, facts), U, orbits, asciiOnly)
  ELSE IF fold /\ p.k = "prop" THEN
       LET m == FoldSet(ToSetQ(facts[p.name]) \cap U, U, orbits, asciiOnly) IN
       IF p.style \in {"p", "Pneg"} THEN m ELSE U \ m
  ELSE ItemDen(p, U, facts)
=============================================================================
