---------------------------- MODULE ContainersTrace ----------------------------
(* Recorded runs of the real containers.  k = "intern": keys inserted one by one into an IntSliceSet and an IntSliceMap (whose allocator     *)
(* numbers the values), rets / mrets the returned numbers, lens the Len() after each step.  k = "union": sparse.Union on sets (twice with    *)
(* the same reuse buffer: first, second results, firstAfter = the first result re-read after the second call, auxClean, inputsIntact).        *)
(* k = "builder": values added to a sparse.Builder in rounds (Build after each round): built = the sets returned.                              *)
EXTENDS Containers, TLC, Json, IOUtils
Cases == ndJsonDeserialize(IOEnv.VERIF_CASES)
VARIABLES blk, ci, st, k
tvars == <<blk, ci, st, k, table, ret>>
NBlocks == 64
TInit == blk \in 0..(NBlocks-1) /\ ci = 0 /\ st = "block" /\ k = 0 /\ IInit
C == Cases[ci]
Pick == /\ st = "block"
        /\ \E i \in { i \in 1..Len(Cases) : i % NBlocks = blk } : ci' = i
        /\ st' = "run" /\ UNCHANGED <<blk, k, table, ret>>
Step == /\ st = "run" /\ C.k = "intern" /\ k < Len(C.keys)
        /\ Insert(C.keys[k + 1]) /\ k' = k + 1 /\ UNCHANGED <<blk, ci, st>>
TNext == Pick \/ Step \/ (st = "run" /\ (C.k # "intern" \/ k = Len(C.keys)) /\ UNCHANGED tvars)
TSpec == TInit /\ [][TNext]_tvars
NoCrash == st = "run" => C.crash = ""
InternConforms == (st = "run" /\ C.k = "intern" /\ k > 0 /\ C.crash = "") => (C.rets[k] = ret /\ C.mrets[k] = ret /\ C.lens[k] = Len(table))
UnionExact == (st = "run" /\ C.k = "union" /\ C.crash = "") =>
   /\ ToSet(C.first) = UnionOf(C.sets1) /\ Distinct(C.first)
   /\ ToSet(C.second) = UnionOf(C.sets2) /\ Distinct(C.second)
   /\ C.firstAfter = C.first                    \* the first result is not overwritten by the second call
   /\ C.auxClean /\ C.inputsIntact
BuilderExact == (st = "run" /\ C.k = "builder" /\ C.crash = "") =>
   /\ Len(C.built) = Len(C.rounds)
   /\ \A r \in 1..Len(C.rounds) : C.built[r] = FirstSeen(C.rounds[r])
=============================================================================
