---------------------------- MODULE DiagTrace ----------------------------
(* Replay of DiagGen's programs in the real status package: lists[1] is the status after the errors  *)
(* were reported (through Add, AddError of a single error and AddError of a nested status in turn), lists[k+1] the status   *)
(* after the k-th operation of the tail; each entry <<file, off, line, msg>>.                           *)
EXTENDS Diagnostics, Json, IOUtils
Cases == ndJsonDeserialize(IOEnv.VERIF_CASES)
VARIABLES blk, ci, st, k
tvars == <<blk, ci, st, k, list, last>>
NBlocks == 64
TInit == blk \in 0..(NBlocks-1) /\ ci = 0 /\ st = "block" /\ k = 0 /\ list = << >> /\ last = "none"
C == Cases[ci]
Proj(s) == [i \in 1..Len(s) |-> << s[i].file, s[i].off, LineOf(s[i].off), s[i].msg >>]
Pick == /\ st = "block"
        /\ \E i \in { i \in 1..Len(Cases) : i % NBlocks = blk } : ci' = i
        /\ st' = "picked" /\ UNCHANGED <<blk, k, list, last>>
(* the reports: the specification's Add, one per reported error *)
Report == /\ st = "picked" /\ k < Len(C.adds)
          /\ Add(C.adds[k + 1]) /\ k' = k + 1 /\ UNCHANGED <<blk, ci, st>>
Reported == /\ st = "picked" /\ k = Len(C.adds)
            /\ st' = "tail" /\ k' = 0 /\ UNCHANGED <<blk, ci, list, last>>
(* the tail: the specification's Sort / Dedupe *)
Step == /\ st = "tail" /\ k < Len(C.tail)
        /\ IF C.tail[k + 1] = "sort" THEN Sort ELSE Dedupe
        /\ k' = k + 1 /\ UNCHANGED <<blk, ci, st>>
TNext == Pick \/ Report \/ Reported \/ Step \/ (st = "tail" /\ k = Len(C.tail) /\ UNCHANGED tvars)
TSpec == TInit /\ [][TNext]_tvars
NoCrash == st # "block" => C.crash = ""
(* after every step the real list is the specification's list *)
ListConforms == (st = "tail" /\ C.crash = "") => C.lists[k + 1] = Proj(list)
=============================================================================
