---------------------------- MODULE Ident ----------------------------
(* Target identifiers (C28).  Strings travel as sequences of code points.                   *)
EXTENDS Integers, Sequences, FiniteSets
IsUpper(c) == c >= 65 /\ c <= 90
IsLower(c) == c >= 97 /\ c <= 122
IsDigit(c) == c >= 48 /\ c <= 57
IsIdStart(c) == IsUpper(c) \/ IsLower(c) \/ c = 95
IsIdPart(c) == IsIdStart(c) \/ IsDigit(c)
(* valid in all target languages: a non-empty ASCII identifier *)
ValidIdent(s) == Len(s) > 0 /\ IsIdStart(s[1]) /\ \A i \in 2..Len(s) : IsIdPart(s[i])
(* requested casing: upper-case styles contain no lower-case letter; the camel styles start accordingly when they
   start with a letter *)
StyleOK(s, style) ==
  CASE style = "UpperCase" -> \A i \in 1..Len(s) : ~IsLower(s[i])
    [] style = "UpperUnderscores" -> \A i \in 1..Len(s) : ~IsLower(s[i])
    [] style = "CamelCase" -> Len(s) > 0 => ~IsLower(s[1])
    [] style = "CamelLower" -> Len(s) > 0 => ~IsUpper(s[1])
=============================================================================
