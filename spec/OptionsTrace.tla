---------------------------- MODULE OptionsTrace ----------------------------
(* Validation of recorded compilations of grammars whose option block is the case: errs = the option-related diagnostics as            *)
(* <<category, assignment, place>> (located by the harness, which rendered the block), final = the values of the representative options  *)
(* read from the compiled grammar (present when the compiler returned a grammar).                                                       *)
EXTENDS Options, TLC, Json, IOUtils
Cases == ndJsonDeserialize(IOEnv.VERIF_CASES)
VARIABLES blk, ci, st
vars == <<blk, ci, st>>
NBlocks == 64
Init == blk \in 0..(NBlocks-1) /\ ci = 0 /\ st = "block"
Pick == /\ st = "block"
        /\ \E i \in { i \in 1..Len(Cases) : i % NBlocks = blk } : ci' = i
        /\ st' = "recorded" /\ UNCHANGED blk
Validate == st = "recorded" /\ st' = "validated" /\ UNCHANGED <<blk, ci>>
Next == Pick \/ Validate \/ (st = "validated" /\ UNCHANGED vars)
Spec == Init /\ [][Next]_vars
C == Cases[ci]
Rec == st = "recorded"
NoCrash == Rec => C.crash = ""
DiagnosticsExact == (Rec /\ C.crash = "") => { << C.errs[i][1], C.errs[i][2], C.errs[i][3] >> : i \in 1..Len(C.errs) } = ErrorsOf(C.assigns, C.target)
(* a block without errors is accepted; the stored values are the last well-typed assignments *)
ValuesStored == (Rec /\ C.crash = "" /\ C.hasGrammar) => \A n \in Known \ {"lang"} : C.final[n] = Final(n, C.assigns)
AcceptedWhenClean == (Rec /\ C.crash = "" /\ ErrorsOf(C.assigns, C.target) = {}) => (C.hasGrammar /\ C.otherErrs = 0)
=============================================================================
