---------------------------- MODULE TreeBuilder ----------------------------
(* C20: listener event streams and the trees built from them.                                *)
(* An event is <<id, s, e>> (node identity, offset, endoffset).                               *)
(* Containment as the builders implement it: B lies in A iff A.s <= B.s < A.e and B.e <= A.e   *)
(* or the ranges are equal and non-empty - an empty node at the START of a range belongs to    *)
(* it, one at its END does not.                                                                *)
EXTENDS Integers, Sequences, FiniteSets

In(b, a) == a[2] <= b[2] /\ b[3] <= a[3] /\ b[2] < a[3]
Disjoint(a, b) == a[3] <= b[2] \/ b[3] <= a[2]
(* every node inside the input; any two disjoint or nested; a container is reported after what it contains *)
WellNested(ev, len) ==
  /\ \A i \in 1..Len(ev) : 0 <= ev[i][2] /\ ev[i][2] <= ev[i][3] /\ ev[i][3] <= len
  /\ \A i, j \in 1..Len(ev) : i < j => (Disjoint(ev[i], ev[j]) \/ In(ev[i], ev[j]))
(* the violation the monitor reports: an earlier node that strictly contains a later one, or a partial overlap *)

(* expected tree: parent of event i = the first later event that contains it; 0 = the root *)
Parent(ev, i) ==
  LET later == { j \in (i+1)..Len(ev) : In(ev[i], ev[j]) } IN
  IF later = {} THEN 0 ELSE CHOOSE j \in later : \A k \in later : j <= k
ChildrenOf(ev, p) == { i \in 1..Len(ev) : Parent(ev, i) = p }
(* siblings in source order: by offset, then by endoffset; identical ranges are not ordered by the property *)
Before(ev, i, j) == ev[i][2] < ev[j][2] \/ (ev[i][2] = ev[j][2] /\ ev[i][3] < ev[j][3])
=============================================================================
