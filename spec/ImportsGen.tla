---------------------------- MODULE ImportsGen ----------------------------
(* every source of one to three references over Imports!Paths x Imports!Aliases in the documented format, with and without a package clause *)
EXTENDS Imports, TLC, Json, IOUtils, SequencesExt
Ref(p, a, n) == [path |-> p, alias |-> Aliases[a], name |-> n]
Names == << "F1", "F2", "F3" >>
R1 == { << Ref(p, a, "F1") >> : p \in 1..Len(Paths), a \in 1..Len(Aliases) }
R2 == { r \o << Ref(p, a, "F2") >> : r \in R1, p \in 1..Len(Paths), a \in 1..Len(Aliases) }
R3 == { r \o << Ref(p, a, "F3") >> : r \in R2, p \in 1..Len(Paths), a \in 1..Len(Aliases) }
Good == { r \in R1 \cup R2 \cup R3 : Consistent(r) }
Out == SetToSeq({ [refs |-> r, pkg |-> b] : r \in Good, b \in BOOLEAN })
ASSUME PrintT(<<"importsgen", Cardinality(R1 \cup R2 \cup R3), "consistent", Cardinality(Good), "emitted", Len(Out)>>)
ASSUME ndJsonSerialize(IOEnv.VERIF_OUT, Out)
VARIABLE x
Init == x = 0
Next == UNCHANGED x
=============================================================================
