---------------------------- MODULE IntSets ----------------------------
(* Possibly co-finite integer sets, as util/container.IntSet represents them:            *)
(*   [inv |-> BOOLEAN, set |-> sorted duplicate-free sequence of integers]               *)
(* meaning  set  when ~inv and  Int \ set  when inv.  The meaning is taken relative to a  *)
(* finite probe universe U that contains every mentioned element plus at least one        *)
(* element mentioned nowhere (standing for "all other integers").                         *)
EXTENDS Integers, Sequences, FiniteSets

ToSetI(s) == { s[i] : i \in 1..Len(s) }

WellFormed(s) == \A i \in 1..(Len(s.set) - 1) : s.set[i] < s.set[i+1]   \* sorted, no duplicates

Sem(s, U) == IF s.inv THEN U \ ToSetI(s.set) ELSE ToSetI(s.set)

SemUnion(a, b, U) == Sem(a, U) \cup Sem(b, U)
SemInter(a, b, U) == Sem(a, U) \cap Sem(b, U)
SemCompl(a, U)    == U \ Sem(a, U)

(* A representation is faithful for U' = U \cup {other} iff its explicit part stays inside U. *)
Inside(s, U) == ToSetI(s.set) \subseteq U
=============================================================================
