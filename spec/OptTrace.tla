---------------------------- MODULE OptTrace ----------------------------
(* C05: the compressed (displacement) encoding decodes to the same actions as the default  *)
(* encoding.  A case carries nT, nS, t (default tables), opt (Optimize) and optdr           *)
(* (Optimize + DefaultReduce).  Large tables are validated in chunks of states so that all  *)
(* workers take part.                                                                       *)
EXTENDS Tables, TLC, Json, IOUtils

Cases == ndJsonDeserialize(IOEnv.VERIF_CASES)
ChunkSize == 64
NChunks(c) == 1 + ((c.t.NumStates - 1) \div ChunkSize)

VARIABLES ci, chunk, st
vars == <<ci, chunk, st>>
Init == ci \in 1..Len(Cases) /\ chunk = -1 /\ st = "case"
(* big tables (> 1000 states) may be sampled: only chunks with k % Stride = Offset (VERIF_CHUNK_STRIDE = 1: all) *)
Stride == atoi(IOEnv.VERIF_CHUNK_STRIDE)
Offset == atoi(IOEnv.VERIF_SEED) % Stride
Pick == /\ st = "case"
        /\ \E k \in 0..(NChunks(Cases[ci]) - 1) :
             /\ (Cases[ci].t.NumStates > 1000 => k % Stride = Offset)
             /\ chunk' = k
        /\ st' = "recorded" /\ UNCHANGED ci
Validate == st = "recorded" /\ st' = "validated" /\ UNCHANGED <<ci, chunk>>
Next == Pick \/ Validate \/ (st = "validated" /\ UNCHANGED vars)
Spec == Init /\ [][Next]_vars

Rec == st = "recorded"
C == Cases[ci]
States == { s \in 0..(C.t.NumStates - 1) : s \div ChunkSize = chunk }
Terms == 0..(C.nT - 1)
NontermSyms == C.nT..(C.nS - 1)

(* justifies FGoto: every symbol's transitions are sorted by source state (checked once per case) *)
GotoTableSorted == (Rec /\ chunk = 0) => \A X \in 0..(C.nS - 1) : GotoSorted(C.t, X)
(* plain optimizeTables: same shift target, reduction or error for every state and terminal *)
PlainActionsAgree ==
  Rec => \A s \in States : \A x \in Terms : OptAction(C.opt, s, x) = RActionF(C.t, s, x)
(* same goto target wherever the default encoding has one *)
GotosAgree(o) == \A s \in States : \A A \in NontermSyms : FGoto(C.t, s, A) >= 0 => OptGoto(o, C.nT, s, A) = FGoto(C.t, s, A)
PlainGotosAgree == Rec => GotosAgree(C.opt)
DRGotosAgree == Rec => GotosAgree(C.optdr)
(* defaultReduce: the only permitted difference is plain error -> the state's most frequent reduction,
   in lookahead states only; %nonassoc errors stay errors; nothing becomes a shift *)
DRActionsAgree ==
  Rec => \A s \in States : \A x \in Terms :
    LET plain == RActionF(C.t, s, x)  dr == OptAction(C.optdr, s, x) IN
    \/ dr = plain
    \/ /\ plain = <<"e">>
       /\ At0(C.t.Action, s) < -2
       /\ ~LalrListed(C.t, s, x, -2)
       /\ dr[1] = "r" /\ dr[2] \in MostFrequentRules(C.t, s)
(* with defaultReduce every plain error of a lookahead state that has reductions does become that reduction *)
DRIsApplied ==
  Rec => \A s \in States : (At0(C.t.Action, s) < -2 /\ MostFrequentRules(C.t, s) # {}) =>
           \A x \in Terms : (RActionF(C.t, s, x) = <<"e">> /\ ~LalrListed(C.t, s, x, -2)) => OptAction(C.optdr, s, x)[1] = "r"
=============================================================================
