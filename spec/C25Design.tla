---------------------------- MODULE C25Design ----------------------------
(* Self-check of the oracle of C25 (no code involved): on every system of two or three nodes over base elements {0, 1} - any edges for  *)
(* unions, intersections and complements of any nodes - that has no complement on a cycle, SetClosure!LeastSolution is a solution of     *)
(* the equations; on complement-free systems it lies below every other solution.                                                        *)
EXTENDS SetClosure, TLC
U == 0..2
Subs(S) == SUBSET S
RECURSIVE SeqOfSet(_)
SeqOfSet(S) == IF S = {} THEN << >> ELSE LET m == CHOOSE x \in S : \A y \in S : x <= y IN << m >> \o SeqOfSet(S \ {m})
NodeChoices(n) ==
  { [op |-> "u", base |-> SeqOfSet(B), edges |-> SeqOfSet(E)] : B \in Subs({0, 1}), E \in Subs(0..(n-1)) }
  \cup { [op |-> "i", base |-> << >>, edges |-> SeqOfSet(E)] : E \in Subs(0..(n-1)) }
  \cup { [op |-> "c", base |-> << >>, edges |-> << w >>] : w \in 0..(n-1) }
VARIABLES sys
Init == sys \in [1..2 -> NodeChoices(2)]
Next == UNCHANGED sys
Spec == Init /\ [][Next]_sys
Sol == LeastSolution(sys, U)
OracleSolves == ~HasError(sys) => IsSolution(sys, Sol, U)
OracleIsLeast == (~HasError(sys) /\ \A n \in Nodes(sys) : sys[n].op # "c") =>
                    \A v \in [Nodes(sys) -> Subs(U)] : IsSolution(sys, v, U) => Below(Sol, v)
=============================================================================
