---------------------------- MODULE C11Trace ----------------------------
(* C11 validation: token sequences recorded from lexers generated (templates + tables) and built from  *)
(* random lexer specifications, against LexMachine!Tokens.                                              *)
EXTENDS LexMachine, TLC, Json, IOUtils
Cases == ndJsonDeserialize(IOEnv.VERIF_CASES)
VARIABLES blk, ci, st
vars == <<blk, ci, st>>
NBlocks == 64
Init == blk \in 0..(NBlocks-1) /\ ci = 0 /\ st = "block"
Pick == /\ st = "block"
        /\ \E i \in { i \in 1..Len(Cases) : i % NBlocks = blk } : ci' = i
        /\ st' = "recorded" /\ UNCHANGED blk
Validate == st = "recorded" /\ st' = "validated" /\ UNCHANGED <<blk, ci>>
Next == Pick \/ Validate \/ (st = "validated" /\ UNCHANGED vars)
Spec == Init /\ [][Next]_vars
C == Cases[ci]
Rec == st = "recorded"
(* the specifications of the universe are well-formed: only 'needs backtracking' may reject them, and only when asked for *)
Generates == Rec => (C.genErr = "" \/ (C.nobt /\ C.btErr))
NoCrash == (Rec /\ C.genErr = "") => \A k \in 1..Len(C.runs) : C.runs[k].bad = ""
TokensConform == (Rec /\ C.genErr = "") => \A k \in 1..Len(C.runs) : C.runs[k].bad = "" => C.runs[k].toks = Tokens(C, C.runs[k].t)
DebugAlias == [ci |-> ci, bad |-> IF st # "recorded" \/ C.genErr # "" THEN {} ELSE
   { <<C.runs[k].t, C.runs[k].toks, Tokens(C, C.runs[k].t)>> : k \in { k \in 1..Len(C.runs) : C.runs[k].toks # Tokens(C, C.runs[k].t) } }]
=============================================================================
