---------------------------- MODULE BitSet ----------------------------
(* util/container.BitSet, the mutable bit set under the LALR and lexer constructions: a capacity (a      *)
(* multiple of 32) and the set of indices that are 1.  Operations change the set in place; queries        *)
(* leave it alone and return a value (ret).                                                               *)
EXTENDS Integers, Sequences, FiniteSets
Word == 32
CapOf(size) == Word * ((size + Word - 1) \div Word)
VARIABLES cap, bits, ret
vars == <<cap, bits, ret>>
New(size) == cap' = CapOf(size) /\ bits' = {} /\ ret' = -1
Set(i) == i \in 0..(cap-1) /\ bits' = bits \cup {i} /\ UNCHANGED cap /\ ret' = -1
Clear(i) == i \in 0..(cap-1) /\ bits' = bits \ {i} /\ UNCHANGED cap /\ ret' = -1
Get(i) == i \in 0..(cap-1) /\ ret' = (IF i \in bits THEN 1 ELSE 0) /\ UNCHANGED <<cap, bits>>
SetAll(n) == n \in 0..cap /\ bits' = bits \cup 0..(n-1) /\ UNCHANGED cap /\ ret' = -1
ClearAll(n) == n \in 0..cap /\ bits' = bits \ 0..(n-1) /\ UNCHANGED cap /\ ret' = -1
Complement(n) == n \in 0..cap /\ bits' = (bits \ 0..(n-1)) \cup (0..(n-1) \ bits) /\ UNCHANGED cap /\ ret' = -1
Or(other) == other \subseteq 0..(cap-1) /\ bits' = bits \cup other /\ UNCHANGED cap /\ ret' = -1
Grow(size) == cap' = (IF CapOf(size) > cap THEN CapOf(size) ELSE cap) /\ UNCHANGED bits /\ ret' = -1
(* the first index >= start that is 0; the capacity if there is none *)
NextZeroOf(start) == IF \E j \in start..(cap-1) : j \notin bits THEN CHOOSE j \in start..(cap-1) : j \notin bits /\ \A m \in start..(j-1) : m \in bits ELSE cap
NextZero(start) == start \in 0..(cap-1) /\ ret' = NextZeroOf(start) /\ UNCHANGED <<cap, bits>>
Count == ret' = Cardinality(bits) /\ UNCHANGED <<cap, bits>>

(* design model: parameters from the word boundaries *)
Points == {0, 1, 31, 32, 33, 63, 64, 65, 95}
Sizes == {1, 32, 33, 64, 96}
Init == cap = Word /\ bits = {} /\ ret = -1
Next == \/ \E s \in Sizes : Grow(s)
        \/ \E i \in Points : Set(i) \/ Clear(i) \/ Get(i) \/ NextZero(i)
        \/ \E n \in Points \cup {96} : SetAll(n) \/ ClearAll(n) \/ Complement(n)
        \/ \E n \in Points : Or(0..(n-1) \cap 0..(cap-1)) \/ (n < cap /\ Or({n}))
        \/ Count
Spec == Init /\ [][Next]_vars
InRange == bits \subseteq 0..(cap-1) /\ cap % Word = 0
ComplementTwice == [][\A n \in Points : Complement(n) => ((bits' \ 0..(n-1)) \cup (0..(n-1) \ bits')) = bits]_vars
QueriesArePure == [][(ret' # -1) => bits' = bits /\ cap' = cap]_vars
NextZeroIsZero == [][\A i \in Points : NextZero(i) => (ret' >= i /\ ret' \notin bits /\ \A m \in i..(ret'-1) : m \in bits)]_vars
=============================================================================
