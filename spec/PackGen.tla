---------------------------- MODULE PackGen ----------------------------
(* All sequences of 1..N lines over positions 0..P-1 with values from V. V contains pairs of values   *)
(* that make different lines collide under the packer's polynomial hash (31): with equal positions,    *)
(* (v1, v2) and (v1 + 1, v2 - 961) hash alike.                                                         *)
EXTENDS Integers, Sequences, FiniteSets, TLC, Json, IOUtils, SequencesExt
N == atoi(IOEnv.VERIF_PACK_N)
Stride == atoi(IOEnv.VERIF_STRIDE)
Offset == atoi(IOEnv.VERIF_OFFSET)
V == {5, 6, 39, 1000}
Lines == { <<<<0, a>>>> : a \in V } \cup { <<<<1, a>>>> : a \in V } \cup { <<<<2, a>>>> : a \in V }
         \cup { <<<<0, a>>, <<1, b>>>> : a \in V, b \in V } \cup { <<<<0, a>>, <<2, b>>>> : a \in V, b \in V }
         \cup { <<<<1, a>>, <<2, b>>>> : a \in V, b \in V }
Cases == UNION { [1..n -> Lines] : n \in 1..N }
Out == LET cs == SetToSeq(Cases)
           pick == SelectSeq([i \in 1..Len(cs) |-> i], LAMBDA i : i % Stride = Offset % Stride)
       IN [j \in 1..Len(pick) |-> [id |-> pick[j], lines |-> cs[pick[j]]]]
ASSUME PrintT(<<"packgen cases", Len(Out), "of", Cardinality(Cases)>>)
ASSUME ndJsonSerialize(IOEnv.VERIF_OUT, Out)
VARIABLE x
Init == x = 0
Next == UNCHANGED x
=============================================================================
