---------------------------- MODULE C08Trace ----------------------------
(* Validation of recorded lalr.Compile results for sets of lookahead alternatives that all   *)
(* reduce in one parser state.  Recorded: accepted (no error), and the generated decision     *)
(* list (cases with targets given as alternative indices, default).                            *)
EXTENDS Lookaheads, TLC, Json, IOUtils

Cases == ndJsonDeserialize(IOEnv.VERIF_CASES)
Ins == 1..3

(* accepted => the list selects the unique satisfied alternative for every such assignment *)
DecidesRight(c) ==
  c.accepted => \A asg \in Assignments(Ins) :
                   LET sat == Satisfied(c.alts, asg) IN
                   Cardinality(sat) = 1 => Decide(c.cases, c.default, asg, 1) = CHOOSE i \in sat : TRUE
(* not mutually exclusive or not consistently ordered => rejected *)
RejectsBad(c) == (~Exclusive(c.alts, Ins) \/ ~ConsistentlyOrdered(c.alts)) => ~c.accepted
(* the list only mentions inputs and targets of the set, each alternative at most once *)
WellFormedList(c) ==
  c.accepted => /\ \A k \in 1..Len(c.cases) : c.cases[k].target \in 1..Len(c.alts) /\ c.cases[k].input \in Ins
                /\ c.default \in 1..Len(c.alts)
                /\ Cardinality({ c.cases[k].target : k \in 1..Len(c.cases) } \cup {c.default}) = Len(c.cases) + 1

VARIABLES blk, ci, st
vars == <<blk, ci, st>>
NBlocks == 64
Init == blk \in 0..(NBlocks-1) /\ ci = 0 /\ st = "block"
Pick == /\ st = "block"
        /\ \E i \in { i \in 1..Len(Cases) : i % NBlocks = blk } : ci' = i
        /\ st' = "recorded" /\ UNCHANGED blk
Validate == st = "recorded" /\ st' = "validated" /\ UNCHANGED <<blk, ci>>
Next == Pick \/ Validate \/ (st = "validated" /\ UNCHANGED vars)
Spec == Init /\ [][Next]_vars
Recorded == st = "recorded" => Cases[ci].ok
DecisionConforms == (st = "recorded" /\ Cases[ci].ok) => DecidesRight(Cases[ci])
RejectionConforms == (st = "recorded" /\ Cases[ci].ok) => RejectsBad(Cases[ci])
ListWellFormed == (st = "recorded" /\ Cases[ci].ok) => WellFormedList(Cases[ci])
=============================================================================
