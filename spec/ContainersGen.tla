---------------------------- MODULE ContainersGen ----------------------------
(* every insertion sequence of up to four keys over the colliding key universe *)
EXTENDS Containers, TLC, Json, IOUtils, SequencesExt
S1 == { <<k>> : k \in Keys }
S2 == { s \o <<k>> : s \in S1, k \in Keys }
S3 == { s \o <<k>> : s \in S2, k \in Keys }
S4 == { s \o <<k>> : s \in S3, k \in Keys }
Out == SetToSeq({ [k |-> "intern", keys |-> s] : s \in S1 \cup S2 \cup S3 \cup S4 })
ASSUME PrintT(<<"containersgen", Len(Out)>>)
ASSUME ndJsonSerialize(IOEnv.VERIF_OUT, Out)
VARIABLE x
GInit == x = 0 /\ table = << >> /\ ret = -1
GNext == UNCHANGED <<x, table, ret>>
=============================================================================
