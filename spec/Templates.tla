---------------------------- MODULE Templates ----------------------------
(* C14: what a templated grammar denotes, independently of how it is instantiated.                      *)
(* Source (from JSON): la: sequence of lookahead flag names; nts: sequence (nonterminal n is nts[n+1]) of *)
(*   [decl |-> sequence of [name, hasDef, def], e]   declared parameters (global ones by name, or inline) *)
(* Expressions: [k |-> "t", s] terminal; [k |-> "ref", n, args |-> sequence of [name, v, from]] with       *)
(*   v \in {"true", "false", "from"}; "seq"/"alt"/"opt"/"list" as in Sugar; [k |-> "cond", pred, sub]      *)
(*   (a predicate guards a whole alternative); [k |-> "eps"] is the empty alternative (%empty).  Predicates: [k |-> "p"|"not"|"eq"|"ne", name, v],          *)
(*   [k |-> "and"|"or", sub].                                                                              *)
(* An instance is <<n, S>>: nonterminal n with exactly the parameters named in S true.                   *)
(* Parameter passing at a reference to T inside M (values S):                                             *)
(*   declared parameter x of T: the explicit argument; else M's parameter of the same name; else default  *)
(*   lookahead flag x (never declared): the explicit argument; else M's value when the reference is an    *)
(*   entry point of M's body (leftmost position of an alternative); else false.                           *)
(* A disabled alternative vanishes; a choice whose alternatives are all disabled derives the empty string *)
(* (the maintainers' own expectation: 'F<T>: a ([T] b) a' gives 'F: a a').                                 *)
EXTENDS Sugar

NT(src, n) == src.nts[n + 1]
DeclNames(src, n) == { NT(src, n).decl[i].name : i \in 1..Len(NT(src, n).decl) }
DeclOf(src, n, x) == LET i == CHOOSE i \in 1..Len(NT(src, n).decl) : NT(src, n).decl[i].name = x IN NT(src, n).decl[i]
LANames(src) == { src.la[i] : i \in 1..Len(src.la) }
AllNames(src) == LANames(src) \cup UNION { DeclNames(src, n) : n \in 0..(Len(src.nts) - 1) }
Insts(src) == (0..(Len(src.nts) - 1)) \X SUBSET AllNames(src)
Norm(src, n, S) == S \cap (DeclNames(src, n) \cup LANames(src))

RECURSIVE PredT(_, _)
PredT(p, S) ==
  CASE p.k = "p" -> p.name \in S
    [] p.k = "not" -> p.name \notin S
    [] p.k = "eq" -> (p.name \in S) = (p.v = "true")
    [] p.k = "ne" -> (p.name \in S) # (p.v = "true")
    [] p.k = "and" -> \A i \in 1..Len(p.sub) : PredT(p.sub[i], S)
    [] p.k = "or" -> \E i \in 1..Len(p.sub) : PredT(p.sub[i], S)

HasArg(r, x) == \E i \in 1..Len(r.args) : r.args[i].name = x
ArgOf(r, x) == r.args[CHOOSE i \in 1..Len(r.args) : r.args[i].name = x]
ArgVal(a, S) == IF a.v = "from" THEN a.from \in S ELSE a.v = "true"
(* the parameter values of the instance of r.n referred to from M with values S *)
RefEnv(src, M, S, r, entry) ==
  { x \in DeclNames(src, r.n) :
       IF HasArg(r, x) THEN ArgVal(ArgOf(r, x), S)
       ELSE IF x \in DeclNames(src, M) THEN x \in S
       ELSE DeclOf(src, r.n, x).hasDef /\ DeclOf(src, r.n, x).def }
  \cup { x \in LANames(src) \ DeclNames(src, r.n) :
       IF HasArg(r, x) THEN ArgVal(ArgOf(r, x), S) ELSE entry /\ x \in S }
(* a declared parameter that gets no value: rejected as 'uninitialized parameters' *)
RECURSIVE RefsIn(_)
RefsIn(e) == CASE e.k = "ref" -> {e}
               [] e.k \in {"t", "eps"} -> {}
               [] OTHER -> UNION { RefsIn(e.sub[i]) : i \in 1..Len(e.sub) }
Uninitialized(src) ==
  \E M \in 0..(Len(src.nts) - 1) : \E r \in RefsIn(NT(src, M).e) : \E x \in DeclNames(src, r.n) :
     ~HasArg(r, x) /\ x \notin DeclNames(src, M) /\ ~DeclOf(src, r.n, x).hasDef


(* ---- lookahead flags: which grammars are rejected (syntax/templates.go PropagateLookaheads) ---- *)
(* A lookahead flag is not declared by the nonterminals that use it; it is handed down from an explicit argument  *)
(* through entry positions only.  Accept[N]: the flags N can make use of (it tests or forwards them itself, or the *)
(* nonterminals at its entry positions can, unless the reference sets the flag explicitly).  Provided[N]: the flags *)
(* that actually reach N.  Rejected: an explicit argument nobody can use; a flag that reaches a nonterminal whose   *)
(* alternatives do not all start with a non-nullable clause; a flag tested where it never arrives; a flag that      *)
(* reaches an input.                                                                                                *)
NTs(src) == 0..(Len(src.nts) - 1)
RECURSIVE EntryRefsOf(_), CompatOf(_), PredNames(_), UsesOf(_, _)
EntryRefsOf(e) == CASE e.k \in {"t", "eps"} -> {}
                    [] e.k = "ref" -> {e}
                    [] e.k = "alt" -> UNION { EntryRefsOf(e.sub[i]) : i \in 1..Len(e.sub) }
                    [] OTHER -> EntryRefsOf(e.sub[1])            \* seq: its first element; opt, list, cond: the content
CompatOf(e) == CASE e.k \in {"t", "ref"} -> TRUE
                 [] e.k = "eps" -> FALSE
                 [] e.k = "alt" -> \A i \in 1..Len(e.sub) : CompatOf(e.sub[i])
                 [] e.k = "opt" -> FALSE
                 [] e.k = "list" -> e.plus /\ CompatOf(e.sub[1])
                 [] OTHER -> CompatOf(e.sub[1])
PredNames(p) == IF p.k \in {"and", "or"} THEN UNION { PredNames(p.sub[i]) : i \in 1..Len(p.sub) } ELSE {p.name}
UsesOf(src, e) ==        \* lookahead flags tested in predicates or forwarded as argument values, anywhere in e
  CASE e.k \in {"t", "eps"} -> {}
    [] e.k = "ref" -> { e.args[i].from : i \in { i \in 1..Len(e.args) : e.args[i].v = "from" } } \cap LANames(src)
    [] e.k = "cond" -> (PredNames(e.pred) \cap LANames(src)) \cup UsesOf(src, e.sub[1])
    [] OTHER -> UNION { UsesOf(src, e.sub[i]) : i \in 1..Len(e.sub) }
ExplicitLA(src, r) == { r.args[i].name : i \in 1..Len(r.args) } \cap LANames(src)
RECURSIVE AcceptFix(_, _)
AcceptFix(src, A) ==
  LET A2 == [N \in NTs(src) |-> A[N] \cup UsesOf(src, NT(src, N).e)
                                   \cup UNION { A[r.n] \ ExplicitLA(src, r) : r \in EntryRefsOf(NT(src, N).e) }]
  IN IF A2 = A THEN A ELSE AcceptFix(src, A2)
Accept(src) == AcceptFix(src, [N \in NTs(src) |-> {}])
RECURSIVE ProvidedFix(_, _, _)
ProvidedFix(src, A, P) ==
  LET P2 == [T \in NTs(src) |-> P[T]
               \cup { L \in A[T] : \E M \in NTs(src) : \E r \in RefsIn(NT(src, M).e) : r.n = T /\ L \in ExplicitLA(src, r) }
               \cup { L \in A[T] : \E N \in NTs(src) : \E r \in EntryRefsOf(NT(src, N).e) : r.n = T /\ L \in P[N] /\ L \notin ExplicitLA(src, r) }]
  IN IF P2 = P THEN P ELSE ProvidedFix(src, A, P2)
Provided(src) == ProvidedFix(src, Accept(src), [N \in NTs(src) |-> {}])
NotUsedErr(src) == \E M \in NTs(src) : \E r \in RefsIn(NT(src, M).e) : \E L \in ExplicitLA(src, r) : L \notin Accept(src)[r.n]
CompatErr(src) == \E N \in NTs(src) : Provided(src)[N] # {} /\ ~CompatOf(NT(src, N).e)
NeverProvidedErr(src) == \E N \in NTs(src) : \E L \in UsesOf(src, NT(src, N).e) : L \notin Provided(src)[N]
InputErr(src, inputs) == \E N \in inputs : Provided(src)[N] # {}
LookaheadMisuse(src, inputs) == NotUsedErr(src) \/ CompatErr(src) \/ NeverProvidedErr(src) \/ InputErr(src, inputs)

Live(e, S) == { i \in 1..Len(e.sub) : e.sub[i].k # "cond" \/ PredT(e.sub[i].pred, S) }
RECURSIVE DenT(_, _, _, _, _, _, _)
DenT(src, e, M, S, entry, D, L) ==
  CASE e.k = "t" -> IF L >= 1 THEN { <<e.s>> } ELSE {}
    [] e.k = "eps" -> { <<>> }
    [] e.k = "ref" -> D[<<e.n, Norm(src, e.n, RefEnv(src, M, S, e, entry))>>]
    [] e.k = "seq" -> LET RECURSIVE Sq(_)
                          Sq(i) == IF i > Len(e.sub) THEN { <<>> }
                                   ELSE ConcatL(DenT(src, e.sub[i], M, S, entry /\ i = 1, D, L), Sq(i + 1), L)
                      IN Sq(1)
    [] e.k = "alt" -> IF Live(e, S) = {} THEN { <<>> }
                      ELSE UNION { DenT(src, IF e.sub[i].k = "cond" THEN e.sub[i].sub[1] ELSE e.sub[i], M, S, entry, D, L) : i \in Live(e, S) }
    [] e.k = "cond" -> IF PredT(e.pred, S) THEN DenT(src, e.sub[1], M, S, entry, D, L) ELSE { <<>> }
    [] e.k = "opt" -> { <<>> } \cup DenT(src, e.sub[1], M, S, entry, D, L)
    [] e.k = "list" ->
         LET E == DenT(src, e.sub[1], M, S, entry, D, L)
             Sep == IF Len(e.sub) = 2 THEN DenT(src, e.sub[2], M, S, FALSE, D, L) ELSE { <<>> }
             P == PlusFix(E, Sep, {}, L)
         IN IF e.plus THEN P ELSE { <<>> } \cup P

RECURSIVE TemplFix(_, _, _)
TemplFix(src, D, L) ==
  LET D2 == [I \in DOMAIN D |-> IF I[2] = Norm(src, I[1], I[2]) THEN D[I] \cup DenT(src, NT(src, I[1]).e, I[1], I[2], TRUE, D, L) ELSE {}]
  IN IF D2 = D THEN D ELSE TemplFix(src, D2, L)
TemplDen(src, L) == TemplFix(src, [I \in Insts(src) |-> {}], L)
=============================================================================
