---------------------------- MODULE LSGen ----------------------------
(* C23: all client histories of length 1..N over the op alphabet of LS.tla (two documents, NC contents, NP cursor *)
(* positions, an optional slow edit), sampled with a stride. Versions and request ids are assigned by the driver.  *)
EXTENDS Integers, Sequences, FiniteSets, TLC, Json, IOUtils, SequencesExt
N == atoi(IOEnv.VERIF_LS_N)
NC == atoi(IOEnv.VERIF_LS_NC)
NP == atoi(IOEnv.VERIF_LS_NP)
Stride == atoi(IOEnv.VERIF_STRIDE)
Offset == atoi(IOEnv.VERIF_OFFSET)
U == {"a", "b"}
Alphabet == [k : {"open", "change"}, u : U, c : 1..NC, slow : BOOLEAN, p : {0}]
            \cup [k : {"close", "change0"}, u : U, c : {0}, slow : {FALSE}, p : {0}]
            \cup [k : {"def"}, u : U, c : {0}, slow : {FALSE}, p : 0..(NP-1)]
(* at most one slow edit per history *)
OK(h) == Cardinality({ i \in DOMAIN h : h[i].slow }) <= 1
Hist == UNION { { h \in [1..n -> Alphabet] : OK(h) } : n \in 1..N }
Out == LET hs == SetToSeq(Hist)
           pick == SelectSeq([i \in 1..Len(hs) |-> i], LAMBDA i : i % Stride = Offset % Stride)
       IN [j \in 1..Len(pick) |-> [id |-> pick[j], ops |-> hs[pick[j]]]]
ASSUME PrintT(<<"lsgen cases", Len(Out), "of", Cardinality(Hist)>>)
ASSUME ndJsonSerialize(IOEnv.VERIF_OUT, Out)
VARIABLE x
Init == x = 0
Next == UNCHANGED x
=============================================================================
