---------------------------- MODULE Regex ----------------------------
(* Regular expressions over a finite symbolic alphabet and their languages by Brzozowski   *)
(* derivatives (the implementation compiles to an instruction list and runs a subset        *)
(* construction).  AST (from JSON):                                                         *)
(*   [k |-> "lit", c |-> <<sym>>]            [k |-> "class", c |-> <<syms>>, neg |-> BOOLEAN] *)
(*   [k |-> "cat" | "alt", sub |-> <<a, b>>]  [k |-> "star" | "plus" | "opt", sub |-> <<a>>]  *)
(*   [k |-> "rep", sub |-> <<a>>, min |-> m, max |-> n]   (n = -1: unbounded)                 *)
(* Canon(fold, s): case folding identifies a symbol with its lower-case partner.             *)
EXTENDS Integers, Sequences, FiniteSets

Empty == [k |-> "empty"]      \* the empty language
Eps == [k |-> "eps"]
Cat(a, b) == IF a.k = "empty" \/ b.k = "empty" THEN Empty
             ELSE IF a.k = "eps" THEN b ELSE IF b.k = "eps" THEN a ELSE [k |-> "cat", sub |-> <<a, b>>]
Alt(a, b) == IF a.k = "empty" THEN b ELSE IF b.k = "empty" THEN a ELSE IF a = b THEN a ELSE [k |-> "alt", sub |-> <<a, b>>]
Star(a) == IF a.k = "empty" \/ a.k = "eps" THEN Eps ELSE [k |-> "star", sub |-> <<a>>]
Rep(a, min, max) ==            \* a{min,max}; max = -1 unbounded
  IF max = 0 THEN Eps
  ELSE IF min = 0 /\ max = -1 THEN Star(a)
  ELSE [k |-> "rep", sub |-> <<a>>, min |-> min, max |-> max]

RECURSIVE Nullable(_)
Nullable(e) ==
  CASE e.k = "empty" -> FALSE
    [] e.k = "eps" -> TRUE
    [] e.k = "lit" -> FALSE
    [] e.k = "class" -> FALSE
    [] e.k = "cat" -> Nullable(e.sub[1]) /\ Nullable(e.sub[2])
    [] e.k = "alt" -> Nullable(e.sub[1]) \/ Nullable(e.sub[2])
    [] e.k = "star" -> TRUE
    [] e.k = "plus" -> Nullable(e.sub[1])
    [] e.k = "opt" -> TRUE
    [] e.k = "rep" -> e.min = 0 \/ Nullable(e.sub[1])

InSeq(s, x) == \E i \in 1..Len(s) : s[i] = x
(* canon: function symbol -> canonical symbol (identity without case folding) *)
MatchesLit(e, c, canon) == canon[e.c[1]] = canon[c]
MatchesClass(e, c, canon) == LET hit == \E i \in 1..Len(e.c) : canon[e.c[i]] = canon[c] IN IF e.neg THEN ~hit ELSE hit

RECURSIVE Deriv(_, _, _)
Deriv(e, c, canon) ==
  CASE e.k = "empty" -> Empty
    [] e.k = "eps" -> Empty
    [] e.k = "lit" -> IF MatchesLit(e, c, canon) THEN Eps ELSE Empty
    [] e.k = "class" -> IF MatchesClass(e, c, canon) THEN Eps ELSE Empty
    [] e.k = "cat" -> LET d1 == Cat(Deriv(e.sub[1], c, canon), e.sub[2]) IN
                      IF Nullable(e.sub[1]) THEN Alt(d1, Deriv(e.sub[2], c, canon)) ELSE d1
    [] e.k = "alt" -> Alt(Deriv(e.sub[1], c, canon), Deriv(e.sub[2], c, canon))
    [] e.k = "star" -> Cat(Deriv(e.sub[1], c, canon), e)
    [] e.k = "plus" -> Cat(Deriv(e.sub[1], c, canon), Star(e.sub[1]))
    [] e.k = "opt" -> Deriv(e.sub[1], c, canon)
    [] e.k = "rep" -> Cat(Deriv(e.sub[1], c, canon),
                          Rep(e.sub[1], IF e.min > 0 THEN e.min - 1 ELSE 0, IF e.max = -1 THEN -1 ELSE e.max - 1))

(* with the smart constructors every value other than Empty denotes a non-empty language,   *)
(* provided classes are non-empty over the alphabet (generators guarantee it)                *)
Alive(e) == e.k # "empty"

(* ---- longest match with rule priority.  rules: sequence of [re, prio, action, sc];         *)
(* text: sequence of symbols; width: symbol -> byte width.  Result <<sizeInBytes, action>>.   *)
(* action 0: invalid token.                                                                  *)
Active(rules, sc) == { j \in 1..Len(rules) : InSeq(rules[j].sc, sc) }
BytesOf(text, n, width) == LET RECURSIVE S(_) S(k) == IF k = 0 THEN 0 ELSE width[text[k]] + S(k - 1) IN S(n)

RECURSIVE LMWalk(_, _, _, _, _, _, _, _, _)
LMWalk(rules, act, text, width, canon, ds, i, bestN, bestAct) ==
  LET acc == { j \in act : Nullable(ds[j]) }
      top == CHOOSE j \in acc : \A j2 \in acc : rules[j].prio > rules[j2].prio \/ (rules[j].prio = rules[j2].prio /\ j <= j2)
      bn == IF acc # {} /\ i > 0 THEN i ELSE bestN
      ba == IF acc # {} /\ i > 0 THEN rules[top].action ELSE bestAct
      anyAlive == \E j \in act : Alive(ds[j])
  IN IF ~anyAlive THEN (IF bn > 0 THEN <<BytesOf(text, bn, width), ba>> ELSE <<BytesOf(text, IF i > 0 THEN i - 1 ELSE 0, width), 0>>)
     ELSE IF i = Len(text) THEN (IF bn > 0 THEN <<BytesOf(text, bn, width), ba>> ELSE <<BytesOf(text, i, width), 0>>)
     ELSE LMWalk(rules, act, text, width, canon, [j \in act |-> Deriv(ds[j], text[i+1], canon)], i + 1, bn, ba)

LongestMatch(rules, sc, text, width, canon) ==
  LET act == Active(rules, sc) IN
  LMWalk(rules, act, text, width, canon, [j \in act |-> rules[j].re], 0, 0, 0)

(* compile-time verdict the implementation must give: a rule that matches the empty string *)
AcceptsEmpty(rules) == \E j \in 1..Len(rules) : Nullable(rules[j].re)
=============================================================================
