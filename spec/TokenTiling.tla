---------------------------- MODULE TokenTiling ----------------------------
(* C12: what every run of a generated lexer must look like.  A recorded run is the sequence   *)
(* of tokens returned by repeated Next() calls up to the first end-of-input token (toks), two   *)
(* further calls (extra), and facts about the text computed by the recorder: for every token    *)
(* the number of newlines before its first byte, the offset where its line starts, and          *)
(* whether the text skipped before it is, on its own, pure space for the same lexer.            *)
(* A hang (more tokens than bytes) or a panic is an event the monitor has no transition for.    *)
EXTENDS Integers, Sequences, FiniteSets, TLC, Json, IOUtils

Cases == ndJsonDeserialize(IOEnv.VERIF_CASES)
VARIABLES blk, ci, st
vars == <<blk, ci, st>>
NBlocks == 64
Init == blk \in 0..(NBlocks-1) /\ ci = 0 /\ st = "block"
Pick == /\ st = "block"
        /\ \E i \in { i \in 1..Len(Cases) : i % NBlocks = blk } : ci' = i
        /\ st' = "recorded" /\ UNCHANGED blk
C == Cases[ci]
(* the only admitted behaviour: a finite token sequence that ends in end-of-input *)
Finite == st = "recorded" /\ ~C.hang /\ C.crash = "" /\ Len(C.toks) > 0 /\ C.toks[Len(C.toks)].tok = C.eoi /\ st' = "done" /\ UNCHANGED <<blk, ci>>
Next == Pick \/ Finite \/ (st = "done" /\ UNCHANGED vars)
Spec == Init /\ [][Next]_vars
(* a hang, a panic or a run that does not end in EOI has no transition; stated over ENABLED so that every case is reported *)
FiniteRun == st = "recorded" => ENABLED Finite
Done == st = "done"
N == Len(C.toks)
(* end-of-input sits at the end of the input and repeats there *)
EoiAtEndAndRepeats ==
  Done => /\ C.toks[N].s = C.len /\ C.toks[N].e = C.len
          /\ \A k \in 1..Len(C.extra) : C.extra[k].tok = C.eoi /\ C.extra[k].s = C.len /\ C.extra[k].e = C.len
(* every other token is non-empty and inside the input *)
TokensNonEmpty == Done => \A i \in 1..(N-1) : C.toks[i].tok # C.eoi /\ 0 <= C.toks[i].s /\ C.toks[i].s < C.toks[i].e /\ C.toks[i].e <= C.len
(* source order without overlap *)
TokensOrdered == Done => \A i \in 1..(N-1) : C.toks[i].e <= C.toks[i+1].s
(* the text between returned tokens is text matched by skipped space rules (after a byte-order mark) *)
GapsAreSpace == Done => \A i \in 1..N : C.gapClean[i]
(* the reported line (and column) is the position of the token's first byte *)
LinesTrack == Done => \A i \in 1..N : C.toks[i].line # 0 => C.toks[i].line = 1 + C.nlBefore[i]
ColumnsTrack == Done => \A i \in 1..N : C.toks[i].col # 0 => C.toks[i].col = C.toks[i].s - C.lineStart[i] + 1
=============================================================================
