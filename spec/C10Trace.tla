---------------------------- MODULE C10Trace ----------------------------
(* Validation of recorded lex.ParseRegexp / lex.Compile / Scan results for single-character  *)
(* patterns.  Recorded: spelling, err (text, offset, endOffset), probes (code points tried),  *)
(* matches (those that the compiled pattern accepts as a whole one-character token), facts,    *)
(* orbits, inUniverse (FALSE when the pattern is outside the mode, e.g. a class item > 0xff in *)
(* byte mode - then an error is expected instead).                                             *)
EXTENDS RegexSyntax, TLC, Json, IOUtils

Cases == ndJsonDeserialize(IOEnv.VERIF_CASES)
VARIABLES blk, ci, st
vars == <<blk, ci, st>>
NBlocks == 64
Init == blk \in 0..(NBlocks-1) /\ ci = 0 /\ st = "block"
Pick == /\ st = "block"
        /\ \E i \in { i \in 1..Len(Cases) : i % NBlocks = blk } : ci' = i
        /\ st' = "recorded" /\ UNCHANGED blk
Validate == st = "recorded" /\ st' = "validated" /\ UNCHANGED <<blk, ci>>
Next == Pick \/ Validate \/ (st = "validated" /\ UNCHANGED vars)
Spec == Init /\ [][Next]_vars
C == Cases[ci]
Rec == st = "recorded"
U == ToSetQ(C.probes)
WellFormedAccepted == (Rec /\ ~C.malformed /\ C.inUniverse) => C.err = ""
DenotationConforms ==
  (Rec /\ ~C.malformed /\ C.inUniverse /\ C.err = "") =>
     ToSetQ(C.matches) = PatternDen(C.p, U, C.fold, C.facts, C.orbits, C.bytes)
MalformedRejected ==
  (Rec /\ (C.malformed \/ ~C.inUniverse)) =>
     /\ C.err # ""
     /\ 0 <= C.errOff /\ C.errOff <= C.errEnd /\ C.errEnd <= C.patLen
=============================================================================
