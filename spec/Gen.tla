---------------------------- MODULE Gen ----------------------------
(* Code generation as a history of Generate(g) steps within processes (C18).                *)
(* A step records which grammar was generated, in which process, and the (file, hash) list   *)
(* it wrote.  Determinism: the written files are a function of the grammar alone - across    *)
(* repetitions in one process, across earlier generations of other grammars, across          *)
(* processes and GOMAXPROCS settings; for shipped grammars they equal the committed files.   *)
EXTENDS Integers, Sequences, FiniteSets, TLC, Json, IOUtils

Steps == ndJsonDeserialize(IOEnv.VERIF_CASES)

VARIABLES i, seen      \* position in the recorded history; seen: grammar -> first recorded output
vars == <<i, seen>>
Output(s) == [files |-> s.files, hashes |-> s.hashes, err |-> s.err]
Init == i = 0 /\ seen = [g \in {} |-> 0]
Consume ==
  /\ i < Len(Steps)
  /\ LET s == Steps[i + 1] IN
     /\ (s.grammar \in DOMAIN seen => seen[s.grammar] = Output(s))         \* same output as every earlier time
     /\ seen' = IF s.grammar \in DOMAIN seen THEN seen ELSE [g \in (DOMAIN seen) \cup {s.grammar} |-> IF g = s.grammar THEN Output(s) ELSE seen[g]]
     /\ i' = i + 1
Done == i = Len(Steps) /\ UNCHANGED vars
Next == Consume \/ Done
Spec == Init /\ [][Next]_vars
(* a history the spec cannot follow deadlocks at the deviating step: reported as a rejection *)
NoGenerationError == \A k \in 1..i : Steps[k].err = ""
ShippedMatchCommitted == \A k \in 1..i : Steps[k].shipped => \A j \in 1..Len(Steps[k].onDisk) : Steps[k].onDisk[j]
=============================================================================
