---------------------------- MODULE Cancel ----------------------------
(* C29: cancellation of a table-driven parse.  The generated parser polls the context every  *)
(* CheckEvery-th shift (512 in the templates): shiftCounter++ ; if shiftCounter mod CheckEvery  *)
(* = 0 and the context is done, the parse returns the context's error before shifting.          *)
(*                                                                                              *)
(* Design model (small CheckEvery, all interleavings of the environment's Cancel with the       *)
(* parser's shifts) and, in CancelTrace.tla, validation of recorded real runs.                  *)
EXTENDS Integers, Sequences, FiniteSets, TLC

CONSTANTS N, CheckEvery         \* number of shifts of the uncancelled parse; poll period

VARIABLES shifted, counter, cancelled, cancelledAt, done, result
vars == <<shifted, counter, cancelled, cancelledAt, done, result>>

Init == shifted = 0 /\ counter = 0 /\ cancelled = FALSE /\ cancelledAt = -1 /\ done = FALSE /\ result = "none"

(* one iteration of the shift branch of the parse loop *)
Shift ==
  /\ ~done /\ shifted < N
  /\ counter' = counter + 1
  /\ IF (counter + 1) % CheckEvery = 0 /\ cancelled
     THEN done' = TRUE /\ result' = "ctx" /\ UNCHANGED shifted
     ELSE shifted' = shifted + 1 /\ UNCHANGED <<done, result>>
  /\ UNCHANGED <<cancelled, cancelledAt>>
Finish == ~done /\ shifted = N /\ done' = TRUE /\ result' = "ok" /\ UNCHANGED <<shifted, counter, cancelled, cancelledAt>>
(* the environment cancels the context at an arbitrary moment *)
Cancel == ~cancelled /\ ~done /\ cancelled' = TRUE /\ cancelledAt' = shifted /\ UNCHANGED <<shifted, counter, done, result>>
Next == Shift \/ Finish \/ Cancel \/ (done /\ UNCHANGED vars)
Spec == Init /\ [][Next]_vars /\ WF_vars(Shift) /\ WF_vars(Finish)

(* either the context's error (only if it was cancelled) or exactly the uncancelled result *)
CancelSafe == done => (result = "ctx" => cancelled) /\ (result = "ok" => shifted = N)
(* once cancelled, fewer than CheckEvery further tokens are shifted *)
CancelBounded == cancelled => shifted - cancelledAt < CheckEvery
(* if at least CheckEvery shifts remained when it was cancelled, the parse does not run to completion *)
MustStop == (done /\ cancelled /\ N - cancelledAt >= CheckEvery) => result = "ctx"
Terminates == <>done
=============================================================================
