---------------------------- MODULE C25Gen ----------------------------
(* P1 generator for C25: the exhaustive universes, defined here and nowhere else.          *)
(*   algebra: all pairs of finite / co-finite sets over 0..AlgMax                          *)
(*   closure: all systems constructible through the Closure API with NNodes nodes over     *)
(*            base elements 0..ClMax: intersection and complement nodes refer to earlier   *)
(*            nodes only (the API creates them from existing FutureSets), union nodes to   *)
(*            any node (Include can be called later).                                      *)
EXTENDS Integers, Sequences, FiniteSets, TLC, Json, IOUtils, SequencesExt, FiniteSetsExt

AlgMax == 3
SortedSeq(S) == SetToSortSeq(S, <)
AlgSets == { [inv |-> i, set |-> SortedSeq(S)] : i \in BOOLEAN, S \in SUBSET (0..AlgMax) }
AlgCases == { [kind |-> "alg", a |-> a, b |-> b] : a \in AlgSets, b \in AlgSets }

NNodes == atoi(IOEnv.VERIF_C25_NODES)
ClMax == atoi(IOEnv.VERIF_C25_CLMAX)
NodeChoices(i) ==   \* i is the 0-based index of the node being created
  { [op |-> "u", base |-> SortedSeq(B), edges |-> SortedSeq(E)] : B \in SUBSET (0..ClMax), E \in SUBSET (0..(NNodes-1)) }
  \cup { [op |-> "i", base |-> <<>>, edges |-> SortedSeq(E)] : E \in SUBSET (0..(i-1)) }
  \cup { [op |-> "c", base |-> <<>>, edges |-> <<w>>] : w \in 0..(i-1) }

RECURSIVE Systems(_)
Systems(i) == IF i = 0 THEN { <<>> } ELSE { Append(s, c) : s \in Systems(i-1), c \in NodeChoices(i-1) }

ClCases == { [kind |-> "closure", nodes |-> s] : s \in Systems(NNodes) }

Out == IF IOEnv.VERIF_C25_KIND = "alg" THEN SetToSeq(AlgCases) ELSE SetToSeq(ClCases)
ASSUME PrintT(<<"c25gen cases", Len(Out)>>)
ASSUME ndJsonSerialize(IOEnv.VERIF_OUT, Out)

VARIABLE x
Init == x = 0
Next == UNCHANGED x
=============================================================================
