---------------------------- MODULE C26Gen ----------------------------
(* All digraphs (self-loops included) on N vertices, adjacency lists in increasing order.  *)
EXTENDS Integers, Sequences, FiniteSets, TLC, Json, IOUtils, SequencesExt, FiniteSetsExt
N == atoi(IOEnv.VERIF_C26_N)
Vs == 0..(N-1)
SortedSeq(S) == SetToSortSeq(S, <)
AllGraphs == [1..N -> SUBSET Vs]
Out == LET gs == SetToSeq(AllGraphs) IN [i \in 1..Len(gs) |-> [g |-> [v \in 1..N |-> SortedSeq(gs[i][v])]]]
ASSUME PrintT(<<"c26gen cases", Len(Out)>>)
ASSUME ndJsonSerialize(IOEnv.VERIF_OUT, Out)
VARIABLE x
Init == x = 0
Next == UNCHANGED x
=============================================================================
