---------------------------- MODULE C25Trace ----------------------------
(* P2 validation for C25: every recorded result of container.Merge / Intersect /          *)
(* Complement and of set.Closure.Compute is checked against IntSets / SetClosure.         *)
EXTENDS Integers, Sequences, FiniteSets, TLC, Json, IOUtils, SetClosure

Cases == ndJsonDeserialize(IOEnv.VERIF_CASES)

Mentioned(c) ==
  IF c.kind = "alg" THEN ToSetI(c.a.set) \cup ToSetI(c.b.set)
  ELSE UNION { ToSetI(c.nodes[n].base) : n \in 1..Len(c.nodes) }
Max(S) == IF S = {} THEN 0 ELSE CHOOSE x \in S : \A y \in S : y <= x
Univ(c) == 0..(Max(Mentioned(c)) + 1)       \* one element beyond everything mentioned

AlgOK(c) ==
  LET U == Univ(c) IN
  /\ WellFormed(c.merge) /\ WellFormed(c.inter) /\ WellFormed(c.compl)
  /\ Inside(c.merge, U) /\ Inside(c.inter, U) /\ Inside(c.compl, U)
  /\ Sem(c.merge, U) = SemUnion(c.a, c.b, U)
  /\ Sem(c.inter, U) = SemInter(c.a, c.b, U)
  /\ Sem(c.compl, U) = SemCompl(c.a, U)
  /\ c.inputsIntact

ClosureOK(c) ==
  LET U == Univ(c)
      sys == c.nodes
  IN /\ c.err = HasError(sys)
     /\ c.err => ToSetI(c.errNodes) = { n - 1 : n \in ComplementsOnCycle(sys) }
     /\ ~c.err =>
          LET sol == LeastSolution(sys, U) IN
          \A n \in Nodes(sys) : /\ WellFormed(c.vals[n]) /\ Inside(c.vals[n], U)
                                /\ Sem(c.vals[n], U) = sol[n]

CaseOK(c) == IF c.kind = "alg" THEN AlgOK(c) ELSE ClosureOK(c)

VARIABLES blk, ci, st
vars == <<blk, ci, st>>
NBlocks == 64    \* cases are spread over blocks so that all TLC workers validate in parallel
Init == blk \in 0..(NBlocks-1) /\ ci = 0 /\ st = "block"
Pick == /\ st = "block"
        /\ \E i \in { i \in 1..Len(Cases) : i % NBlocks = blk } : ci' = i
        /\ st' = "recorded" /\ UNCHANGED blk
Validate == st = "recorded" /\ st' = "validated" /\ UNCHANGED <<blk, ci>>
Next == Pick \/ Validate \/ (st = "validated" /\ UNCHANGED vars)
Spec == Init /\ [][Next]_vars
Conforms == st = "recorded" => CaseOK(Cases[ci])
=============================================================================
