---------------------------- MODULE C26Trace ----------------------------
(* Validation of recorded runs of graph.Tarjan / Matrix.Closure / Matrix.Graph /           *)
(* Transpose / LongestPath against Graphs.tla.                                             *)
(* Recorded per case: g; comps (callback sequence, each a vertex list); stacks (onStack    *)
(* contents at each callback); closure (adjacency lists after Closure, via HasEdge);       *)
(* mgraph (Matrix.Graph of the closed matrix); transpose; path (or "nil" flag).            *)
EXTENDS Integers, Sequences, FiniteSets, TLC, Json, IOUtils, Graphs

Cases == ndJsonDeserialize(IOEnv.VERIF_CASES)
ToSetS(s) == { s[i] : i \in 1..Len(s) }

TarjanOK(c) ==
  LET g == c.g
      R == Reach(g)
      comps == c.comps
      pos(v) == CHOOSE i \in 1..Len(comps) : v \in ToSetS(comps[i])
  IN IF Len(g) < 2 THEN Len(comps) = 0       \* documented: no callback for graphs with < 2 vertices
     ELSE
     /\ \A v \in V(g) : Cardinality({ i \in 1..Len(comps) : v \in ToSetS(comps[i]) }) = 1   \* each vertex once
     /\ \A i \in 1..Len(comps) : /\ Len(comps[i]) = Cardinality(ToSetS(comps[i]))
                                 /\ \E v \in V(g) : ToSetS(comps[i]) = SCCOf(R, v)          \* exactly an SCC
     /\ \A u \in V(g) : \A w \in Succ(g, u) : pos(w) <= pos(u)                              \* callees first
     /\ \A i \in 1..Len(comps) :                                                            \* what closure.go relies on
          /\ ToSetS(comps[i]) \subseteq ToSetS(c.stacks[i])
          /\ \A j \in 1..(i-1) : ToSetS(comps[j]) \cap ToSetS(c.stacks[i]) = {}

ClosureOK(c) ==
  LET g == c.g  R == Reach(g) IN
  /\ \A v \in V(g) : ToSetS(c.closure[v+1]) = R[v]
  /\ \A v \in V(g) : ToSetS(c.mgraph[v+1]) = R[v] /\ Len(c.mgraph[v+1]) = Cardinality(R[v])

TransposeOK(c) ==
  LET g == c.g IN
  /\ Len(c.transpose) = Len(g)
  /\ \A u \in V(g), v \in V(g) : (u \in ToSetS(c.transpose[v+1])) <=> Edge(g, u, v)
  \* multiplicities are preserved: as many reversed edges as edges
  /\ \A v \in V(g) : Len(c.transpose[v+1]) =
        Cardinality(UNION { { <<u, i>> : i \in { i \in 1..Len(g[u+1]) : g[u+1][i] = v } } : u \in V(g) })

PathOK(c) ==
  LET g == c.g IN
  IF Cyclic(g) THEN c.pathNil
  ELSE /\ ~c.pathNil
       /\ IsPath(g, c.path)
       /\ Len(c.path) = MaxHeight(g)

CaseOK(c) == WellFormedGraph(c.g) /\ TarjanOK(c) /\ ClosureOK(c) /\ TransposeOK(c) /\ PathOK(c)

VARIABLES blk, ci, st
vars == <<blk, ci, st>>
NBlocks == 64
Init == blk \in 0..(NBlocks-1) /\ ci = 0 /\ st = "block"
Pick == /\ st = "block"
        /\ \E i \in { i \in 1..Len(Cases) : i % NBlocks = blk } : ci' = i
        /\ st' = "recorded" /\ UNCHANGED blk
Validate == st = "recorded" /\ st' = "validated" /\ UNCHANGED <<blk, ci>>
Next == Pick \/ Validate \/ (st = "validated" /\ UNCHANGED vars)
Spec == Init /\ [][Next]_vars
TarjanConforms    == st = "recorded" => TarjanOK(Cases[ci])
ClosureConforms   == st = "recorded" => ClosureOK(Cases[ci])
TransposeConforms == st = "recorded" => TransposeOK(Cases[ci])
PathConforms      == st = "recorded" => PathOK(Cases[ci])
=============================================================================
