---------------------------- MODULE C28Gen ----------------------------
(* Every identifier spelling of length <= MaxLen over {a, B, 0, _, -} admitted by the tm ID  *)
(* rule /[a-zA-Z_]([a-zA-Z_\-0-9]*[a-zA-Z_0-9])?/, every quoted terminal with 1..2 content    *)
(* characters over a punctuation/escape/Unicode alphabet, and all pairs of a sample of them.  *)
EXTENDS Integers, Sequences, FiniteSets, TLC, Json, IOUtils, SequencesExt
MaxLen == atoi(IOEnv.VERIF_C28_MAXLEN)
A == {97, 66, 48, 95, 45}          \* a B 0 _ -
IdOK(s) == /\ s[1] \in {97, 66, 95}
           /\ s[Len(s)] # 45
Ids == { s \in UNION { [1..k -> A] : k \in 1..MaxLen } : IdOK(s) }
Q == {97, 43, 95, 45, 48, 32, 233, 123, 36}     \* a + _ - 0 space e-acute { $
Quoted == { <<39>> \o s \o <<39>> : s \in UNION { [1..k -> Q] : k \in 1..2 } }
           \cup { <<39, 92, 92, 39>>, <<39, 92, 39, 39>>, <<39, 92, 110, 39>>, <<34, 43, 43, 34>> }   \* '\\' '\'' '\n' "++"
Names == Ids \cup Quoted
Singles == [i \in 1..Cardinality(Names) |-> [kind |-> "name", name |-> SetToSeq(Names)[i]]]
PairNames == { s \in Ids : Len(s) <= 2 } \cup { <<39, 43, 39>>, <<39, 95, 39>>, <<39, 97, 39>>, <<112, 108, 117, 115>>, <<80, 76, 85, 83>>, <<80, 108, 117, 115>> }
PairSeq == SetToSeq(PairNames \X PairNames)
Pairs == [i \in 1..Len(PairSeq) |-> [kind |-> "pair", a |-> PairSeq[i][1], b |-> PairSeq[i][2]]]
Out == Singles \o Pairs
ASSUME PrintT(<<"c28gen names", Len(Singles), "pairs", Len(Pairs)>>)
ASSUME ndJsonSerialize(IOEnv.VERIF_OUT, Out)
VARIABLE x
Init == x = 0
Next == UNCHANGED x
=============================================================================
