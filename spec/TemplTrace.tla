---------------------------- MODULE TemplTrace ----------------------------
(* C14: the nonterminals the compiler instantiated derive exactly what their templates denote.   *)
(* A case: src (templated source), g (expanded rules dumped from the compiled grammar), L,        *)
(* inputs: sequence of [sym, n], instances: sequence of [sym, n, S] - the compiled nonterminals    *)
(* whose names are instance names (N<n> followed by _<param> for every true parameter).            *)
EXTENDS Templates, TLC, Json, IOUtils
Cases == ndJsonDeserialize(IOEnv.VERIF_CASES)
VARIABLES blk, ci, st
vars == <<blk, ci, st>>
NBlocks == 64
Init == blk \in 0..(NBlocks-1) /\ ci = 0 /\ st = "block"
Pick == /\ st = "block"
        /\ \E i \in { i \in 1..Len(Cases) : i % NBlocks = blk } : ci' = i
        /\ st' = "recorded" /\ UNCHANGED blk
Validate == st = "recorded" /\ st' = "validated" /\ UNCHANGED <<blk, ci>>
Next == Pick \/ Validate \/ (st = "validated" /\ UNCHANGED vars)
Spec == Init /\ [][Next]_vars
C == Cases[ci]
Rec == st = "recorded"
ToSetT(s) == { s[i] : i \in 1..Len(s) }
UninitializedRejected == Rec => (Uninitialized(C.src) <=> C.uninitErr)
(* without lookahead flags every grammar of the universe is well-formed once its parameters are initialised *)
NoSpuriousError == (Rec /\ ~Uninitialized(C.src) /\ Len(C.src.la) = 0) => C.err = ""
(* a grammar is rejected exactly when a parameter stays uninitialised or a lookahead flag is misused *)
RejectedExactly == (Rec /\ ~C.crash) => ((C.err # "") <=> (Uninitialized(C.src) \/ LookaheadMisuse(C.src, {0})))
NoCrash == Rec => ~C.crash
InstancesPreserved ==
  (Rec /\ C.err = "") =>
     LET expanded == LangUpTo(C.g, C.L)
         D == TemplDen(C.src, C.L)
     IN /\ \A k \in 1..Len(C.inputs) : expanded[C.inputs[k].sym] = D[<<C.inputs[k].n, {}>>]
        /\ \A k \in 1..Len(C.instances) :
              expanded[C.instances[k].sym] = D[<<C.instances[k].n, Norm(C.src, C.instances[k].n, ToSetT(C.instances[k].S))>>]
=============================================================================
