---------------------------- MODULE EventProv ----------------------------
(* C02 (extended notation): the listener events of a sentence, by token provenance.                     *)
(* Grammars of the universe use every terminal in one place; a rule is  marker elems... end  and is not   *)
(* recursive, so an instance of a rule is the token run from its marker to its end token, and the tokens   *)
(* of any element of the rule are those of the instance carrying one of the element's terminals.           *)
(* Elements: [k |-> "sym", t], [k |-> "opt" | "seq" | "alt", sub], [k |-> "list", sub |-> <<e>>, sep, plus], *)
(* [k |-> "arrow", name, sub |-> <<e>>] - the clause (e -> name).                                            *)
(* An arrow reports its node after everything inside it, over the range from the first to the last token    *)
(* of its content; if the content is empty in this sentence the range is empty and sits at the offset of    *)
(* the token that follows. An optional part that is absent reports nothing. A list reports its element's     *)
(* clauses once per iteration; an iteration starts at the element's first (mandatory) terminal.             *)
EXTENDS Integers, Sequences, FiniteSets

Min(S) == CHOOSE x \in S : \A y \in S : x <= y
Max(S) == CHOOSE x \in S : \A y \in S : y <= x
RECURSIVE Terms(_)
Terms(e) == IF e.k = "sym" THEN {e.t} ELSE IF e.k = "twin" THEN {e.t, e.sep - 1}
            ELSE (IF e.k = "list" /\ e.sep > 0 THEN {e.sep - 1} ELSE {}) \cup UNION { Terms(e.sub[i]) : i \in 1..Len(e.sub) }
RECURSIVE HeadT(_)
HeadT(e) == IF e.k = "sym" THEN e.t ELSE HeadT(e.sub[1])      \* first terminal of a headed element
RECURSIVE Concat(_, _)
Concat(f, k) == IF k = 0 THEN <<>> ELSE Concat(f, k - 1) \o f[k]
Sorted(S) == LET RECURSIVE Srt(_) Srt(T) == IF T = {} THEN <<>> ELSE <<Min(T)>> \o Srt(T \ {Min(T)}) IN Srt(S)

(* Order: the clauses written inside a rule (also inside its optional parts and nested choices, which are  *)
(* expanded into alternatives of the rule) are reported when the rule is reduced, inner before outer, left  *)
(* to right; a list is a nonterminal of its own, so what its iterations report comes earlier - when each    *)
(* iteration is reduced. Ev returns [now, later]: what has been reported by nested lists, and what the       *)
(* enclosing rule reports at its reduction. This is the post-order of the derivation over the plain rules.   *)
(* toks: the run's tokens <<terminal, offset, endoffset>>; I: the token indices of e; nextOff: offset of what follows *)
(* Which symbols an element contributes in this sentence: an absent optional part contributes nothing (it is   *)
(* expanded away), a star list with no iteration contributes an empty nonterminal, which sits at the offset of  *)
(* the token that follows - so a range whose last element is such a list ends there.                              *)
Tok(e, toks, I) == { i \in I : toks[i][1] \in Terms(e) }
RECURSIVE Vanished(_, _, _), TrailEmpty(_, _, _)
Vanished(e, toks, I) ==
  CASE e.k = "opt" -> I = {}
    [] e.k = "arrow" -> Vanished(e.sub[1], toks, I)
    [] e.k = "seq" -> \A k \in 1..Len(e.sub) : Vanished(e.sub[k], toks, Tok(e.sub[k], toks, I))
    [] OTHER -> FALSE
TrailEmpty(e, toks, I) ==
  CASE e.k = "sym" -> FALSE
    [] e.k = "twin" -> FALSE
    [] e.k = "nt" -> LET live == { k \in 1..Len(e.sub) : Tok(e.sub[k], toks, I) # {} } IN      \* a helper nonterminal ends where its rule ends
                     live # {} /\ TrailEmpty(e.sub[Min(live)], toks, Tok(e.sub[Min(live)], toks, I))
    [] e.k = "list" -> I = {}
    [] e.k = "opt" -> I # {} /\ TrailEmpty(e.sub[1], toks, I)
    [] e.k = "arrow" -> TrailEmpty(e.sub[1], toks, I)
    [] e.k = "alt" -> LET live == { k \in 1..Len(e.sub) : Tok(e.sub[k], toks, I) # {} } IN
                      live # {} /\ TrailEmpty(e.sub[Min(live)], toks, Tok(e.sub[Min(live)], toks, I))
    [] e.k = "seq" -> LET there == { k \in 1..Len(e.sub) : ~Vanished(e.sub[k], toks, Tok(e.sub[k], toks, I)) } IN
                      there # {} /\ TrailEmpty(e.sub[Max(there)], toks, Tok(e.sub[Max(there)], toks, I))
Both(x, y) == [now |-> x.now \o y.now, later |-> x.later \o y.later]
None == [now |-> <<>>, later |-> <<>>]
RECURSIVE ConcatB(_, _)
ConcatB(f, k) == IF k = 0 THEN None ELSE Both(ConcatB(f, k - 1), f[k])
RECURSIVE Ev(_, _, _, _, _)
Ev(e, toks, I, nextOff, fw) ==     \* fw: fixWhitespace - ranges do not extend over trailing empty symbols
  CASE e.k = "sym" -> None
    [] e.k = "arrow" ->
         LET in == Ev(e.sub[1], toks, I, nextOff, fw) IN
         [now |-> in.now,
          later |-> in.later \o << IF I = {} THEN <<e.name, nextOff, nextOff>>
                                    ELSE <<e.name, toks[Min(I)][2], IF ~fw /\ TrailEmpty(e.sub[1], toks, I) THEN nextOff ELSE toks[Max(I)][3]>> >>]
    [] e.k = "opt" -> IF I = {} THEN None ELSE Ev(e.sub[1], toks, I, nextOff, fw)
    [] e.k = "seq" ->
         LET Ik(k) == { i \in I : toks[i][1] \in Terms(e.sub[k]) }
             Later(k) == UNION { Ik(m) : m \in (k+1)..Len(e.sub) }
             f == [k \in 1..Len(e.sub) |-> Ev(e.sub[k], toks, Ik(k), IF Later(k) = {} THEN nextOff ELSE toks[Min(Later(k))][2], fw)]
         IN ConcatB(f, Len(e.sub))
    [] e.k = "alt" ->
         LET live == { k \in 1..Len(e.sub) : \E i \in I : toks[i][1] \in Terms(e.sub[k]) } IN
         IF live = {} THEN None ELSE LET k == Min(live) IN Ev(e.sub[k], toks, { i \in I : toks[i][1] \in Terms(e.sub[k]) }, nextOff, fw)
    [] e.k = "nt" ->         \* a helper nonterminal: its alternative is reduced on its own, a rule-level node of the alternative comes last
         LET live == { k \in 1..Len(e.sub) : \E i \in I : toks[i][1] \in Terms(e.sub[k]) } IN
         IF live = {} THEN None ELSE
         LET alt == e.sub[Min(live)]
             in == Ev(alt, toks, I, nextOff, fw)
             node == IF alt.name = "" THEN <<>>
                     ELSE << <<alt.name, toks[Min(I)][2], IF ~fw /\ TrailEmpty(alt, toks, I) THEN nextOff ELSE toks[Max(I)][3]>> >>
         IN [now |-> in.now \o in.later \o node, later |-> <<>>]
    [] e.k = "twin" ->       \* (x -> A)+ y (x -> B)+ : two lists over the same element, reported as different nodes
         LET m == Min({ i \in I : toks[i][1] = e.sep - 1 })
             xs == Sorted({ i \in I : toks[i][1] = e.t })
             f == [j \in 1..Len(xs) |-> << <<IF xs[j] < m THEN e.name1 ELSE e.name2, toks[xs[j]][2], toks[xs[j]][3]>> >>]
         IN [now |-> Concat(f, Len(xs)), later |-> <<>>]
    [] e.k = "list" ->
         LET hs == Sorted({ i \in I : toks[i][1] = HeadT(e.sub[1]) })
             It(j) == { i \in I : i >= hs[j] /\ (j = Len(hs) \/ i < hs[j+1]) /\ toks[i][1] \in Terms(e.sub[1]) }
             After(j) == { i \in I : i > Max(It(j)) }
             one(j) == Ev(e.sub[1], toks, It(j), IF After(j) = {} THEN nextOff ELSE toks[Min(After(j))][2], fw)
             f == [j \in 1..Len(hs) |-> one(j).now \o one(j).later]     \* an iteration is a reduction of the list nonterminal
         IN [now |-> Concat(f, Len(hs)), later |-> <<>>]

(* instances: maximal runs starting at a marker *)
Markers(rules) == { rules[r].marker : r \in 1..Len(rules) }
RuleOf(rules, m) == rules[CHOOSE r \in 1..Len(rules) : rules[r].marker = m]
Starts(rules, toks) == Sorted({ i \in 1..Len(toks) : toks[i][1] \in Markers(rules) })
Events(rules, toks, eoi, fw) ==
  LET ss == Starts(rules, toks)
      Inst(j) == { i \in 1..Len(toks) : i >= ss[j] /\ (j = Len(ss) \/ i < ss[j+1]) }
      OffAfter(j) == IF j = Len(ss) THEN eoi ELSE toks[ss[j+1]][2]
      R(j) == RuleOf(rules, toks[ss[j]][1])
      Body(j) == [k |-> "seq", sub |-> <<[k |-> "sym", t |-> R(j).marker]>> \o R(j).elems \o <<[k |-> "sym", t |-> R(j).end]>>]
      f == [j \in 1..Len(ss) |-> LET b == Ev(Body(j), toks, Inst(j), OffAfter(j), fw) IN
                                   b.now \o b.later \o << <<R(j).node, toks[ss[j]][2], toks[Max(Inst(j))][3]>> >>]
  IN Concat(f, Len(ss))
=============================================================================
