---------------------------- MODULE DiagGen ----------------------------
(* every program "report up to three errors, then sort / dedupe / both / dedupe twice" over Diagnostics!Errs *)
EXTENDS Diagnostics, Json, IOUtils, SequencesExt
S1 == { <<a>> : a \in Errs }
S2 == { s \o <<a>> : s \in S1, a \in Errs }
S3 == { s \o <<a>> : s \in S2, a \in Errs }
Tails == { <<"sort">>, <<"dedupe">>, <<"sort", "dedupe">>, <<"dedupe", "dedupe">>, <<"dedupe", "sort">> }
Out == SetToSeq({ [adds |-> s, tail |-> t] : s \in S1 \cup S2 \cup S3, t \in Tails })
ASSUME PrintT(<<"diaggen programs", Len(Out)>>)
ASSUME ndJsonSerialize(IOEnv.VERIF_OUT, Out)
VARIABLE x
GInit == x = 0 /\ list = << >> /\ last = "none"
GNext == UNCHANGED <<x, list, last>>
=============================================================================
