---------------------------- MODULE SugarTrace ----------------------------
(* C13: for every input nonterminal, the plain rules the compiler produced derive exactly the   *)
(* terminal strings (up to length L) that the extended notation denotes.                         *)
(* A case: src (source AST), g = [nT, nS, rules] the expanded rules as dumped from the compiled  *)
(* grammar (rules: [lhs, rhs]), inputs: the symbols to compare, L.                               *)
EXTENDS Sugar, TLC, Json, IOUtils
Cases == ndJsonDeserialize(IOEnv.VERIF_CASES)
VARIABLES blk, ci, st
vars == <<blk, ci, st>>
NBlocks == 64
Init == blk \in 0..(NBlocks-1) /\ ci = 0 /\ st = "block"
Pick == /\ st = "block"
        /\ \E i \in { i \in 1..Len(Cases) : i % NBlocks = blk } : ci' = i
        /\ st' = "recorded" /\ UNCHANGED blk
Validate == st = "recorded" /\ st' = "validated" /\ UNCHANGED <<blk, ci>>
Next == Pick \/ Validate \/ (st = "validated" /\ UNCHANGED vars)
Spec == Init /\ [][Next]_vars
C == Cases[ci]
Rec == st = "recorded"
Compiled == Rec => (C.err = "" \/ C.conflict)
LanguagePreserved ==
  (Rec /\ C.err = "") =>
     LET expanded == LangUpTo(C.g, C.L)
         source == SugarDen(C.src, C.L)
     IN \A k \in 1..Len(C.inputs) : expanded[C.inputs[k]] = source[C.inputs[k]]
=============================================================================
