---------------------------- MODULE BitSetTrace ----------------------------
(* Replay of recorded operation sequences on the real container.BitSet: ops[k] = [op, a (argument), other (for or)], obs[k] = [cap, bits, ret] after it. *)
EXTENDS BitSet, TLC, Json, IOUtils
Cases == ndJsonDeserialize(IOEnv.VERIF_CASES)
VARIABLES blk, ci, st, k
tvars == <<blk, ci, st, k, cap, bits, ret>>
NBlocks == 64
TInit == blk \in 0..(NBlocks-1) /\ ci = 0 /\ st = "block" /\ k = 0 /\ cap = 0 /\ bits = {} /\ ret = -1
C == Cases[ci]
ToSet(s) == { s[i] : i \in 1..Len(s) }
Pick == /\ st = "block"
        /\ \E i \in { i \in 1..Len(Cases) : i % NBlocks = blk } : ci' = i
        /\ st' = "run" /\ New(Cases[ci'].size) /\ UNCHANGED <<blk, k>>
Step == /\ st = "run" /\ k < Len(C.ops)
        /\ LET o == C.ops[k + 1] IN
             CASE o.op = "set" -> Set(o.a)
               [] o.op = "clear" -> Clear(o.a)
               [] o.op = "get" -> Get(o.a)
               [] o.op = "setAll" -> SetAll(o.a)
               [] o.op = "clearAll" -> ClearAll(o.a)
               [] o.op = "complement" -> Complement(o.a)
               [] o.op = "or" -> Or(ToSet(o.other))
               [] o.op = "grow" -> Grow(o.a)
               [] o.op = "nextZero" -> NextZero(o.a)
               [] o.op = "cardinality" -> Count
        /\ k' = k + 1 /\ UNCHANGED <<blk, ci, st>>
TNext == Pick \/ Step \/ (st = "run" /\ k = Len(C.ops) /\ UNCHANGED tvars)
TSpec == TInit /\ [][TNext]_tvars
NoCrash == st = "run" => C.crash = ""
(* every recorded operation is one the specification can take (its precondition holds) *)
Enabled == (st = "run" /\ k < Len(C.ops) /\ C.crash = "") => ENABLED Step
StateConforms == (st = "run" /\ k > 0 /\ C.crash = "") => (C.obs[k].cap = cap /\ ToSet(C.obs[k].bits) = bits /\ C.obs[k].ret = ret)
=============================================================================
