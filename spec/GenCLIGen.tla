---------------------------- MODULE GenCLIGen ----------------------------
(* every history of up to three commands/edits over the first, a middle and the last generated file, and every history of four that ends in -diff *)
EXTENDS Integers, Sequences, FiniteSets, TLC, Json, IOUtils, SequencesExt
Touched == {1, 2, 4}
Ops == { [op |-> "write", f |-> 0], [op |-> "diff", f |-> 0] } \cup { [op |-> o, f |-> f] : o \in {"edit", "delete"}, f \in Touched }
H1 == { <<a>> : a \in Ops }
H2 == { h \o <<a>> : h \in H1, a \in Ops }
H3 == { h \o <<a>> : h \in H2, a \in Ops }
H4 == { h \o << [op |-> "diff", f |-> 0] >> : h \in H3 }
Out == SetToSeq({ [steps |-> h] : h \in H1 \cup H2 \cup H3 \cup H4 })
ASSUME PrintT(<<"gencligen histories", Len(Out)>>)
ASSUME ndJsonSerialize(IOEnv.VERIF_OUT, Out)
VARIABLE x
Init == x = 0
Next == UNCHANGED x
=============================================================================
