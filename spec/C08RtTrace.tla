---------------------------- MODULE C08RtTrace ----------------------------
(* C08 run-time layer: parsers generated (cancellable and not) for accepted sets of lookahead            *)
(* alternatives, run on all 8 outcomes of the three predicates; chosen[a + 1] is the alternative whose     *)
(* node was reported for the assignment with bit j-1 of a = (input j matches).                            *)
EXTENDS Lookaheads, TLC, Json, IOUtils
Cases == ndJsonDeserialize(IOEnv.VERIF_CASES)
VARIABLES blk, ci, st
vars == <<blk, ci, st>>
NBlocks == 64
Init == blk \in 0..(NBlocks-1) /\ ci = 0 /\ st = "block"
Pick == /\ st = "block"
        /\ \E i \in { i \in 1..Len(Cases) : i % NBlocks = blk } : ci' = i
        /\ st' = "recorded" /\ UNCHANGED blk
Validate == st = "recorded" /\ st' = "validated" /\ UNCHANGED <<blk, ci>>
Next == Pick \/ Validate \/ (st = "validated" /\ UNCHANGED vars)
Spec == Init /\ [][Next]_vars
C == Cases[ci]
Rec == st = "recorded"
Bit(a, j) == (a \div (IF j = 1 THEN 1 ELSE IF j = 2 THEN 2 ELSE 4)) % 2 = 1
Asg(a) == [j \in 1..3 |-> Bit(a, j)]
(* a set the table constructor accepted generates and builds *)
Generates == Rec => C.genErr = ""
(* the generated decision procedure selects the alternative whose predicates hold *)
RuntimeSelects == (Rec /\ C.genErr = "") => \A a \in 0..7 :
   LET sat == Satisfied(C.alts, Asg(a)) IN
   Cardinality(sat) = 1 => (C.errs[a + 1] = "" /\ C.chosen[a + 1] = CHOOSE i \in sat : TRUE)
=============================================================================
