---------------------------- MODULE C08RtTrace ----------------------------
(* C08 run-time layer: parsers generated (cancellable and not) for accepted sets of lookahead            *)
(* alternatives, run on all 8 outcomes of the three predicates; chosen[a + 1] is the alternative whose     *)
(* node was reported for the assignment with bit j-1 of a = (input j matches).                            *)
EXTENDS Lookaheads, TLC, Json, IOUtils
Cases == ndJsonDeserialize(IOEnv.VERIF_CASES)
VARIABLES blk, ci, st
vars == <<blk, ci, st>>
NBlocks == 64
Init == blk \in 0..(NBlocks-1) /\ ci = 0 /\ st = "block"
Pick == /\ st = "block"
        /\ \E i \in { i \in 1..Len(Cases) : i % NBlocks = blk } : ci' = i
        /\ st' = "recorded" /\ UNCHANGED blk
Validate == st = "recorded" /\ st' = "validated" /\ UNCHANGED <<blk, ci>>
Next == Pick \/ Validate \/ (st = "validated" /\ UNCHANGED vars)
Spec == Init /\ [][Next]_vars
C == Cases[ci]
Rec == st = "recorded"
Bit(a, j) == (a \div (IF j = 1 THEN 1 ELSE IF j = 2 THEN 2 ELSE 4)) % 2 = 1
Asg(a) == [j \in 1..3 |-> Bit(a, j)]
(* a set the table constructor accepted generates and builds *)
Generates == Rec => C.genErr = ""
(* the generated decision procedure selects the alternative whose predicates hold *)
(* Alternatives may start with different terminals (leads[i], nlead of them): on the text with leading terminal l and outcome a, *)
(* the alternatives in question are those that can start with l.                                                                *)
RuntimeSelects == (Rec /\ C.genErr = "" /\ C.many = 0) => \A l \in 1..C.nlead, a \in 0..7 :
   LET sat == { i \in Satisfied(C.alts, Asg(a)) : \E m \in 1..Len(C.leads[i]) : C.leads[i][m] = l }
       e == (l - 1) * 8 + a + 1 IN
   Cardinality(sat) = 1 => (C.errs[e] = "" /\ C.chosen[e] = CHOOSE i \in sat : TRUE)
(* many pairs (?= Qj) / (?= !Qj) in one grammar: text 2j-1 selects the yes branch of pair j (alternative 2j-1), text 2j its no   *)
(* branch (alternative 2j), however many lookahead nonterminals the grammar has                                                  *)
ManySelects == (Rec /\ C.genErr = "" /\ C.many > 0) => \A e \in 1..(2 * C.many) : C.errs[e] = "" /\ C.chosen[e] = e
=============================================================================
