---------------------------- MODULE Mutate ----------------------------
(* C22: compiling any grammar text is a terminating step with one of two outcomes - Ok, or  *)
(* Errors(list) whose ranges lie inside the text with line and column consistent with the     *)
(* byte offset.  The recorder observes each compilation in a sub-process, so process exits    *)
(* (log.Fatal), panics and time-outs appear as outcomes "crash" / "hang", for which the        *)
(* specification has no action: the trace is rejected (deadlock) at that step.                 *)
EXTENDS Integers, Sequences, FiniteSets, TLC, Json, IOUtils

Cases == ndJsonDeserialize(IOEnv.VERIF_CASES)

VARIABLES blk, ci, st
vars == <<blk, ci, st>>
NBlocks == 64
Init == blk \in 0..(NBlocks-1) /\ ci = 0 /\ st = "block"
Pick == /\ st = "block"
        /\ \E i \in { i \in 1..Len(Cases) : i % NBlocks = blk } : ci' = i
        /\ st' = "submitted" /\ UNCHANGED blk
C == Cases[ci]
(* line of an offset: the number of line starts <= off; column: bytes since that line start, 1-based *)
LineOf(c, off) == Cardinality({ k \in 1..Len(c.lineStarts) : c.lineStarts[k] <= off })
ColOf(c, off) == off - c.lineStarts[LineOf(c, off)] + 1
ErrOK(c, e) == /\ 0 <= e.off /\ e.off <= e.end /\ e.end <= c.len
               /\ e.line = LineOf(c, e.off)
               /\ (e.col # -1 => e.col = ColOf(c, e.off))      \* the tm parser's syntax errors carry no column
CompileOk == st = "submitted" /\ C.outcome = "ok" /\ st' = "done" /\ UNCHANGED <<blk, ci>>
CompileErrors == st = "submitted" /\ C.outcome = "errors" /\ Len(C.errs) > 0 /\ st' = "done" /\ UNCHANGED <<blk, ci>>
Next == Pick \/ CompileOk \/ CompileErrors \/ (st = "done" /\ UNCHANGED vars)
Spec == Init /\ [][Next]_vars
(* a crash or a hang has no transition; stated over ENABLED so that TLC reports it for every case under -continue *)
Terminates == st = "submitted" => ENABLED (CompileOk \/ CompileErrors)
DiagnosticsInRange == st = "done" => \A k \in 1..Len(C.errs) : ErrOK(C, C.errs[k])
=============================================================================
