---------------------------- MODULE Diagnostics ----------------------------
(* The diagnostic list every compiler phase reports into (package status): a sequence of errors   *)
(* with an origin (file, offset, line) and a message.  Add / AddError append (a nested status is   *)
(* flattened), Sort orders by (file, offset, message), Dedupe sorts and keeps the first error of    *)
(* every (file, line) - errors without a file are all kept.  Files and messages are small numbers    *)
(* (0 = no file) that the harness renders as strings with the same order.                           *)
EXTENDS Integers, Sequences, FiniteSets, TLC
Files == 0..1
Offsets == 0..3
Msgs == 1..2
LineOf(off) == off \div 2 + 1
Errs == [file : Files, off : Offsets, msg : Msgs]
Less(a, b) == \/ a.file < b.file
              \/ a.file = b.file /\ a.off < b.off
              \/ a.file = b.file /\ a.off = b.off /\ a.msg < b.msg
Sorted(s) == SortSeq(s, Less)
KeepIdx(t) == { i \in 1..Len(t) : \/ t[i].file = 0
                                  \/ i = 1
                                  \/ t[i-1].file # t[i].file
                                  \/ LineOf(t[i-1].off) # LineOf(t[i].off) }
Deduped(s) == LET t == Sorted(s) IN LET F[i \in 0..Len(t)] == IF i = 0 THEN << >> ELSE IF i \in KeepIdx(t) THEN Append(F[i-1], t[i]) ELSE F[i-1] IN F[Len(t)]

(* the state machine *)
VARIABLES list, last
vars == <<list, last>>
MaxLen == 3
Init == list = << >> /\ last = "none"
Add(e) == Len(list) < MaxLen /\ list' = Append(list, e) /\ last' = "add"
AddStatus(s) == Len(list) + Len(s) <= MaxLen /\ list' = list \o s /\ last' = "add"
Sort == list' = Sorted(list) /\ last' = "sort"
Dedupe == list' = Deduped(list) /\ last' = "dedupe"
Next == \/ \E e \in Errs : Add(e)
        \/ \E a, b \in Errs : AddStatus(<<a, b>>)
        \/ Sort \/ Dedupe
Spec == Init /\ [][Next]_vars
(* design properties *)
IsSorted(s) == \A i \in 1..(Len(s) - 1) : ~Less(s[i+1], s[i])
Bag(s) == [e \in Errs |-> Cardinality({ i \in 1..Len(s) : s[i] = e })]
SortIsPermutation == [][Sort => (Bag(list') = Bag(list) /\ IsSorted(list'))]_vars
DedupeKeepsOnePerLine == [][Dedupe =>
    /\ IsSorted(list')
    /\ \A i, j \in 1..Len(list') : (i # j /\ list'[i].file # 0 /\ list'[i].file = list'[j].file) => LineOf(list'[i].off) # LineOf(list'[j].off)
    /\ \A e \in Errs : Bag(list)[e] > 0 =>
         \E k \in 1..Len(list') : list'[k].file = e.file /\ (e.file = 0 => list'[k] = e) /\ (e.file # 0 => (LineOf(list'[k].off) = LineOf(e.off) /\ ~Less(e, list'[k])))
    /\ \A e \in Errs : e.file = 0 => Bag(list')[e] = Bag(list)[e]
    /\ \A k \in 1..Len(list') : Bag(list)[list'[k]] > 0]_vars
DedupeIdempotent == [][Dedupe => Deduped(list') = list']_vars
=============================================================================
