---------------------------- MODULE Graphs ----------------------------
(* Directed graphs as util/graph sees them: a sequence of adjacency lists over vertices    *)
(* 0..n-1 (TLA+ index v+1 holds the successors of vertex v).  Definitions only - the       *)
(* declarative meaning of components, closure, transposition and longest paths.            *)
EXTENDS Integers, Sequences, FiniteSets

V(g) == 0..(Len(g) - 1)
Succ(g, v) == { g[v+1][i] : i \in 1..Len(g[v+1]) }
Edge(g, u, v) == v \in Succ(g, u)
WellFormedGraph(g) == \A v \in V(g) : Succ(g, v) \subseteq V(g)

RECURSIVE ReachFix(_, _)
ReachFix(g, R) ==
  LET R2 == [v \in V(g) |-> R[v] \cup UNION { R[w] : w \in R[v] }]
  IN IF R2 = R THEN R ELSE ReachFix(g, R2)
Reach(g) == ReachFix(g, [v \in V(g) |-> Succ(g, v)])      \* reachable by a path of length >= 1

Cyclic(g) == LET R == Reach(g) IN \E v \in V(g) : v \in R[v]
SCCOf(R, v) == {v} \cup { w \in R[v] : v \in R[w] }
SCCs(g) == LET R == Reach(g) IN { SCCOf(R, v) : v \in V(g) }

(* Longest path in an acyclic graph, counted in vertices. *)
RECURSIVE Height(_, _)
Height(g, v) == LET hs == { Height(g, w) : w \in Succ(g, v) }
                IN 1 + (IF hs = {} THEN 0 ELSE CHOOSE h \in hs : \A k \in hs : k <= h)
MaxHeight(g) == LET hs == { Height(g, v) : v \in V(g) } IN CHOOSE h \in hs : \A k \in hs : k <= h

IsPath(g, p) == /\ \A i \in 1..Len(p) : p[i] \in V(g)
                /\ \A i \in 1..(Len(p) - 1) : Edge(g, p[i], p[i+1])
=============================================================================
