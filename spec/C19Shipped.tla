---------------------------- MODULE C19Shipped ----------------------------
(* C19 on the shipped recovering parsers (tm, js): every recorded parse of a valid, mutated or broken input  *)
(* returned (no panic, no hang - those are recorded in 'crash'), and the syntax errors reported to the handler *)
(* have non-decreasing offsets inside the input.                                                              *)
EXTENDS Integers, Sequences, TLC, Json, IOUtils
Cases == ndJsonDeserialize(IOEnv.VERIF_CASES)
VARIABLES blk, ci, st
vars == <<blk, ci, st>>
NBlocks == 64
Init == blk \in 0..(NBlocks-1) /\ ci = 0 /\ st = "block"
Pick == /\ st = "block"
        /\ \E i \in { i \in 1..Len(Cases) : i % NBlocks = blk } : ci' = i
        /\ st' = "recorded" /\ UNCHANGED blk
Validate == st = "recorded" /\ st' = "validated" /\ UNCHANGED <<blk, ci>>
Next == Pick \/ Validate \/ (st = "validated" /\ UNCHANGED vars)
Spec == Init /\ [][Next]_vars
C == Cases[ci]
Rec == st = "recorded"
Terminates == Rec => C.crash = ""
ErrorsOrdered == (Rec /\ C.crash = "") =>
   /\ \A i \in 1..Len(C.errs) : 0 <= C.errs[i][1] /\ C.errs[i][1] <= C.errs[i][2] /\ C.errs[i][2] <= C.len
   /\ \A i \in 1..(Len(C.errs) - 1) : C.errs[i][1] <= C.errs[i+1][1]
=============================================================================
