---------------------------- MODULE ParseTrace ----------------------------
(* C01 run-time layer: lock-step tree validation of generated parsers.                      *)
(* A case is a grammar (Grammar.tla numbering) plus the recorded behaviour tree of its       *)
(* generated Go parser: runs[input][rank] = <<accepted, errOffset, errEndoffset>> for every   *)
(* token string of length <= L over alph, ranked length-lexicographically; tokens are single  *)
(* letters followed by one space, so token i starts at byte 2i and end of input is 2n.        *)
(* TLC walks the tree of token strings; the state carries the incremental Earley chart (the   *)
(* oracle - never the LALR construction) and compares at every node.                          *)
EXTENDS LR, TLC, Json, IOUtils

Cases == ndJsonDeserialize(IOEnv.VERIF_CASES)

Pow(b, e) == IF e = 0 THEN 1 ELSE LET RECURSIVE P(_) P(k) == IF k = 0 THEN 1 ELSE b * P(k - 1) IN P(e)
LevelStart(m, len) == IF m = 1 THEN len ELSE (Pow(m, len) - 1) \div (m - 1)
IdxIn(alph, t) == (CHOOSE i \in 1..Len(alph) : alph[i] = t) - 1

InScope(c) == /\ c.genErr = "" /\ c.ran
              /\ Len(c.prec) = 0 /\ Len(c.lookaheads) = 0
              /\ Reduced(c)
              /\ \A i, j \in 1..NIn(c) : i # j => c.inputs[i].nt # c.inputs[j].nt

VARIABLES ci, ent, w, lexr, chart, dead, acc, conf, den
vars == <<ci, ent, w, lexr, chart, dead, acc, conf, den>>

C == Cases[ci]
Start(c, e) == c.inputs[e].nt

Init == /\ ci \in 1..Len(Cases)
        /\ ent \in 1..Len(Cases[ci].inputs)
        /\ w = <<>> /\ lexr = 0 /\ dead = -1
        /\ IF InScope(Cases[ci])
           THEN LET c == Cases[ci] nl == NullableSet(c) ch == EarleyInit(c, Start(c, ent), nl) IN
                /\ chart = ch
                /\ acc = EarleyAccepts(ch)
                /\ conf = Conflated(c, Analyse(c))
                /\ den = IF c.cfg.events /\ c.inputs[ent].eoi THEN Den(c, c.L)[Start(c, ent)] ELSE {}
           ELSE chart = <<>> /\ acc = FALSE /\ conf = FALSE /\ den = {}

Extend(t) ==
  /\ InScope(C) /\ Len(w) < C.L
  /\ w' = Append(w, t)
  /\ lexr' = lexr * Len(C.alph) + IdxIn(C.alph, t)
  /\ IF dead >= 0 THEN UNCHANGED <<chart, dead, acc>>
     ELSE LET ch == EarleyStep(C, Start(C, ent), NullableSet(C), chart, t) IN
          /\ chart' = ch
          /\ dead' = IF ch[Len(ch)] = {} THEN Len(w) ELSE -1
          /\ acc' = (acc \/ EarleyAccepts(ch))
  /\ UNCHANGED <<ci, ent, conf, den>>
Next == \E k \in 1..Len(C.alph) : Extend(C.alph[k])
Spec == Init /\ [][Next]_vars

Recorded == C.runs[ent][LevelStart(Len(C.alph), Len(w)) + lexr + 1]

ErrAt(i) == <<0, 2 * i, 2 * i + (IF i < Len(w) THEN 1 ELSE 0)>>      \* token i, or end of input when i = Len(w)
Accept == <<1, -1, -1>>
Expected ==
  IF C.inputs[ent].eoi
  THEN IF dead >= 0 THEN ErrAt(dead)
       ELSE IF EarleyAccepts(chart) THEN Accept ELSE ErrAt(Len(w))
  ELSE IF acc THEN Accept                                   \* begins with a sentence
       ELSE IF dead >= 0 THEN ErrAt(dead) ELSE ErrAt(Len(w))

(* C02: on a sentence of an eoi input the listener sees exactly the post-order list of the rules of the unique
   derivation, each with the range the documented rule assigns.  Rule r reports node type R<r>; types are numbered
   1.. in name order, so type = r (1-based rule). *)
RecordedEvents == C.ev[ent][LevelStart(Len(C.alph), Len(w)) + lexr + 1]
Phrases == { p \in den : p.w = w }
Flat(ev) == [k \in 1..(3 * Len(ev)) |-> ev[((k - 1) \div 3) + 1][((k - 1) % 3) + 1]]
EventsConform ==
  (InScope(C) /\ ~conf /\ C.cfg.events /\ C.inputs[ent].eoi /\ Cardinality(Phrases) = 1) =>
     RecordedEvents = Flat((CHOOSE p \in Phrases : TRUE).ev)
(* the generator produced a parser that builds, unless it reported a conflict *)
Generates == C.genErr = "" \/ C.conflict
NoCrash == C.ran => Len(C.bad) = 0
VerdictConforms == (InScope(C) /\ ~conf) => Recorded = Expected
(* C07: with lalr(k) the parser may report an error before the offending token (the lookahead is read ahead),
   so only the verdict is compared *)
AcceptConforms == (InScope(C) /\ ~conf) => Recorded[1] = Expected[1]
(* known finding 9: where Textmapper conflates a final state with an inner state *)
VerdictConformsConflated == (InScope(C) /\ conf) => Recorded = Expected
=============================================================================
