---------------------------- MODULE ParseTrace ----------------------------
(* C01 run-time layer: lock-step tree validation of generated parsers.                      *)
(* A case is a grammar (Grammar.tla numbering) plus the recorded behaviour tree of its       *)
(* generated Go parser: runs[input][rank] = <<accepted, errOffset, errEndoffset>> for every   *)
(* token string of length <= L over alph, ranked length-lexicographically; tokens are single  *)
(* letters followed by one space, so token i starts at byte 2i and end of input is 2n.        *)
(* TLC walks the tree of token strings; the state carries the incremental Earley chart (the   *)
(* oracle - never the LALR construction) and compares at every node.                          *)
EXTENDS LR, TLC, Json, IOUtils

Cases == ndJsonDeserialize(IOEnv.VERIF_CASES)

Pow(b, e) == IF e = 0 THEN 1 ELSE LET RECURSIVE P(_) P(k) == IF k = 0 THEN 1 ELSE b * P(k - 1) IN P(e)
LevelStart(m, len) == IF m = 1 THEN len ELSE (Pow(m, len) - 1) \div (m - 1)
IdxIn(alph, t) == (CHOOSE i \in 1..Len(alph) : alph[i] = t) - 1

(* C19: the grammar without its error-recovery rules (those mentioning the 'error' terminal) *)
HasErr(r, t) == \E i \in 1..Len(r.rhs) : r.rhs[i] = t
EG(c) == IF c.errTerm > 0 THEN [c EXCEPT !.rules = SelectSeq(c.rules, LAMBDA r : ~HasErr(r, c.errTerm))] ELSE c
Plain(c) == c.errTerm = 0

InScope(c) == /\ c.genErr = "" /\ c.ran
              /\ Len(c.prec) = 0 /\ Len(c.lookaheads) = 0
              /\ Reduced(c)
              /\ \A i, j \in 1..NIn(c) : i # j => c.inputs[i].nt # c.inputs[j].nt

VARIABLES ci, ent, w, lexr, chart, dead, acc, conf, den
vars == <<ci, ent, w, lexr, chart, dead, acc, conf, den>>

C == Cases[ci]
Start(c, e) == c.inputs[e].nt

Init == /\ ci \in 1..Len(Cases)
        /\ ent \in 1..Len(Cases[ci].inputs)
        /\ w = <<>> /\ lexr = 0 /\ dead = -1
        /\ IF Cases[ci].genErr = "" /\ Cases[ci].ran
           THEN LET c == Cases[ci] nl == NullableSet(EG(c)) ch == EarleyInit(EG(c), Start(c, ent), nl) IN
                /\ chart = ch
                /\ acc = EarleyAccepts(ch)
                /\ conf = (Plain(c) /\ InScope(c) /\ Conflated(c, Analyse(c)))
                /\ den = IF c.cfg.events /\ c.inputs[ent].eoi /\ Plain(c) /\ InScope(c) THEN Den(c, c.L)[Start(c, ent)] ELSE {}
           ELSE chart = <<>> /\ acc = FALSE /\ conf = FALSE /\ den = {}

Extend(t) ==
  /\ C.genErr = "" /\ C.ran /\ Len(w) < C.L /\ (InScope(C) \/ C.errTerm > 0)
  /\ w' = Append(w, t)
  /\ lexr' = lexr * Len(C.alph) + IdxIn(C.alph, t)
  /\ IF dead >= 0 THEN UNCHANGED <<chart, dead, acc>>
     ELSE LET ch == EarleyStep(EG(C), Start(C, ent), NullableSet(EG(C)), chart, t) IN
          /\ chart' = ch
          /\ dead' = IF ch[Len(ch)] = {} THEN Len(w) ELSE -1
          /\ acc' = (acc \/ EarleyAccepts(ch))
  /\ UNCHANGED <<ci, ent, conf, den>>
Next == \E k \in 1..Len(C.alph) : Extend(C.alph[k])
Spec == Init /\ [][Next]_vars

Recorded == C.runs[ent][LevelStart(Len(C.alph), Len(w)) + lexr + 1]

ErrAt(i) == <<0, 2 * i, 2 * i + (IF i < Len(w) THEN 1 ELSE 0)>>      \* token i, or end of input when i = Len(w)
Accept == <<1, -1, -1>>
Expected ==
  IF C.inputs[ent].eoi
  THEN IF dead >= 0 THEN ErrAt(dead)
       ELSE IF EarleyAccepts(chart) THEN Accept ELSE ErrAt(Len(w))
  ELSE IF acc THEN Accept                                   \* begins with a sentence
       ELSE IF dead >= 0 THEN ErrAt(dead) ELSE ErrAt(Len(w))

(* C02: on a sentence of an eoi input the listener sees exactly the post-order list of the rules of the unique
   derivation, each with the range the documented rule assigns.  Rule r reports node type R<r>; types are numbered
   1.. in name order, so type = r (1-based rule). *)
RecordedEvents == C.ev[ent][LevelStart(Len(C.alph), Len(w)) + lexr + 1]
Phrases == { p \in den : p.w = w }
Flat(ev) == [k \in 1..(3 * Len(ev)) |-> ev[((k - 1) \div 3) + 1][((k - 1) % 3) + 1]]
EventsConform ==
  (InScope(C) /\ Plain(C) /\ ~conf /\ C.cfg.events /\ C.inputs[ent].eoi /\ Cardinality(Phrases) = 1) =>
     RecordedEvents = Flat((CHOOSE p \in Phrases : TRUE).ev)
(* C19: error recovery.  er[input][rank]: the (offset, endoffset) pairs passed to the error handler; baseEv: the
   listener calls of the same grammar generated WITHOUT its recovery rules, for the same string. *)
Rank == LevelStart(Len(C.alph), Len(w)) + lexr + 1
Recovering(c) == c.errTerm > 0 /\ c.genErr = "" /\ c.ran /\ c.hasBase
Errs == C.er[ent][Rank]
IsSentence == IF C.inputs[ent].eoi THEN dead < 0 /\ EarleyAccepts(chart) ELSE acc
(* on sentences of the language: no error is reported and events and result equal the non-recovering parser's *)
RecoveryTransparent ==
  (Recovering(C) /\ InScope(C) /\ C.inputs[ent].eoi /\ IsSentence) =>
     /\ Recorded = Accept
     /\ Len(Errs) = 0
     /\ RecordedEvents = C.baseEv[ent][Rank]
(* errors are reported with non-decreasing offsets inside the input (tokens 'x ' : the text has 2n bytes) *)
ErrorsMonotoneInside ==
  Recovering(C) =>
     /\ Len(Errs) % 2 = 0
     /\ \A k \in 1..(Len(Errs) \div 2) :
           /\ 0 <= Errs[2*k - 1] /\ Errs[2*k - 1] <= Errs[2*k] /\ Errs[2*k] <= 2 * Len(w)
           /\ (k > 1 => Errs[2*k - 3] <= Errs[2*k - 1])
     /\ (Recorded[1] = 0 => (0 <= Recorded[2] /\ Recorded[2] <= Recorded[3] /\ Recorded[3] <= 2 * Len(w)))
(* a non-sentence is never accepted silently: either an error was reported or the parse fails *)
NonSentenceReported ==
  (Recovering(C) /\ InScope(C) /\ C.inputs[ent].eoi /\ ~IsSentence) => (Recorded[1] = 0 \/ Len(Errs) > 0)
(* the generator produced a parser that builds, unless it reported a conflict *)
Generates == C.genErr = "" \/ C.conflict
NoCrash == C.ran => Len(C.bad) = 0
VerdictConforms == (InScope(C) /\ Plain(C) /\ ~conf) => Recorded = Expected
(* C07: with lalr(k) the parser may report an error before the offending token (the lookahead is read ahead),
   so only the verdict is compared *)
AcceptConforms == (InScope(C) /\ Plain(C) /\ ~conf) => Recorded[1] = Expected[1]
(* known finding 9: where Textmapper conflates a final state with an inner state *)
VerdictConformsConflated == (InScope(C) /\ conf) => Recorded = Expected
=============================================================================
