---------------------------- MODULE C17Trace ----------------------------
(* Generation pipeline per configuration: Compile, then either Rejected (the compiler reports  *)
(* errors: outside the property's quantifier) or Write f1 .. Write fn followed by Build ok.     *)
(* A panic, a generator error, or a package that does not build has no transition.              *)
EXTENDS Integers, Sequences, FiniteSets, TLC, Json, IOUtils
Cases == ndJsonDeserialize(IOEnv.VERIF_CASES)
VARIABLES blk, ci, st
vars == <<blk, ci, st>>
NBlocks == 64
Init == blk \in 0..(NBlocks-1) /\ ci = 0 /\ st = "block"
Pick == /\ st = "block"
        /\ \E i \in { i \in 1..Len(Cases) : i % NBlocks = blk } : ci' = i
        /\ st' = "compiling" /\ UNCHANGED blk
C == Cases[ci]
Rejected == st = "compiling" /\ C.outcome = "rejected" /\ st' = "rejected" /\ UNCHANGED <<blk, ci>>
Generated == st = "compiling" /\ C.outcome = "generated" /\ Len(C.files) > 0 /\ st' = "written" /\ UNCHANGED <<blk, ci>>
Build == st = "written" /\ C.built /\ st' = "built" /\ UNCHANGED <<blk, ci>>
Next == Pick \/ Rejected \/ Generated \/ Build \/ (st \in {"rejected", "built"} /\ UNCHANGED vars)
Spec == Init /\ [][Next]_vars
(* A configuration that was neither rejected nor generated-and-built has no transition. TLC reports only some deadlocks under      *)
(* -continue, so the missing transition is stated as an invariant over ENABLED, which is reported for every case.                 *)
Accepted == (st = "compiling" => ENABLED (Rejected \/ Generated)) /\ (st = "written" => ENABLED Build)
HasFile(f) == \E k \in 1..Len(C.files) : C.files[k] = f
OptIs(name, dflt) == IF name \in DOMAIN C.opts THEN C.opts[name] ELSE dflt
(* the file set: a lexer always; parser files iff a parser is generated *)
FileSet == st = "built" =>
   /\ HasFile("lexer.go") /\ HasFile("lexer_tables.go") /\ HasFile("token/token.go")
   /\ (C.base \notin {"lexeronly", "biglexer"} /\ OptIs("genParser", TRUE)) => (HasFile("parser.go") /\ HasFile("parser_tables.go"))
=============================================================================
