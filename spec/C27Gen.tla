---------------------------- MODULE C27Gen ----------------------------
(* All pairs of texts of 1..MaxLines lines over NLines distinct lines. *)
EXTENDS Integers, Sequences, FiniteSets, TLC, Json, IOUtils, SequencesExt
MaxLines == atoi(IOEnv.VERIF_C27_MAXLINES)
NLines == atoi(IOEnv.VERIF_C27_ALPHA)
Texts == UNION { [1..k -> 0..(NLines-1)] : k \in 1..MaxLines }
Out == LET ps == SetToSeq(Texts \X Texts) IN [i \in 1..Len(ps) |-> [a |-> ps[i][1], b |-> ps[i][2]]]
ASSUME PrintT(<<"c27gen cases", Len(Out)>>)
ASSUME ndJsonSerialize(IOEnv.VERIF_OUT, Out)
VARIABLE x
Init == x = 0
Next == UNCHANGED x
=============================================================================
