---------------------------- MODULE LSTrace ----------------------------
(* C23 validation of recorded sessions with the real 'textmapper ls' process (JSON-RPC over stdio).       *)
(* A case: ops (what the client sent, in order, with versions/ids/positions), recv (every diagnostics        *)
(* notification and response, in the order received, each with 'after' = the number of ops sent before it), *)
(* T (content tables, see LSCore), crashed / timeout / ran.                                                  *)
(* By LS.tla (TLC: DiagOrder, DefLatest, IdleComplete) a session of the sequential handler chain produces    *)
(* exactly the diagnostics of ExpDiags(ops) in that order, and one response per request computed from        *)
(* LatestBefore; responses may be overtaken by later diagnostics (LS!TotalOrder is not a property).          *)
EXTENDS LSCore, TLC, Json, IOUtils
Cases == ndJsonDeserialize(IOEnv.VERIF_CASES)
VARIABLES blk, ci, st
vars == <<blk, ci, st>>
NBlocks == 64
Init == blk \in 0..(NBlocks-1) /\ ci = 0 /\ st = "block"
Pick == /\ st = "block"
        /\ \E i \in { i \in 1..Len(Cases) : i % NBlocks = blk } : ci' = i
        /\ st' = "recorded" /\ UNCHANGED blk
Validate == st = "recorded" /\ st' = "validated" /\ UNCHANGED <<blk, ci>>
Next == Pick \/ Validate \/ (st = "validated" /\ UNCHANGED vars)
Spec == Init /\ [][Next]_vars
C == Cases[ci]
Rec == st = "recorded"
Ran == Rec /\ C.ran

D == SelectSeq(C.recv, LAMBDA m : m.t = "diag")
R == SelectSeq(C.recv, LAMBDA m : m.t = "reply")
E == ExpDiags(C.ops)
EditIdx == SelectSeq([i \in 1..Len(C.ops) |-> i], LAMBDA i : IsEdit(C.ops[i]))
Defs == { k \in 1..Len(C.ops) : C.ops[k].k = "def" }

(* the server survives every history *)
NoCrash == Rec => ~C.crashed
(* every edit is diagnosed, every request answered exactly once, nothing else is sent *)
AllAnswered == (Rec /\ ~C.crashed) =>
   /\ ~C.timeout
   /\ Len(D) = Len(E)
   /\ \A k \in Defs : Cardinality({ i \in 1..Len(R) : R[i].id = C.ops[k].id }) = 1
   /\ \A i \in 1..Len(R) : \E k \in Defs : R[i].id = C.ops[k].id
(* diagnostics arrive in request order with the version of their edit *)
DiagsInOrder == (Rec /\ ~C.crashed) =>
   /\ Len(D) <= Len(E)
   /\ \A i \in 1..Len(D) : D[i].u = E[i].u /\ D[i].v = E[i].v
(* nothing is answered before it was asked *)
Causal == Ran =>
   /\ \A i \in 1..Len(D) : i <= Len(E) => D[i].after >= EditIdx[i]
   /\ \A i \in 1..Len(R) : \A k \in Defs : R[i].id = C.ops[k].id => R[i].after >= k
(* the diagnostics are those of the content of that version, at the UTF-16 position of each error, inside the document *)
DiagContent == Ran => \A i \in 1..Len(D) : i <= Len(E) =>
   LET T == C.T[E[i].c] IN
   /\ Len(D[i].locs) = Len(T.diags)
   /\ \A j \in 1..Len(D[i].locs) : j <= Len(T.diags) =>
        LET l == D[i].locs[j] IN
        /\ D[i].msgs[j] = T.diags[j].msg
        /\ l.sl = T.diags[j].line /\ l.sc = T.diags[j].ch
        /\ InsideDoc(T, l.sl, l.sc) /\ InsideDoc(T, l.el, l.ec)
        /\ (l.el > l.sl \/ (l.el = l.sl /\ l.ec >= l.sc))
(* go-to-definition answers from the latest content, with the locations (in UTF-16 units) of identifiers bearing the name under the cursor *)
DefinitionOK == Ran => \A i \in 1..Len(R) : \A k \in Defs : R[i].id = C.ops[k].id =>
   LET op == C.ops[k]
       c == LatestBefore(C.ops, k, op.u)
       r == R[i]
       cancelled == \E j \in 1..Len(C.ops) : C.ops[j].k = "cancel" /\ C.ops[j].id = op.id
   IN IF cancelled /\ r.err THEN TRUE                   \* a cancelled request may be answered with an error
      ELSE IF c = 0 THEN r.err \/ Len(r.locs) = 0          \* not open: nothing to answer from
      ELSE LET T == C.T[c] IN
           ValidPos(T, op.line, op.ch) =>
             LET under == IdsAt(T, op.line, op.ch)
                 names == { T.ids[x].name : x \in under }
             IN /\ ~r.err
                /\ \A j \in 1..Len(r.locs) : r.locs[j].u = op.u /\ \E x \in 1..Len(T.ids) : T.ids[x].name \in names /\ LocIsId(r.locs[j], T.ids[x])
                /\ (\E x \in under : T.ids[x].nav) => Len(r.locs) > 0
=============================================================================
