---------------------------- MODULE C28Trace ----------------------------
(* Recorded ident.Produce results (kind "name": ids per style) and compiler verdicts for     *)
(* grammars declaring two symbols (kind "pair": role of each symbol, the identifiers they      *)
(* would receive, compile error flag, identifiers in the compiled grammar).                    *)
EXTENDS Ident, TLC, Json, IOUtils
Cases == ndJsonDeserialize(IOEnv.VERIF_CASES)
VARIABLES blk, ci, st
vars == <<blk, ci, st>>
NBlocks == 64
Init == blk \in 0..(NBlocks-1) /\ ci = 0 /\ st = "block"
Pick == /\ st = "block"
        /\ \E i \in { i \in 1..Len(Cases) : i % NBlocks = blk } : ci' = i
        /\ st' = "recorded" /\ UNCHANGED blk
Validate == st = "recorded" /\ st' = "validated" /\ UNCHANGED <<blk, ci>>
Next == Pick \/ Validate \/ (st = "validated" /\ UNCHANGED vars)
Spec == Init /\ [][Next]_vars
C == Cases[ci]
Rec == st = "recorded"
Styles == <<"CamelCase", "CamelLower", "UpperCase", "UpperUnderscores">>
IdentifiersValid ==
  (Rec /\ C.kind = "name") => \A k \in 1..4 : ValidIdent(C.ids[k]) /\ StyleOK(C.ids[k], Styles[k])
(* two distinct symbols that would receive the same identifier => the compiler reports an error *)
CollisionsReported ==
  (Rec /\ C.kind = "pair" /\ C.distinctNames /\ Len(C.wouldBe[1]) > 0 /\ C.wouldBe[1] = C.wouldBe[2]) => C.err
(* and whatever it accepts has pairwise distinct, valid identifiers *)
AcceptedIdsDistinct ==
  (Rec /\ C.kind = "pair" /\ ~C.err) =>
     /\ \A i, j \in 1..Len(C.symIds) : i # j => C.symIds[i] # C.symIds[j]
     /\ \A i \in 1..Len(C.symIds) : ValidIdent(C.symIds[i])
=============================================================================
