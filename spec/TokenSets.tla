---------------------------- MODULE TokenSets ----------------------------
(* C15: token sets as least fixpoints over the plain rules reachable from the first input    *)
(* that ends with end-of-input.  g = [nT, nS, rules]; rules: sequence of [lhs, rhs].            *)
(* Set expressions (from JSON):                                                                 *)
(*   [k |-> "first" | "last" | "follow" | "precede" | "any", s]   of a symbol                   *)
(*   [k |-> "or" | "and", sub]   [k |-> "not", sub |-> <<e>>]   [k |-> "ref", i] an earlier named set *)
EXTENDS Grammar

(* Reachability: through right-hand sides from the start symbol; an in-rule set S that is reachable also pulls in *)
(* the nonterminals its expression mentions (extra).                                                              *)
ReachX(g, start, S, extra) ==
  LET R == ReachableFrom(g, start)
  IN IF S \in R THEN R \cup UNION { ReachableFrom(g, x) : x \in extra } ELSE R
(* ... and nonterminals named by a lookahead predicate (positive or negated) of a reachable rule are reachable too *)
RECURSIVE ReachAll(_, _, _, _, _)
ReachAll(g, R, S, extra, la) ==
  LET R1 == UNION { ReachableFrom(g, x) : x \in R }
      R2 == R1 \cup (IF S \in R1 THEN extra ELSE {}) \cup { la[i][2] : i \in { i \in 1..Len(la) : la[i][1] \in R1 } }
  IN IF R2 = R THEN R ELSE ReachAll(g, R2, S, extra, la)
RRulesX(g, R) == { r \in RuleIdx(g) : g.rules[r].lhs \in R }
Rhs(g, r) == CleanRhs(g.rules[r].rhs)
RECURSIVE NullR(_, _, _)
NullR(g, RR, N) ==
  LET N2 == N \cup { g.rules[r].lhs : r \in { r \in RR : \A i \in 1..Len(Rhs(g, r)) : Rhs(g, r)[i] \in N } }
  IN IF N2 = N THEN N ELSE NullR(g, RR, N2)

(* the five set families, as one step function by kind; X is the context [RR, nl, first, last] *)
Rev(w) == [i \in 1..Len(w) |-> w[Len(w) + 1 - i]]
RulesIn(g, X, s) == { r \in X.RR : g.rules[r].lhs = s }
StepK(g, X, kind, F, s) ==
  CASE kind = "any" -> UNION { UNION { F[Rhs(g, r)[i]] : i \in 1..Len(Rhs(g, r)) } : r \in RulesIn(g, X, s) }
    [] kind = "first" -> UNION { FirstSeq(F, X.nl, Rhs(g, r)) : r \in RulesIn(g, X, s) }
    [] kind = "last" -> UNION { FirstSeq(F, X.nl, Rev(Rhs(g, r))) : r \in RulesIn(g, X, s) }
    (* follow: for every use A -> alpha s beta: First(beta), and Follow(A) when beta is nullable (no end-of-input is added) *)
    [] kind = "follow" -> UNION { LET w == Rhs(g, r) IN
                            UNION { LET beta == SubSeq(w, i + 1, Len(w)) IN
                                    FirstSeq(X.first, X.nl, beta) \cup (IF SeqNullable(X.nl, beta) THEN F[g.rules[r].lhs] ELSE {})
                                  : i \in { i \in 1..Len(w) : w[i] = s } }
                          : r \in X.RR \ X.opq }
    [] kind = "precede" -> UNION { LET w == Rhs(g, r) IN
                            UNION { LET alpha == Rev(SubSeq(w, 1, i - 1)) IN
                                    FirstSeq(X.last, X.nl, alpha) \cup (IF SeqNullable(X.nl, alpha) THEN F[g.rules[r].lhs] ELSE {})
                                  : i \in { i \in 1..Len(w) : w[i] = s } }
                          : r \in X.RR \ X.opq }
RECURSIVE LfpK(_, _, _, _)
LfpK(g, X, kind, F) == LET F2 == [s \in Syms(g) |-> F[s] \cup StepK(g, X, kind, F, s)] IN IF F2 = F THEN F ELSE LfpK(g, X, kind, F2)
Bot(g) == [s \in Syms(g) |-> {}]
Term0(g) == [s \in Syms(g) |-> IF s < g.nT THEN {s} ELSE {}]

(* opq: rules that do not count as uses of their right-hand side symbols for follow/precede. Exact semantics: {}. *)
(* The implementation treats an in-rule set nonterminal as one opaque position (opq = the rules of the set).     *)
Analysis(g, R, opq) ==
  LET RR == RRulesX(g, R)
      nl == NullR(g, RR, {})
      X0 == [RR |-> RR, nl |-> nl, first |-> Bot(g), last |-> Bot(g), opq |-> opq]
      fi == LfpK(g, X0, "first", Term0(g))
      la == LfpK(g, X0, "last", Term0(g))
      X == [RR |-> RR, nl |-> nl, first |-> fi, last |-> la, opq |-> opq]
  IN [any |-> LfpK(g, X0, "any", Term0(g)), first |-> fi, last |-> la,
      follow |-> LfpK(g, X, "follow", Bot(g)), precede |-> LfpK(g, X, "precede", Bot(g))]

RECURSIVE EvalSet(_, _, _, _)
EvalSet(e, A, named, U) ==       \* named: values of the earlier named sets
  CASE e.k = "any" -> A.any[e.s]
    [] e.k = "first" -> A.first[e.s]
    [] e.k = "last" -> A.last[e.s]
    [] e.k = "follow" -> A.follow[e.s]
    [] e.k = "precede" -> A.precede[e.s]
    [] e.k = "or" -> UNION { EvalSet(e.sub[i], A, named, U) : i \in 1..Len(e.sub) }
    [] e.k = "and" -> { x \in U : \A i \in 1..Len(e.sub) : x \in EvalSet(e.sub[i], A, named, U) }
    [] e.k = "not" -> U \ EvalSet(e.sub[1], A, named, U)
    [] e.k = "ref" -> named[e.i]
(* ---- named sets: a system of equations; references may be mutually recursive ---- *)
RECURSIVE RefsOf(_), NegRefsOf(_)
RefsOf(e) == IF e.k \in {"or", "and", "not"} THEN UNION { RefsOf(e.sub[i]) : i \in 1..Len(e.sub) }
             ELSE IF e.k = "ref" THEN {e.i} ELSE {}
NegRefsOf(e) == IF e.k = "not" THEN RefsOf(e.sub[1])
                ELSE IF e.k \in {"or", "and"} THEN UNION { NegRefsOf(e.sub[i]) : i \in 1..Len(e.sub) } ELSE {}
RECURSIVE RefReach(_, _)
RefReach(sets, J) == LET J2 == J \cup UNION { RefsOf(sets[j].e) : j \in J } IN IF J2 = J THEN J ELSE RefReach(sets, J2)
(* a named set's complement depends on itself: a reference under a complement reaches the set it occurs in *)
NamedSelfCompl(sets) == \E k \in 1..Len(sets) : \E j \in NegRefsOf(sets[k].e) : k \in RefReach(sets, {j})
(* strata: a set lies strictly above every set it refers to under a complement (defined when ~NamedSelfCompl) *)
RECURSIVE Strata(_, _)
Strata(sets, st) ==
  LET Mx(S) == IF S = {} THEN 0 ELSE CHOOSE m \in S : \A x \in S : x <= m
      st2 == [k \in 1..Len(sets) |-> Mx({st[k]} \cup { st[j] : j \in RefsOf(sets[k].e) } \cup { st[j] + 1 : j \in NegRefsOf(sets[k].e) })]
  IN IF st2 = st THEN st ELSE Strata(sets, st2)
RECURSIVE StratumFix(_, _, _, _, _, _)
StratumFix(sets, A, U, st, s, vals) ==
  LET v2 == [k \in 1..Len(sets) |-> IF st[k] = s THEN vals[k] \cup EvalSet(sets[k].e, A, vals, U) ELSE vals[k]]
  IN IF v2 = vals THEN vals ELSE StratumFix(sets, A, U, st, s, v2)
RECURSIVE EvalStrata(_, _, _, _, _, _)
EvalStrata(sets, A, U, st, s, vals) ==
  IF s > Len(sets) THEN vals ELSE EvalStrata(sets, A, U, st, s + 1, StratumFix(sets, A, U, st, s, vals))
(* least solution, stratum by stratum *)
EvalNamed(sets, A, U) ==
  EvalStrata(sets, A, U, Strata(sets, [k \in 1..Len(sets) |-> 0]), 0, [k \in 1..Len(sets) |-> {}])

(* ---- complement self-dependency (the in-rule set S with expression e in grammar g) ---- *)
RECURSIVE AtomsOf(_), NegAtomsOf(_)
AtomsOf(e) == IF e.k \in {"or", "and", "not"} THEN UNION { AtomsOf(e.sub[i]) : i \in 1..Len(e.sub) }
              ELSE IF e.k = "ref" THEN {} ELSE {[k |-> e.k, s |-> e.s]}
NegAtomsOf(e) == IF e.k = "not" THEN AtomsOf(e.sub[1])
                 ELSE IF e.k \in {"or", "and"} THEN UNION { NegAtomsOf(e.sub[i]) : i \in 1..Len(e.sub) } ELSE {}
SetNode(S) == [k |-> "set", s |-> S]
AtomDeps(g, RR, nl, R, S, sxAtoms, a) ==
  LET At(k, s) == [k |-> k, s |-> s]
      NullPre(w, i) == \A j \in 1..(i-1) : w[j] \in nl
      NullPost(w, i) == \A j \in (i+1)..Len(w) : w[j] \in nl
      NullBetween(w, i, j) == \A m \in (i+1)..(j-1) : w[m] \in nl
      Mine == { r \in RR : g.rules[r].lhs = a.s }
  IN CASE a.k = "set" -> sxAtoms
       [] a.k \in {"any", "first", "last"} /\ a.s < g.nT -> {}
       [] a.k \in {"any", "first", "last"} /\ a.s = S -> IF S \in R THEN {SetNode(S)} ELSE {}
       [] a.k = "any" -> UNION { { At("any", Rhs(g, r)[i]) : i \in 1..Len(Rhs(g, r)) } : r \in Mine }
       [] a.k = "first" -> UNION { { At("first", Rhs(g, r)[i]) : i \in { i \in 1..Len(Rhs(g, r)) : NullPre(Rhs(g, r), i) } } : r \in Mine }
       [] a.k = "last" -> UNION { { At("last", Rhs(g, r)[i]) : i \in { i \in 1..Len(Rhs(g, r)) : NullPost(Rhs(g, r), i) } } : r \in Mine }
       [] a.k = "follow" -> UNION { LET w == Rhs(g, r) IN
                              UNION { { At("first", w[j]) : j \in { j \in (i+1)..Len(w) : NullBetween(w, i, j) } }
                                      \cup (IF NullPost(w, i) THEN {At("follow", g.rules[r].lhs)} ELSE {})
                                    : i \in { i \in 1..Len(w) : w[i] = a.s } } : r \in RR \ {r \in RR : g.rules[r].lhs = S} }
       [] a.k = "precede" -> UNION { LET w == Rhs(g, r) IN
                              UNION { { At("last", w[j]) : j \in { j \in 1..(i-1) : NullBetween(w, j, i) } }
                                      \cup (IF NullPre(w, i) THEN {At("precede", g.rules[r].lhs)} ELSE {})
                                    : i \in { i \in 1..Len(w) : w[i] = a.s } } : r \in RR \ {r \in RR : g.rules[r].lhs = S} }
RECURSIVE AtomReach(_, _, _, _, _, _, _)
AtomReach(g, RR, nl, R, S, sxAtoms, A) ==
  LET A2 == A \cup UNION { AtomDeps(g, RR, nl, R, S, sxAtoms, a) : a \in A }
  IN IF A2 = A THEN A ELSE AtomReach(g, RR, nl, R, S, sxAtoms, A2)
(* the complement depends on itself: some atom under a complement in S's expression reaches S's own set node *)
SelfCompl(g, start, S, e, la) ==
  LET ats == AtomsOf(e)
      R == ReachAll(g, {start}, S, { a.s : a \in { a \in ats : a.s >= g.nT } }, la)
      RR == RRulesX(g, R)
      nl == NullR(g, RR \ {r \in RR : g.rules[r].lhs = S}, {})
  IN S >= 0 /\ \E a \in NegAtomsOf(e) : SetNode(S) \in AtomReach(g, RR, nl, R, S, ats, {a})
=============================================================================
