---------------------------- MODULE CancelTrace ----------------------------
(* Validation of recorded runs of real cancellable parsers (CheckEvery = 512).                *)
(* A case: cancel[text][k] = <<kind, events, shifts, shiftsAtCancel>> where the first row of    *)
(* each text is the uncancelled baseline (cancel point -1), kind: 1 ok, 0 syntax error, 2 the    *)
(* context's error, 3 anything else; events: number of listener calls; shiftsAtCancel: shifts     *)
(* performed when cancel() was called (-1: the cancel point was never reached).                   *)
(* Rows of the shipped parsers (no shift counter exposed) carry lower bounds instead: shifts =  *)
(* floor(events / 64), shiftsAtCancel = floor(eventsAtCancel / 64) + 1, so shifts - shiftsAtCancel *)
(* never exceeds the shifts really performed after the cancellation and the invariants below stay  *)
(* sound (they can only fire when more than CheckEvery shifts certainly happened).                 *)
EXTENDS Integers, Sequences, FiniteSets, TLC, Json, IOUtils
Cases == ndJsonDeserialize(IOEnv.VERIF_CASES)
CheckEvery == 512

VARIABLES ci, ti, st
vars == <<ci, ti, st>>
Init == ci \in 1..Len(Cases) /\ ti = 0 /\ st = "case"
Pick == st = "case" /\ \E t \in 1..Len(Cases[ci].cancel) : ti' = t /\ st' = "recorded" /\ UNCHANGED ci
Validate == st = "recorded" /\ st' = "validated" /\ UNCHANGED <<ci, ti>>
Next == Pick \/ Validate \/ (st = "validated" /\ UNCHANGED vars)
Spec == Init /\ [][Next]_vars
Rec == st = "recorded"
Rows == Cases[ci].cancel[ti]
Base == Rows[1]
Ran == Cases[ci].genErr = "" /\ Cases[ci].ran
Generated == Cases[ci].genErr = ""
NoCrash == (Rec /\ Ran) => Len(Cases[ci].bad) = 0
CancelSafe ==
  (Rec /\ Ran) => \A k \in 2..Len(Rows) :
      \/ Rows[k][1] = 2 /\ Rows[k][4] >= 0                                        \* the context's error, and it was cancelled
      \/ Rows[k][1] = Base[1] /\ Rows[k][2] = Base[2] /\ Rows[k][3] = Base[3]     \* exactly the uncancelled result and events
CancelBounded ==
  (Rec /\ Ran) => \A k \in 2..Len(Rows) : Rows[k][4] >= 0 => Rows[k][3] - Rows[k][4] < CheckEvery
MustStop ==
  (Rec /\ Ran) => \A k \in 2..Len(Rows) : (Rows[k][4] >= 0 /\ Base[3] - Rows[k][4] >= CheckEvery) => Rows[k][1] = 2
=============================================================================
