---------------------------- MODULE C08Gen ----------------------------
(* All sets of N alternatives over 3 predicate inputs (1..3): each alternative a sequence of  *)
(* 1..3 signed literals over distinct inputs (the written order matters).  Emitted when index  *)
(* % Stride = Offset.                                                                          *)
EXTENDS Integers, Sequences, FiniteSets, TLC, Json, IOUtils, SequencesExt, FiniteSetsExt
N == atoi(IOEnv.VERIF_C08_N)
Stride == atoi(IOEnv.VERIF_C08_STRIDE)
Offset == atoi(IOEnv.VERIF_C08_OFFSET)
Lits == { [input |-> v, neg |-> n] : v \in 1..3, n \in BOOLEAN }
Alts == { s \in UNION { [1..k -> Lits] : k \in 1..3 } : \A a, b \in 1..Len(s) : a # b => s[a].input # s[b].input }
AltSeq == SetToSeq(Alts)
NA == Len(AltSeq)
(* increasing index sequences of length k (kSubset's Java override stops at 62 elements) *)
RECURSIVE IncSeqs(_)
IncSeqs(k) == IF k = 0 THEN { <<>> }
              ELSE UNION { { Append(s, l) : l \in ((IF Len(s) = 0 THEN 0 ELSE s[Len(s)]) + 1)..NA } : s \in IncSeqs(k - 1) }
Sets == SetToSeq(IncSeqs(N))
Picked == SelectSeq([i \in 1..Len(Sets) |-> [k |-> i, s |-> Sets[i]]], LAMBDA x : x.k % Stride = Offset)
Out == [i \in 1..Len(Picked) |-> [alts |-> [j \in 1..N |-> AltSeq[Picked[i].s[j]]]]]
ASSUME PrintT(<<"c08gen alternatives", Len(AltSeq), "sets", Len(Sets), "emitted", Len(Out)>>)
ASSUME ndJsonSerialize(IOEnv.VERIF_OUT, Out)
VARIABLE x
Init == x = 0
Next == UNCHANGED x
=============================================================================
