---------------------------- MODULE SetClosure ----------------------------
(* Systems of set equations as util/set.Closure solves them.                              *)
(* A system is a sequence of nodes  [op, base, edges]  (edges are 0-based node indices as  *)
(* in the implementation):                                                                *)
(*    op = "u":  X = base \cup UNION X[edges]                                             *)
(*    op = "i":  X = INTERSECTION X[edges]          (no edges: the universe)              *)
(*    op = "c":  X = U \ X[edges[1]]                                                      *)
(* Oracle: the least solution, stratified through complements, computed by Kleene          *)
(* iteration component by component (the implementation uses Tarjan's ordering and a      *)
(* special case for pure-union components).  A complement on a dependency cycle has no    *)
(* least solution: error.                                                                 *)
EXTENDS Integers, Sequences, FiniteSets, IntSets

Nodes(sys) == 1..Len(sys)
Edges(sys, n) == { sys[n].edges[i] + 1 : i \in 1..Len(sys[n].edges) }

RECURSIVE ReachFix(_, _)
ReachFix(sys, R) ==
  LET R2 == [n \in Nodes(sys) |-> R[n] \cup UNION { R[m] : m \in R[n] }]
  IN IF R2 = R THEN R ELSE ReachFix(sys, R2)
Reach(sys) == ReachFix(sys, [n \in Nodes(sys) |-> Edges(sys, n)])     \* paths of length >= 1

ComplementsOnCycle(sys) == LET R == Reach(sys) IN { n \in Nodes(sys) : sys[n].op = "c" /\ n \in R[n] }
HasError(sys) == ComplementsOnCycle(sys) # {}

SCC(R, n) == {n} \cup { m \in R[n] : n \in R[m] }

Inter(S, U) == { x \in U : \A s \in S : x \in s }

Eval(sys, all, m, U) ==
  CASE sys[m].op = "u" -> ToSetI(sys[m].base) \cup UNION { all[w] : w \in Edges(sys, m) }
    [] sys[m].op = "i" -> Inter({ all[w] : w \in Edges(sys, m) }, U)
    [] sys[m].op = "c" -> U \ all[CHOOSE w \in Edges(sys, m) : TRUE]

RECURSIVE Kleene(_, _, _, _, _)
Kleene(sys, val, comp, cur, U) ==
  LET all == [m \in (DOMAIN val) \cup comp |-> IF m \in comp THEN cur[m] ELSE val[m]]
      nxt == [m \in comp |-> Eval(sys, all, m, U)]
  IN IF nxt = cur THEN cur ELSE Kleene(sys, val, comp, nxt, U)

RECURSIVE Solve(_, _, _, _)
Solve(sys, R, val, U) ==
  IF DOMAIN val = Nodes(sys) THEN val
  ELSE LET ready == { n \in Nodes(sys) \ DOMAIN val : (R[n] \ SCC(R, n)) \subseteq DOMAIN val }
           n == CHOOSE n \in ready : TRUE
           comp == SCC(R, n)
           lfp == Kleene(sys, val, comp, [m \in comp |-> {}], U)
       IN Solve(sys, R, [m \in (DOMAIN val) \cup comp |-> IF m \in comp THEN lfp[m] ELSE val[m]], U)

EmptyFn == [x \in {} |-> {}]
LeastSolution(sys, U) == Solve(sys, Reach(sys), EmptyFn, U)

(* ---- second formulation (design self-check): a solution, and below every solution,     *)
(* for complement-free systems; a solution in general.                                    *)
IsSolution(sys, v, U) == \A m \in Nodes(sys) : v[m] = Eval(sys, v, m, U)
Below(v, w) == \A m \in DOMAIN v : v[m] \subseteq w[m]
=============================================================================
