---------------------------- MODULE Bison ----------------------------
(* C30: the Bison export is a projection of the grammar the tables were built from.          *)
(* rules: the expanded production rules in table order, [lhs, rhs, prec] by symbol name (ID    *)
(* for terminals); the export lists them grouped by left-hand side - groups in order of first   *)
(* occurrence, rules inside a group in table order - and the precedence declarations and start  *)
(* symbols in declaration order.                                                                *)
EXTENDS Integers, Sequences, FiniteSets, TLC, Json, IOUtils
Cases == ndJsonDeserialize(IOEnv.VERIF_CASES)

(* y is the grouped form of rules: same rules per left-hand side in the same order, groups contiguous, and groups
   ordered by the first occurrence of their left-hand side in rules (stated without recursion: 5000+ rules for js) *)
LhsSet(rules) == { rules[i].lhs : i \in 1..Len(rules) }
FirstIdx(rules, x) == CHOOSE i \in 1..Len(rules) : rules[i].lhs = x /\ \A k \in 1..(i-1) : rules[k].lhs # x
IsGrouped(y, rules) ==
  /\ Len(y) = Len(rules)
  /\ \A x \in LhsSet(rules) \cup LhsSet(y) : SelectSeq(y, LAMBDA r : r.lhs = x) = SelectSeq(rules, LAMBDA r : r.lhs = x)
  /\ \A i \in 1..(Len(y) - 1) : y[i].lhs # y[i+1].lhs =>
         /\ \A k \in (i+1)..Len(y) : y[k].lhs # y[i].lhs                         \* a group is contiguous
         /\ FirstIdx(rules, y[i].lhs) < FirstIdx(rules, y[i+1].lhs)             \* groups in order of first occurrence

VARIABLES ci, st
vars == <<ci, st>>
Init == ci \in 1..Len(Cases) /\ st = "recorded"
Next == (st = "recorded" /\ st' = "validated" /\ UNCHANGED ci) \/ (st = "validated" /\ UNCHANGED vars)
Spec == Init /\ [][Next]_vars
C == Cases[ci]
Rec == st = "recorded"
Exported == Rec => (C.err = "" /\ C.parseErr = "")
RulesMatch == (Rec /\ C.err = "" /\ C.parseErr = "") => IsGrouped(C.yrules, C.rules)
PrecMatch == (Rec /\ C.err = "" /\ C.parseErr = "") => C.yprec = C.prec
StartsMatch == (Rec /\ C.err = "" /\ C.parseErr = "") => C.ystarts = C.starts
=============================================================================
