---------------------------- MODULE LalrTrace ----------------------------
(* P2 validation of recorded lalr.Compile results against the LALR(1) definition (LR.tla). *)
(* A case is a grammar (Grammar.tla numbering) plus the dumped default-encoding tables     *)
(* c.t = [Action, Lalr, Goto, FromTo, FinalStates, NumStates, SR, RR] and c.compiles, the  *)
(* error verdicts for several %expect values.                                              *)
(* The spec automaton (LALR states keyed by core) and the real automaton (state numbers)   *)
(* are walked in parallel from the input states; the resulting relation must be a          *)
(* bijection and every paired state must act the same on every terminal.                   *)
EXTENDS LR, Tables, TLC, Json, IOUtils

Cases == ndJsonDeserialize(IOEnv.VERIF_CASES)

RECURSIVE WalkFix(_, _, _, _)
WalkFix(c, A, pairs, frontier) ==
  IF frontier = {} THEN pairs
  ELSE LET live == { p \in frontier : p[1] # {} /\ p[2] >= 0 }
           new == ({ <<GotoCore(c, A, p[1], X), RGoto(c.t, p[2], X)>> : p \in live, X \in Syms(c) }
                     \ { <<{}, -1>> }) \ pairs
       IN WalkFix(c, A, pairs \cup new, new)
Walk(c, A) == LET p0 == { <<A.starts[i], i - 1>> : i \in 1..NIn(c) } IN WalkFix(c, A, p0, p0)

DistinctInputs(c) == \A i, j \in 1..NIn(c) : i # j => c.inputs[i].nt # c.inputs[j].nt

VARIABLES blk, ci, st, an, pairs
vars == <<blk, ci, st, an, pairs>>
NBlocks == 64
Init == blk \in 0..(NBlocks-1) /\ ci = 0 /\ st = "block" /\ an = <<>> /\ pairs = {}
Pick == /\ st = "block"
        /\ \E i \in { i \in 1..Len(Cases) : i % NBlocks = blk } :
             /\ ci' = i
             /\ an' = Analyse(Cases[i])
             /\ pairs' = Walk(Cases[i], an')
        /\ st' = "recorded" /\ UNCHANGED blk
Validate == st = "recorded" /\ st' = "validated" /\ an' = <<>> /\ pairs' = {} /\ UNCHANGED <<blk, ci>>
Next == Pick \/ Validate \/ (st = "validated" /\ UNCHANGED vars)
Spec == Init /\ [][Next]_vars

C == Cases[ci]
(* in scope: distinct input nonterminals, every nonterminal productive (an unproductive nonterminal has an
   empty FIRST set, so canonical LR(1) has no items for the rules that use it while Textmapper keeps them) *)
Scope(c) == DistinctInputs(c) /\ Nonterms(c) \subseteq Productive(c)
Rec == st = "recorded" /\ Scope(C) /\ ~Conflated(C, an)
QOf(p) == an.merged[p[1]]

(* --- the relation is a bijection between all spec states and all real states *)
IsoNoDangling == Rec => \A p \in pairs : p[1] # {} /\ p[2] >= 0
IsoFunctional == Rec => \A p, q \in pairs : (p[1] = q[1]) <=> (p[2] = q[2])
IsoCovers == Rec => /\ Cardinality(pairs) = C.t.NumStates
                    /\ { p[1] : p \in pairs } = an.cores

(* --- final states *)
FinalStatesOK ==
  Rec => \A i \in 1..NIn(C) : \A p \in pairs :
           (\E it \in QOf(p) : it[1] = -i /\ IsFinalItem(C, it)) <=> (p[2] = At0(C.t.FinalStates, i - 1))

(* --- actions *)
LaOf(Q, r) == { it[3] : it \in { it \in ReduceItems(C, Q) : it[1] = r } }
StateOK(Q, s) ==
  LET g == C  t == C.t
      red == AllReduces(g, Q)  tsh == TermShifts(g, Q)  a == At0(t.Action, s) IN
  IF red = {} THEN
       /\ a = (IF ShiftSyms(g, Q) = {} THEN -2 ELSE -1)
       /\ \A x \in Terms(g) : (RAction(t, s, x)[1] = "s") <=> (x \in tsh)
  ELSE IF Cardinality(red) = 1 /\ tsh = {} THEN
       LET r == CHOOSE r \in red : TRUE IN
       \/ a = r - 1                                                      \* reduces without consulting lookahead
       \/ /\ a < -2                                                      \* tolerated: exact LALR(1) lookaheads instead
          /\ \A x \in Terms(g) : RAction(t, s, x) = IF x \in LaOf(Q, r) THEN <<"r", r - 1>> ELSE <<"e">>
  ELSE /\ a < -2
       /\ \A x \in Terms(g) :
            LET cell == Cell(g, Q, x)  ra == RAction(t, s, x)  ea == CellAction(cell) IN
            /\ IF ea[1] = "s" THEN ra[1] = "s" ELSE ra = ea
            /\ (cell.act = -3) <=> LalrListed(t, s, x, -2)                \* explicit errors are exactly the nonassoc ones
ActionsAgree == Rec => \A p \in pairs : (p[1] # {} /\ p[2] >= 0 /\ p[1] \in an.cores) => StateOK(QOf(p), p[2])

(* --- the goto table is searchable the way the code searches it *)
GotoSearchOK == Rec => /\ \A X \in Syms(C) : GotoSorted(C.t, X)
                       /\ \A p \in pairs : p[2] >= 0 => \A X \in Syms(C) : ImplGoto(C.t, p[2], X) = RGoto(C.t, p[2], X)

(* --- conflict counts and the %expect verdict *)
Unres(cs) == { <<c, x>> \in an.cores \X Terms(C) :
                 LET Q == an.merged[c] IN ~IsLR0(C, Q) /\ LET cell == Cell(C, Q, x) IN CellUnresolved(cell) /\ cell.cs = cs }
SpecSR == Cardinality(Unres(TRUE))
SpecRR == Cardinality(Unres(FALSE))
CountsAgree == Rec => C.t.SR = SpecSR /\ C.t.RR = SpecRR
ErrorIffExpectMismatch ==
  Rec => \A k \in 1..Len(C.compiles) :
           C.compiles[k].err <=> (C.compiles[k].expectSR # SpecSR \/ C.compiles[k].expectRR # SpecRR)
InScope == st = "recorded" => Scope(C)
(* Known deviation from the canonical construction (DESIGN 5, finding 9): see LR.tla SharedFinalEntered *)
NoSharedFinalState == (st = "recorded" /\ Scope(C)) => ~Conflated(C, an)
DebugAlias == [ci |-> ci, st |-> st, pairs |-> pairs,
  bad |-> IF st # "recorded" THEN {} ELSE
     { <<p, At0(C.t.Action, p[2]), { <<x, RAction(C.t, p[2], x), Cell(C, QOf(p), x)>> : x \in Terms(C) }, AllReduces(C, QOf(p)), TermShifts(C, QOf(p))>> :
        p \in { p \in pairs : p[1] \in an.cores /\ p[2] >= 0 /\ ~StateOK(QOf(p), p[2]) } },
  sr |-> IF st # "recorded" THEN 0 ELSE SpecSR, rr |-> IF st # "recorded" THEN 0 ELSE SpecRR]
=============================================================================
