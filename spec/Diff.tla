---------------------------- MODULE Diff ----------------------------
(* Line diffs (util/diff): texts are sequences of line identifiers.                        *)
(* Oracle for minimality: the LCS recurrence (the implementation uses Myers' middle-snake  *)
(* divide and conquer).  Hunks: the unified format LineDiff renders, as parsed by the      *)
(* harness:  [ll, ls, rl, rs, lines]  with lines a sequence of [c, t, skip]:               *)
(*   c \in {" ", "-", "+"}; t the line id; skip > 0 marks the "... N lines skipped ..."    *)
(*   abbreviation (stands for N lines whose content is not shown).                         *)
EXTENDS Integers, Sequences, FiniteSets

(* LCS length by rows: row i holds LCS(a[1..i], b[1..j]) at index j+1. *)
RECURSIVE LCSRowBuild(_, _, _, _, _, _)
LCSRowBuild(a, b, i, prev, j, acc) ==      \* acc = row i up to column j-1 (Len(acc) = j)
  IF j > Len(b) THEN acc
  ELSE LET up == prev[j+1]
           left == acc[j]
           v == IF a[i] = b[j] THEN prev[j] + 1 ELSE IF up >= left THEN up ELSE left
       IN LCSRowBuild(a, b, i, prev, j + 1, Append(acc, v))
RECURSIVE LCSRows(_, _, _, _)
LCSRows(a, b, i, row) == IF i > Len(a) THEN row ELSE LCSRows(a, b, i + 1, LCSRowBuild(a, b, i, row, 1, <<0>>))
LCSLen(a, b) == LCSRows(a, b, 1, [j \in 1..(Len(b)+1) |-> 0])[Len(b) + 1]

MinEdits(a, b) == Len(a) + Len(b) - 2 * LCSLen(a, b)

(* ---- rendered hunks *)
LineCount(h, cs) ==   \* number of text lines the hunk stands for, for intro characters in cs
  LET idx == { i \in 1..Len(h.lines) : h.lines[i].c \in cs }
      RECURSIVE Sum(_)
      Sum(S) == IF S = {} THEN 0 ELSE LET i == CHOOSE i \in S : TRUE
                                      IN (IF h.lines[i].skip > 0 THEN h.lines[i].skip ELSE 1) + Sum(S \ {i})
  IN Sum(idx)
Edits(hunks) ==
  LET RECURSIVE S(_)
      S(k) == IF k > Len(hunks) THEN 0 ELSE LineCount(hunks[k], {"-", "+"}) + S(k + 1)
  IN S(1)

HeaderOK(h) == h.ls = LineCount(h, {" ", "-"}) /\ h.rs = LineCount(h, {" ", "+"})

(* Apply one hunk line to the state [pos (next unread line of a), out (produced so far), ok]. *)
ApplyLine(a, b, st, l) ==
  IF ~st.ok THEN st
  ELSE IF l.skip > 0 THEN
     \* abbreviated block: content not shown; consumed / produced blindly
     IF l.c = "+" THEN
        IF Len(st.out) + l.skip > Len(b) THEN [st EXCEPT !.ok = FALSE]
        ELSE [st EXCEPT !.out = st.out \o SubSeq(b, Len(st.out) + 1, Len(st.out) + l.skip)]
     ELSE IF st.pos + l.skip - 1 > Len(a) THEN [st EXCEPT !.ok = FALSE]
     ELSE [pos |-> st.pos + l.skip, ok |-> TRUE,
           out |-> IF l.c = " " THEN st.out \o SubSeq(a, st.pos, st.pos + l.skip - 1) ELSE st.out]
  ELSE IF l.c = "+" THEN [st EXCEPT !.out = Append(st.out, l.t)]
  ELSE IF st.pos > Len(a) \/ a[st.pos] # l.t THEN [st EXCEPT !.ok = FALSE]
  ELSE [pos |-> st.pos + 1, ok |-> TRUE, out |-> IF l.c = " " THEN Append(st.out, l.t) ELSE st.out]

RECURSIVE ApplyLines(_, _, _, _, _)
ApplyLines(a, b, st, ls, i) == IF i > Len(ls) THEN st ELSE ApplyLines(a, b, ApplyLine(a, b, st, ls[i]), ls, i + 1)

ApplyHunk(a, b, st, h) ==
  IF ~st.ok THEN st
  ELSE IF h.ll < st.pos \/ h.ll - 1 > Len(a) THEN [st EXCEPT !.ok = FALSE]     \* hunks in order, inside a
  ELSE LET copied == [pos |-> h.ll, ok |-> TRUE, out |-> st.out \o SubSeq(a, st.pos, h.ll - 1)]
       IN IF h.rl # Len(copied.out) + 1 THEN [copied EXCEPT !.ok = FALSE]      \* new-side coordinate
          ELSE ApplyLines(a, b, copied, h.lines, 1)

RECURSIVE ApplyHunks(_, _, _, _, _)
ApplyHunks(a, b, st, hs, k) == IF k > Len(hs) THEN st ELSE ApplyHunks(a, b, ApplyHunk(a, b, st, hs[k]), hs, k + 1)

Apply(a, b, hunks) ==
  LET st == ApplyHunks(a, b, [pos |-> 1, ok |-> TRUE, out |-> <<>>], hunks, 1)
  IN IF ~st.ok THEN [ok |-> FALSE, out |-> st.out]
     ELSE [ok |-> TRUE, out |-> st.out \o SubSeq(a, st.pos, Len(a))]
=============================================================================
