---------------------------- MODULE MinTrace ----------------------------
(* C06: state minimization preserves behaviour from every entry point.                      *)
(* A case carries the grammar (rule classes), t (unminimized tables) and min (MinimizeDFA    *)
(* tables).  Both parsers are started, for every input i, at entry state i - the state the   *)
(* generated code uses - and walked in lock step over every symbol; R collects the reachable  *)
(* triples <<i, p, m>>.  On every triple both must take the same kind of action on every      *)
(* terminal, reduce rules of the same class, and be at their end state together.              *)
EXTENDS Tables, TLC, Json, IOUtils

Cases == ndJsonDeserialize(IOEnv.VERIF_CASES)

NRules(c) == Len(c.rules)
RuleClass(c, t, r) ==       \* r: implementation rule number
  IF r < NRules(c)
  THEN <<"rule", c.rules[r+1].lhs, At0(t.RuleLen, r), c.rules[r+1].action, c.rules[r+1].type, c.rules[r+1].flags>>
  ELSE <<"lookahead", r>>   \* synthetic runtime-lookahead rules are never identified with anything else

EndState(t, i) == At0(t.FinalStates, i - 1)

Step(c, tr) ==     \* successors of a triple that is not at the end state
  LET i == tr[1]  p == tr[2]  m == tr[3] IN
  IF p = EndState(c.t, i) \/ m = EndState(c.min, i) \/ p < 0 \/ m < 0 THEN {}
  ELSE { <<i, FGoto(c.t, p, X), FGoto(c.min, m, X)>> : X \in 0..(c.nS - 1) } \ { <<i, -1, -1>> }

RECURSIVE WalkFix(_, _, _)
WalkFix(c, R, frontier) ==
  IF frontier = {} THEN R
  ELSE LET new == (UNION { Step(c, tr) : tr \in frontier }) \ R IN WalkFix(c, R \cup new, new)
Walk(c) == LET r0 == { <<i, i - 1, i - 1>> : i \in 1..Len(c.inputs) } IN WalkFix(c, r0, r0)

VARIABLES blk, ci, st, R
vars == <<blk, ci, st, R>>
NBlocks == 64
Init == blk \in 0..(NBlocks-1) /\ ci = 0 /\ st = "block" /\ R = {}
Pick == /\ st = "block"
        /\ \E i \in { i \in 1..Len(Cases) : i % NBlocks = blk } : ci' = i /\ R' = Walk(Cases[i])
        /\ st' = "recorded" /\ UNCHANGED blk
Validate == st = "recorded" /\ st' = "validated" /\ R' = {} /\ UNCHANGED <<blk, ci>>
Next == Pick \/ Validate \/ (st = "validated" /\ UNCHANGED vars)
Spec == Init /\ [][Next]_vars

C == Cases[ci]
(* scope: the unminimized goto table is searchable (one transition per state and symbol) *)
Scope(c) == \A X \in 0..(c.nS - 1) : GotoSorted(c.t, X)
Rec == st = "recorded" /\ Scope(C)
InScope == st = "recorded" => Scope(C)
Live == { tr \in R : tr[2] # EndState(C.t, tr[1]) /\ tr[3] # EndState(C.min, tr[1]) }

(* both are defined or undefined together on every symbol *)
SameTransitions == Rec => \A tr \in R : tr[2] >= 0 /\ tr[3] >= 0
(* both parsers stop (accept) at the same moments *)
SameAccept == Rec => \A tr \in R : (tr[2] = EndState(C.t, tr[1])) <=> (tr[3] = EndState(C.min, tr[1]))
(* same action on every terminal: shift / error / reduce a rule of the same class *)
SameActions ==
  Rec => \A tr \in Live : (tr[2] >= 0 /\ tr[3] >= 0) =>
    \A x \in 0..(C.nT - 1) :
      LET a == RActionF(C.t, tr[2], x)  b == RActionF(C.min, tr[3], x) IN
      /\ a[1] = b[1]
      /\ a[1] = "r" => RuleClass(C, C.t, a[2]) = RuleClass(C, C.min, b[2])
      /\ a[1] = "la" => b = a
(* FGoto is justified on both tables *)
GotoTablesSorted == Rec => \A X \in 0..(C.nS - 1) : GotoSorted(C.min, X)
MinNoLarger == Rec => C.min.NumStates <= C.t.NumStates
=============================================================================
