---------------------------- MODULE C21Trace ----------------------------
(* C21 validation: the accessors of generated typed ASTs, called by reflection on every node of the trees *)
(* of random sentences, against AstTypes.tla and the property's four clauses.                              *)
EXTENDS AstTypes, TLC, Json, IOUtils
Cases == ndJsonDeserialize(IOEnv.VERIF_CASES)
VARIABLES blk, ci, st
vars == <<blk, ci, st>>
NBlocks == 64
Init == blk \in 0..(NBlocks-1) /\ ci = 0 /\ st = "block"
Pick == /\ st = "block"
        /\ \E i \in { i \in 1..Len(Cases) : i % NBlocks = blk } : ci' = i
        /\ st' = "recorded" /\ UNCHANGED blk
Validate == st = "recorded" /\ st' = "validated" /\ UNCHANGED <<blk, ci>>
Next == Pick \/ Validate \/ (st = "validated" /\ UNCHANGED vars)
Spec == Init /\ [][Next]_vars
C == Cases[ci]
Rec == st = "recorded"
Ran == Rec /\ C.genErr = ""
HasType(t) == \E i \in 1..Len(C.types) : C.types[i].name = t
TypeOf(t) == C.types[CHOOSE i \in 1..Len(C.types) : C.types[i].name = t]
Lower(s) == s   \* accessor names are compared by the harness-normalised spelling
AllNodes == { <<k, n>> : k \in 1..Len(C.runs), n \in 1..20 }
NodesOf(k) == 1..Len(C.runs[k].nodes)
FieldOf(T, acc) == { f \in 1..Len(T.fields) : T.fields[f].lname = acc.lname }

(* a grammar is rejected by the type inference or as conflicting, or it generates and builds *)
Generates == Rec => (C.genErr = "" \/ C.conflict \/ C.typeErr)
(* sentences of the grammar have no syntax errors *)
Parses == Ran => \A k \in 1..Len(C.runs) : C.runs[k].err = ""
(* calling any accessor on any node never panics *)
NoPanic == Ran => \A k \in 1..Len(C.runs) : \A n \in NodesOf(k) :
   \A a \in 1..Len(C.runs[k].nodes[n].acc) : C.runs[k].nodes[n].acc[a].panic = ""
(* the generated accessors are exactly the inferred fields, and each returns what the field's navigation denotes *)
AccessorsFollowFields == Ran => \A k \in 1..Len(C.runs) : \A n \in NodesOf(k) :
   LET N == C.runs[k].nodes[n] IN HasType(N.type) =>
     LET T == TypeOf(N.type) IN
     /\ Len(N.acc) = Len(T.fields)
     /\ \A a \in 1..Len(N.acc) : N.acc[a].panic = "" =>
          /\ Cardinality(FieldOf(T, N.acc[a])) = 1
          /\ LET f == T.fields[CHOOSE f \in FieldOf(T, N.acc[a]) : TRUE] IN
             /\ N.acc[a].res = Eval(f, N.kids)
             /\ N.acc[a].kind = (IF f.list THEN "list" ELSE IF f.req THEN "required" ELSE "optional")
(* required accessors return a present node; optional ones say truthfully whether there is one *)
RequiredPresent == Ran => \A k \in 1..Len(C.runs) : \A n \in NodesOf(k) :
   \A a \in 1..Len(C.runs[k].nodes[n].acc) :
     LET A == C.runs[k].nodes[n].acc[a] IN A.panic = "" =>
       /\ A.kind = "required" => (Len(A.res) = 1 /\ A.res[1] >= 1)
       /\ A.kind = "optional" => (A.ok <=> Len(A.res) = 1)
       /\ \A i \in 1..Len(A.res) : A.res[i] >= 1      \* only present children of this node
(* accessors return only nodes of their declared types *)
DeclaredTypes == Ran => \A k \in 1..Len(C.runs) : \A n \in NodesOf(k) :
   LET N == C.runs[k].nodes[n] IN HasType(N.type) =>
     \A a \in 1..Len(N.acc) : N.acc[a].panic = "" =>
        \A f \in FieldOf(TypeOf(N.type), N.acc[a]) : \A i \in 1..Len(N.acc[a].res) :
           N.acc[a].res[i] >= 1 => InSel(TypeOf(N.type).fields[f].sel, N.kids[N.acc[a].res[i]])
(* every child node is returned by at least one accessor of its parent *)
ChildrenCovered == Ran => \A k \in 1..Len(C.runs) : \A n \in NodesOf(k) :
   LET N == C.runs[k].nodes[n] IN
   \A c \in 1..Len(N.kids) : \E a \in 1..Len(N.acc) : c \in ToSet(N.acc[a].res)
=============================================================================
