---------------------------- MODULE EmitTrace ----------------------------
(* Validation of recorded runs of the generator's emission helpers (hook: the Verif functions of gen): width; the text of a table parsed back (values),   *)
(* the entries that start a line (breaks), the longest line; the switch layout (size, cases <<bucket, hash, key, action>> in order).       *)
EXTENDS Emit, TLC, Json, IOUtils
Cases == ndJsonDeserialize(IOEnv.VERIF_CASES)
VARIABLES blk, ci, st
vars == <<blk, ci, st>>
NBlocks == 64
Init == blk \in 0..(NBlocks-1) /\ ci = 0 /\ st = "block"
Pick == /\ st = "block"
        /\ \E i \in { i \in 1..Len(Cases) : i % NBlocks = blk } : ci' = i
        /\ st' = "recorded" /\ UNCHANGED blk
Validate == st = "recorded" /\ st' = "validated" /\ UNCHANGED <<blk, ci>>
Next == Pick \/ Validate \/ (st = "validated" /\ UNCHANGED vars)
Spec == Init /\ [][Next]_vars
C == Cases[ci]
Rec == st = "recorded"
ToSet(s) == { s[i] : i \in 1..Len(s) }
NoCrash == Rec => C.crash = ""
WidthExact == (Rec /\ C.k = "width" /\ C.crash = "") => C.width = Width(C.arr)
(* the text reads back as the table, and the element type holds what was read *)
LayoutRoundTrip == (Rec /\ C.k = "layout" /\ C.crash = "") => C.values = C.arr
LayoutGreedy == (Rec /\ C.k = "layout" /\ C.crash = "") => ToSet(C.breaks) = Breaks(C.arr, C.padLen, C.maxWidth)
LayoutBounded == (Rec /\ C.k = "layout" /\ C.crash = "") => C.maxLine < C.maxWidth
SwitchExact == (Rec /\ C.k = "switch" /\ C.crash = "") =>
   LET keys == ToSet(C.keys) IN
   /\ C.size = SwitchSize(keys)
   /\ Len(C.cases) = Cardinality(keys)
   /\ { C.cases[i][3] : i \in 1..Len(C.cases) } = keys                                   \* every keyword once
   /\ \A i \in 1..Len(C.cases) : /\ C.cases[i][2] = Hash(C.cases[i][3])
                                 /\ C.cases[i][1] = Bucket(C.cases[i][3], keys)
                                 /\ C.keys[C.cases[i][4]] = C.cases[i][3]                 \* its own action
   /\ \A i \in 1..(Len(C.cases) - 1) : CaseLess(C.cases[i][3], C.cases[i+1][3], keys)
=============================================================================
