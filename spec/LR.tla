---------------------------- MODULE LR ----------------------------
(* The LALR(1) construction as a definition (the oracle for lalr.Compile):                 *)
(*   canonical LR(1) item sets, merged by LR(0) core.                                      *)
(* Items are <<rule, dot, lookahead>>; rule r > 0 is grammar rule r, rule -i is the        *)
(* augmented rule of input i:  Aug_i -> N_i eoi  (eoi inputs)  or  Aug_i -> N_i  (no-eoi   *)
(* inputs, with every terminal - eoi included - as lookahead: parsing stops there and any  *)
(* terminal may follow).                                                                   *)
(* Plus Textmapper's documented specifics: LR(0) states act without lookahead; precedence  *)
(* resolution; the order in which a cell's candidate actions are merged.                   *)
EXTENDS Grammar

Rhs(g, r) == IF r > 0 THEN CleanRhs(g.rules[r].rhs)
             ELSE IF g.inputs[-r].eoi THEN <<g.inputs[-r].nt, 0>> ELSE <<g.inputs[-r].nt>>
NextSym(g, it) == LET rhs == Rhs(g, it[1]) IN IF it[2] < Len(rhs) THEN rhs[it[2]+1] ELSE -1
IsFinalItem(g, it) == it[1] < 0 /\ NextSym(g, it) = -1

RECURSIVE Closure1(_, _, _, _)
Closure1(g, nl, F, I) ==
  LET new == UNION { LET rhs == Rhs(g, it[1])
                         B == rhs[it[2]+1]
                         beta == SubSeq(rhs, it[2]+2, Len(rhs))
                         las == FirstSeq(F, nl, beta) \cup (IF SeqNullable(nl, beta) THEN {it[3]} ELSE {})
                     IN { <<r2, 0, t>> : r2 \in RulesOf(g, B), t \in las }
                   : it \in { it \in I : NextSym(g, it) >= g.nT } }
      I2 == I \cup new
  IN IF I2 = I THEN I ELSE Closure1(g, nl, F, I2)

Advance(g, I, X) == { <<it[1], it[2]+1, it[3]>> : it \in { it \in I : NextSym(g, it) = X } }
Goto1(g, nl, F, I, X) == Closure1(g, nl, F, Advance(g, I, X))

RECURSIVE States1(_, _, _, _, _)
States1(g, nl, F, seen, frontier) ==
  IF frontier = {} THEN seen
  ELSE LET nxt == { Goto1(g, nl, F, I, X) : I \in frontier, X \in Syms(g) } \ {{}}
           new == nxt \ seen
       IN States1(g, nl, F, seen \cup new, new)

Start1(g, nl, F, i) ==
  Closure1(g, nl, F, { <<-i, 0, t>> : t \in (IF g.inputs[i].eoi THEN {0} ELSE Terms(g)) })

Core(I) == { <<it[1], it[2]>> : it \in I }
RealCore(I) == { k \in Core(I) : k[1] > 0 }
(* State identity.  Textmapper keys its states by the items of real rules only: augmented  *)
(* items never take part, so the state reached from an input state over its own            *)
(* nonterminal is SHARED with any other state that has the same real items (deliberate     *)
(* deviation from the textbook construction, modelled here; its run-time consequences are   *)
(* judged by the parser-level checks).  Input states (one per input, never shared) and      *)
(* states made of augmented items only keep their full core as identity.                    *)
Key(I) == IF (\E it \in I : it[1] < 0 /\ it[2] = 0) \/ RealCore(I) = {} THEN Core(I) ELSE RealCore(I)

(* LALR(1) by merging while constructing: states are identified by KeyOf(mode, I); an item  *)
(* set reached again under the same identity is united with the existing one and the new     *)
(* lookaheads are propagated on until nothing changes.                                       *)
(*   mode "canonical": identity = full LR(0) core, augmented items included - the textbook   *)
(*                     LALR(1) (equal to canonical LR(1) merged by core, see AnalyseLR1);     *)
(*   mode "shared":    identity = Key (Textmapper's), see above.                              *)
KeyOf(mode, I) == IF mode = "canonical" THEN Core(I) ELSE Key(I)

RECURSIVE LalrFix(_, _, _, _, _)
LalrFix(g, nl, F, mode, M) ==
  LET targets == { Goto1(g, nl, F, M[k], X) : k \in DOMAIN M, X \in Syms(g) } \ {{}}
      keys2 == (DOMAIN M) \cup { KeyOf(mode, J) : J \in targets }
      M2 == [k \in keys2 |-> (IF k \in DOMAIN M THEN M[k] ELSE {}) \cup UNION { J \in targets : KeyOf(mode, J) = k }]
  IN IF M2 = M THEN M ELSE LalrFix(g, nl, F, mode, M2)

AnalyseMode(g, mode) ==
  LET nl == NullableSet(g)
      F == FirstSets(g, nl)
      starts == [i \in 1..NIn(g) |-> Start1(g, nl, F, i)]
      K0 == { KeyOf(mode, starts[i]) : i \in 1..NIn(g) }
      M0 == [k \in K0 |-> UNION { starts[i] : i \in { i \in 1..NIn(g) : KeyOf(mode, starts[i]) = k } }]
      M == LalrFix(g, nl, F, mode, M0)
  IN [nl |-> nl, F |-> F,
      starts |-> [i \in 1..NIn(g) |-> KeyOf(mode, starts[i])],
      cores |-> DOMAIN M,
      merged |-> M]
Analyse(g) == AnalyseMode(g, "canonical")

(* second formulation of the canonical construction: canonical LR(1), then merge by core *)
AnalyseLR1(g) ==
  LET nl == NullableSet(g)
      F == FirstSets(g, nl)
      starts == [i \in 1..NIn(g) |-> Start1(g, nl, F, i)]
      S0 == { starts[i] : i \in 1..NIn(g) }
      S1 == States1(g, nl, F, S0, S0)
      keys == { Core(I) : I \in S1 }
  IN [nl |-> nl, F |-> F, nLR1 |-> Cardinality(S1),
      starts |-> [i \in 1..NIn(g) |-> Core(starts[i])],
      cores |-> keys,
      merged |-> [c \in keys |-> UNION { I \in S1 : Core(I) = c }]]

(* LALR goto on state identities ({} = no transition) *)
GotoCore(g, A, c, X) ==
  LET J == Advance(g, A.merged[c], X)
  IN IF J = {} THEN {} ELSE Core(Closure1(g, A.nl, A.F, J))

(* Where Textmapper's state identity (Key above) conflates two states that the canonical    *)
(* construction keeps apart: they have the same real items and differ only in an augmented   *)
(* item, i.e. the state entered from an input state over that input's nonterminal is also    *)
(* entered from elsewhere.  (Known finding 9: premature accept / spurious eoi lookahead.)     *)
Conflated(g, A) ==
  \E k1, k2 \in A.cores : /\ k1 # k2
                           /\ { k \in k1 : k[1] > 0 } = { k \in k2 : k[1] > 0 }
                           /\ { k \in k1 : k[1] > 0 } # {}
                           /\ ~(\E k \in k1 \cup k2 : k[1] < 0 /\ k[2] = 0)

(* ---- per LALR state (merged item set Q) *)
ReduceItems(g, Q) == { it \in Q : it[1] > 0 /\ NextSym(g, it) = -1 }
AllReduces(g, Q) == { it[1] : it \in ReduceItems(g, Q) }                    \* rules, 1-based
Reduces(g, Q, t) == { it[1] : it \in { it \in ReduceItems(g, Q) : it[3] = t } }
ShiftSyms(g, Q) == { NextSym(g, it) : it \in Q } \ {-1}
TermShifts(g, Q) == { x \in ShiftSyms(g, Q) : x < g.nT }
HasFinalItem(g, Q) == \E it \in Q : IsFinalItem(g, it)
(* Textmapper: a state with no reduction, or one reduction and no terminal shift, needs no lookahead *)
IsLR0(g, Q) == LET red == AllReduces(g, Q) IN red = {} \/ (Cardinality(red) = 1 /\ TermShifts(g, Q) = {})

(* ---- precedence (documented rule) *)
RulePrecTerm(g, r) ==
  IF g.rules[r].prec # 0 THEN g.rules[r].prec
  ELSE LET rhs == g.rules[r].rhs
           idx == { i \in 1..Len(rhs) : rhs[i] > 0 /\ rhs[i] < g.nT }
       IN IF idx = {} THEN 0 ELSE rhs[CHOOSE i \in idx : \A j \in idx : j <= i]
PrecGroups(g, t) == { k \in 1..Len(g.prec) : \E j \in 1..Len(g.prec[k].terms) : g.prec[k].terms[j] = t }
PrecGroup(g, t) == LET ks == PrecGroups(g, t) IN IF ks = {} THEN 0 ELSE CHOOSE k \in ks : \A k2 \in ks : k2 <= k
ResolvePrec(g, r, t) ==     \* r: 1-based rule; result \in {"shift","reduce","error","conflict"}
  LET p == RulePrecTerm(g, r) IN
  IF p = 0 \/ t = 0 THEN "conflict"
  ELSE LET gr == PrecGroup(g, p)  gs == PrecGroup(g, t) IN
       IF gr = 0 \/ gs = 0 THEN "conflict"
       ELSE IF gr > gs THEN "reduce"
       ELSE IF gr < gs THEN "shift"
       ELSE CASE g.prec[gs].assoc = "left" -> "reduce"
              [] g.prec[gs].assoc = "right" -> "shift"
              [] g.prec[gs].assoc = "nonassoc" -> "error"

(* ---- merging the candidate actions of one cell (state, terminal): the shift first, then  *)
(* the reductions in increasing rule order.  act: -2 none, -1 shift, -3 nonassoc error,     *)
(* r >= 0 reduce implementation rule r.  amb: an ambiguity was recorded; res its resolution; *)
(* cs: it was first recorded against a shift.                                               *)
AddAmb(st, res, canShift) ==
  [st EXCEPT !.amb = TRUE,
             !.cs = IF st.amb THEN st.cs ELSE canShift,
             !.res = IF st.amb /\ st.res # res THEN "conflict" ELSE res]
CellStep(g, t, st, r) ==     \* r: 1-based rule
  IF st.act = -2 THEN [st EXCEPT !.act = r - 1]
  ELSE IF (st.amb /\ st.res = "conflict") \/ st.act = -3
       THEN AddAmb(st, "conflict", TRUE)              \* already unresolved / sticky nonassoc error
  ELSE IF st.act = -1
       THEN LET res == ResolvePrec(g, r, t) IN
            [AddAmb(st, res, TRUE) EXCEPT !.act = CASE res = "reduce" -> r - 1 [] res = "error" -> -3 [] OTHER -> -1]
  ELSE AddAmb(st, "conflict", FALSE)                  \* reduce/reduce: the earlier rule stays
RECURSIVE CellFold(_, _, _, _)
CellFold(g, t, st, rs) ==
  IF rs = {} THEN st
  ELSE LET r == CHOOSE r \in rs : \A r2 \in rs : r <= r2 IN CellFold(g, t, CellStep(g, t, st, r), rs \ {r})
Cell(g, Q, t) ==
  CellFold(g, t, [act |-> IF t \in TermShifts(g, Q) THEN -1 ELSE -2, amb |-> FALSE, cs |-> FALSE, res |-> "none"],
           Reduces(g, Q, t))
CellUnresolved(c) == c.amb /\ c.res = "conflict"
(* decoded expectation: <<"s">>, <<"r", rule0>>, <<"e">> *)
CellAction(c) == IF c.act = -1 THEN <<"s">> ELSE IF c.act >= 0 THEN <<"r", c.act>> ELSE <<"e">>
=============================================================================
