---------------------------- MODULE C17Gen ----------------------------
(* Option valuations for Go-target grammars (C17): for each base grammar a home valuation   *)
(* and every valuation within two flips of it over the boolean options (all single and all    *)
(* pairwise changes), i.e. every 2-way interaction with the base's own features.              *)
EXTENDS Integers, Sequences, FiniteSets, TLC, Json, IOUtils, SequencesExt
Stride == atoi(IOEnv.VERIF_C17_STRIDE)
Offset == atoi(IOEnv.VERIF_C17_OFFSET)
Options == <<"eventBased", "eventFields", "eventAST", "fixWhitespace", "tokenStream", "cancellable", "cancellableFetch", "recursiveLookaheads",
             "optimizeTables", "defaultReduce", "minimizeDFA", "tokenLine", "tokenLineOffset", "tokenColumn", "scanBytes", "nonBacktracking",
             "caseInsensitive", "writeBison", "debugParser", "genSelector", "genParser", "skipByteOrderMark", "noEmptyRules">>
NOpt == Len(Options)
(* home valuations: only the options listed are written into the grammar; the rest keep their defaults *)
Home == [lexeronly |-> {}, plain |-> {}, events |-> {"eventBased"}, lookaheads |-> {"eventBased"}, lalrk |-> {"eventBased"}]
Bases == <<"lexeronly", "plain", "events", "lookaheads", "lalrk">>
Flips == { {} } \cup { {i} : i \in 1..NOpt } \cup { {i, j} : i \in 1..NOpt, j \in 1..NOpt }
(* a configuration writes exactly the flipped options (value = negation of home/default) plus the home ones *)
DefaultTrue == {"tokenLine", "genParser", "skipByteOrderMark"}
ValueOf(base, name, flipped) ==
  LET homeVal == (name \in Home[base]) \/ (name \in DefaultTrue) IN IF flipped THEN ~homeVal ELSE homeVal
Config(base, F) ==
  [base |-> base, k |-> IF base = "lalrk" THEN 2 ELSE 0,
   opts |-> [n \in ({ Options[i] : i \in F } \cup Home[base]) |-> ValueOf(base, n, \E i \in F : Options[i] = n)]]
(* every single flip is always emitted; the stride samples the pairwise ones *)
All == SetToSeq({ [c |-> Config(Bases[b], F), n |-> Cardinality(F)] : b \in 1..Len(Bases), F \in Flips })
Out == SelectSeq([i \in 1..Len(All) |-> [i |-> i, c |-> All[i].c, n |-> All[i].n]], LAMBDA x : x.n <= 1 \/ x.i % Stride = Offset)
ASSUME PrintT(<<"c17gen configs", Len(All), "emitted", Len(Out)>>)
ASSUME ndJsonSerialize(IOEnv.VERIF_OUT, [i \in 1..Len(Out) |-> Out[i].c])
VARIABLE x
Init == x = 0
Next == UNCHANGED x
=============================================================================
