---------------------------- MODULE Sugar ----------------------------
(* Extended grammar notation (C13): what it denotes, independently of how it is desugared.   *)
(* Expression AST (from JSON), symbols in the compiled grammar's numbering:                    *)
(*   [k |-> "t", s]  terminal      [k |-> "n", s]  nonterminal     [k |-> "seq" | "alt", sub]   *)
(*   [k |-> "opt", sub |-> <<e>>]   [k |-> "list", sub |-> <<e>> or <<e, sep>>, plus |-> BOOLEAN] *)
(*   [k |-> "set", c |-> <<terminals>>, op |-> "or" | "and"]   [k |-> "la", s]  lookahead marker  *)
(* A source grammar is a sequence of [sym, e].  Denotation: the least family of languages        *)
(* (sets of terminal strings of length <= L) closed under the rules below.                        *)
EXTENDS Grammar

ConcatL(S1, S2, L) == ConcatUpTo(S1, S2, L)
ToSetS(s) == { s[i] : i \in 1..Len(s) }

RECURSIVE PlusFix(_, _, _, _)
PlusFix(E, Sep, X, L) ==     \* least X with X = E \cup X.Sep.E
  LET X2 == X \cup E \cup ConcatL(ConcatL(X, Sep, L), E, L)
  IN IF X2 = X THEN X ELSE PlusFix(E, Sep, X2, L)

RECURSIVE DenE(_, _, _)
DenE(e, D, L) ==
  CASE e.k = "t" -> IF L >= 1 THEN { <<e.s>> } ELSE {}
    [] e.k = "n" -> D[e.s]
    [] e.k = "la" -> { <<>> }                                   \* a lookahead marker derives the empty string
    [] e.k = "set" -> LET members == IF e.op = "or" THEN ToSetS(e.c)
                                     ELSE { x \in ToSetS(e.c) : \A i \in 1..Len(e.c) : e.c[i] = x }
                      IN IF L >= 1 THEN { <<x>> : x \in members } ELSE {}
    [] e.k = "seq" -> LET RECURSIVE S(_) S(i) == IF i > Len(e.sub) THEN { <<>> } ELSE ConcatL(DenE(e.sub[i], D, L), S(i + 1), L) IN S(1)
    [] e.k = "alt" -> UNION { DenE(e.sub[i], D, L) : i \in 1..Len(e.sub) }
    [] e.k = "opt" -> { <<>> } \cup DenE(e.sub[1], D, L)
    [] e.k = "list" ->
         LET E == DenE(e.sub[1], D, L)
             Sep == IF Len(e.sub) = 2 THEN DenE(e.sub[2], D, L) ELSE { <<>> }
             P == PlusFix(E, Sep, {}, L)
         IN IF e.plus THEN P ELSE { <<>> } \cup P

RECURSIVE SugarFix(_, _, _)
SugarFix(src, D, L) ==
  LET D2 == [A \in DOMAIN D |-> D[A] \cup UNION { DenE(src[i].e, D, L) : i \in { i \in 1..Len(src) : src[i].sym = A } }]
  IN IF D2 = D THEN D ELSE SugarFix(src, D2, L)
SugarDen(src, L) == SugarFix(src, [A \in { src[i].sym : i \in 1..Len(src) } |-> {}], L)
=============================================================================
