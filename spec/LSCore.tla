---------------------------- MODULE LSCore ----------------------------
(* C23: the sequential meaning of a language-server session, shared by the design model (LS.tla)  *)
(* and the trace validation (LSTrace.tla).                                                          *)
(* A client op: [k |-> "open" | "change" | "change0" | "close" | "def", u, c, v, id, line, ch]       *)
(*   u: document, c: content id (> 0), v: version, id: request id of a definition request;           *)
(*   "change0" is a didChange notification without content changes, "save" a didSave, "cancel" a      *)
(*   $/cancelRequest for request id: none of them changes a document or produces output; a cancelled  *)
(*   request may be answered with an error instead of a result.                                        *)
EXTENDS Integers, Sequences, FiniteSets

IsEdit(op) == op.k \in {"open", "change"}
(* what the server must publish, in this order: one diagnostics notification per open/change *)
ExpDiags(ops) == SelectSeq(ops, IsEdit)
(* content of document u as seen by the k-th op: that of the last open/change before it, 0 if none or closed since *)
LatestBefore(ops, k, u) ==
  LET J == { j \in 1..(k-1) : ops[j].u = u /\ ops[j].k \in {"open", "change", "close"} }
  IN IF J = {} THEN 0
     ELSE LET j == CHOOSE j \in J : \A i \in J : i <= j
          IN IF ops[j].k = "close" THEN 0 ELSE ops[j].c
VersionBefore(ops, k, u) ==
  LET J == { j \in 1..(k-1) : ops[j].u = u /\ ops[j].k \in {"open", "change", "close"} }
  IN IF J = {} THEN 0
     ELSE LET j == CHOOSE j \in J : \A i \in J : i <= j
          IN IF ops[j].k = "close" THEN 0 ELSE ops[j].v
IsPrefixOf(s, t) == Len(s) <= Len(t) /\ \A i \in 1..Len(s) : s[i] = t[i]

(* ---- positions: a content table T = [len16 (UTF-16 length of every line), mid (per line, the offsets that fall   *)
(* between the two code units of an astral character), ids (identifier occurrences [name, nav, line, sc, ec]),       *)
(* diags (expected diagnostics [line, ch, msg])]; all columns in UTF-16 code units, lines 0-based                    *)
ValidPos(T, line, ch) == line < Len(T.len16) /\ ch <= T.len16[line + 1] /\ \A i \in 1..Len(T.mid[line + 1]) : T.mid[line + 1][i] # ch
InsideDoc(T, line, ch) == line < Len(T.len16) /\ ch <= T.len16[line + 1]
IdsAt(T, line, ch) == { i \in 1..Len(T.ids) : T.ids[i].line = line /\ T.ids[i].sc <= ch /\ ch <= T.ids[i].ec }
LocIsId(loc, id) == loc.sl = id.line /\ loc.el = id.line /\ loc.sc = id.sc /\ loc.ec = id.ec
=============================================================================
