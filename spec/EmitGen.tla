---------------------------- MODULE EmitGen ----------------------------
(* bounded universes for Emit: arrays over the boundary values of the element types; arrays of entries of different widths with line    *)
(* widths that force breaks; key sets around the bucket-count thresholds                                                                 *)
EXTENDS Emit, TLC, Json, IOUtils, SequencesExt
Bnd == { -32769, -32768, -129, -128, 0, 127, 128, 32767, 32768 }
SeqsUpTo(S, n) == UNION { [1..k -> S] : k \in 1..n }
WidthCases == { [k |-> "width", arr |-> a] : a \in SeqsUpTo(Bnd, 3) }
Vals == { 0, -7, 123, -12345 }
LayoutCases == { [k |-> "layout", arr |-> a, padLen |-> p, maxWidth |-> w] : a \in SeqsUpTo(Vals, 5), p \in {1, 2}, w \in {10, 12, 17} }
Small == { <<97>>, <<98>>, <<233>>, <<97, 97>>, <<97, 98>>, <<98, 97>>, <<233, 97>>, <<8364>>, <<97, 8364>> }
Family(n) == { <<107, 97 + i>> : i \in 0..(n - 1) }
KeySets == { s \in SUBSET Small : Cardinality(s) \in 1..3 } \cup { Family(n) : n \in {7, 8, 9, 16, 17, 33} }
SwitchCases == { [k |-> "switch", keys |-> SetToSeq(s)] : s \in KeySets }
Out == SetToSeq(WidthCases) \o SetToSeq(LayoutCases) \o SetToSeq(SwitchCases)
ASSUME PrintT(<<"emitgen", Cardinality(WidthCases), Cardinality(LayoutCases), Cardinality(SwitchCases)>>)
ASSUME ndJsonSerialize(IOEnv.VERIF_OUT, Out)
VARIABLE x
Init == x = 0
Next == UNCHANGED x
=============================================================================
