---------------------------- MODULE C20Gen ----------------------------
(* All well-nested event streams of 1..MaxNodes nodes over positions 0..Len. *)
EXTENDS TreeBuilder, TLC, Json, IOUtils, SequencesExt
MaxNodes == atoi(IOEnv.VERIF_C20_NODES)
L == atoi(IOEnv.VERIF_C20_LEN)
Ranges == { <<s, e>> : s \in 0..L, e \in 0..L } \cap { r \in (0..L) \X (0..L) : r[1] <= r[2] }
RECURSIVE Streams(_)
Streams(k) == IF k = 0 THEN { <<>> }
              ELSE LET prev == Streams(k - 1) IN
                   prev \cup { Append(s, <<Len(s) + 1, r[1], r[2]>>) : s \in { s \in prev : Len(s) = k - 1 }, r \in Ranges }
All == { s \in Streams(MaxNodes) : Len(s) > 0 /\ WellNested(s, L) }
Out == LET q == SetToSeq(All) IN [i \in 1..Len(q) |-> [len |-> L, ev |-> q[i]]]
ASSUME PrintT(<<"c20gen streams", Len(Out)>>)
ASSUME ndJsonSerialize(IOEnv.VERIF_OUT, Out)
VARIABLE x
Init == x = 0
Next == UNCHANGED x
=============================================================================
