---------------------------- MODULE Options ----------------------------
(* The option block of a grammar file: a sequence of assignments name = value for a target language.  *)
(* Every option has a type and, for some, the target languages it is meant for.  Processing reports      *)
(* (at the key) unknown options, options foreign to the target and re-initialisations, and (at the        *)
(* value or list element) values of the wrong type; an ill-typed value leaves the option as it was, a      *)
(* well-typed one is stored - also when the option is foreign to the target or assigned before.           *)
EXTENDS Integers, Sequences, FiniteSets
(* representative options: name |-> <<type, languages ({} = all), default>> *)
Decl == [ package       |-> << "string", {"go"},       "" >>,
          eventBased    |-> << "bool",   {},           "false" >>,
          tokenLine     |-> << "bool",   {},           "true" >>,
          cancellable   |-> << "bool",   {"go"},       "false" >>,
          eventFields   |-> << "bool",   {"go"},       "false" >>,
          fixWhitespace |-> << "bool",   {"go", "ts"}, "false" >>,
          maxLookahead  |-> << "int",    {},           "0" >>,
          nodePrefix    |-> << "string", {},           "" >>,
          namespace     |-> << "string", {"cc"},       "" >>,
          disableSyntax |-> << "strings", {},          "[]" >>,
          lang          |-> << "ignored-string", {},   "" >> ]
Known == DOMAIN Decl
(* value spellings and their kinds; the stored form is the spelling itself ("[s]" for a list of one string, "[]" for none) *)
Kind == [ vtrue |-> "bool", vfalse |-> "bool", v7 |-> "int", vs |-> "string", vlist |-> "strings", vintlist |-> "intlist", vempty |-> "strings" ]
Stored == [ vtrue |-> "true", vfalse |-> "false", v7 |-> "7", vs |-> "s", vlist |-> "[s]", vintlist |-> "[]", vempty |-> "[]" ]
Values == DOMAIN Kind
TypeOf(n) == IF Decl[n][1] = "ignored-string" THEN "string" ELSE Decl[n][1]
(* is the value accepted for the option; a list of non-strings is a list whose elements are each rejected *)
WellTyped(n, v) == \/ Kind[v] = TypeOf(n)
                   \/ (TypeOf(n) = "strings" /\ Kind[v] = "intlist")
(* errors: <<category, index of the assignment, place>> *)
ErrorsOf(assigns, target) ==
  UNION { LET a == assigns[i] IN
          (IF a.name \notin Known THEN { << "unknown", i, "key" >> } ELSE {})
          \cup (IF a.name \in Known /\ Decl[a.name][2] # {} /\ target \notin Decl[a.name][2] THEN { << "language", i, "key" >> } ELSE {})
          \cup (IF \E j \in 1..(i-1) : assigns[j].name = a.name THEN { << "reinit", i, "key" >> } ELSE {})
          \cup (IF a.name \in Known /\ ~WellTyped(a.name, a.value) THEN { << "type", i, "value" >> } ELSE {})
          \cup (IF a.name \in Known /\ TypeOf(a.name) = "strings" /\ Kind[a.value] = "intlist" THEN { << "element", i, "elem" >> } ELSE {})
        : i \in 1..Len(assigns) }
(* the value an option ends up with *)
Final(n, assigns) ==
  LET F[i \in 0..Len(assigns)] ==
        IF i = 0 THEN Decl[n][3]
        ELSE IF assigns[i].name = n /\ WellTyped(n, assigns[i].value) /\ Decl[n][1] # "ignored-string" THEN Stored[assigns[i].value] ELSE F[i-1]
  IN F[Len(assigns)]
=============================================================================
