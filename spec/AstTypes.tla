---------------------------- MODULE AstTypes ----------------------------
(* C21: what a typed accessor returns on a node, as a function of the node's children.                 *)
(* A field (from the type inference, grammar.Parser.Types): [name, sel (concrete node types), req, list, *)
(* chain]: chain = the navigation steps [sel, list]; the first step looks among the children from the    *)
(* start, every further step among the right siblings of the node found by the previous one; the last     *)
(* step returns the first match, or all matches when the field is a list.                                  *)
(* kids: the sequence of the children's node types. Results are sequences of child indices (1-based).      *)
EXTENDS Integers, Sequences, FiniteSets

InSel(sel, t) == \E i \in 1..Len(sel) : sel[i] = t
FirstAfter(kids, pos, sel) ==       \* 0 if none
  LET M == { i \in (pos+1)..Len(kids) : InSel(sel, kids[i]) } IN
  IF M = {} THEN 0 ELSE CHOOSE i \in M : \A j \in M : i <= j
AllAfter(kids, pos, sel) == SelectSeq([i \in 1..Len(kids) |-> i], LAMBDA i : i > pos /\ InSel(sel, kids[i]))
RECURSIVE Walk(_, _, _, _)
Walk(chain, k, kids, pos) ==        \* pos: index of the node found so far (0: the start), -1: lost
  IF pos = -1 THEN <<>>
  ELSE IF k = Len(chain) THEN
         (IF chain[k].list THEN AllAfter(kids, pos, chain[k].sel)
          ELSE LET i == FirstAfter(kids, pos, chain[k].sel) IN IF i = 0 THEN <<>> ELSE <<i>>)
  ELSE LET i == FirstAfter(kids, pos, chain[k].sel) IN Walk(chain, k + 1, kids, IF i = 0 THEN -1 ELSE i)
Eval(field, kids) == Walk(field.chain, 1, kids, 0)
ToSet(s) == { s[i] : i \in 1..Len(s) }
=============================================================================
