---------------------------- MODULE ActionRefs ----------------------------
(* C16: what the $-references of a semantic action denote, by token provenance.                          *)
(* The grammars of the universe use every terminal in exactly one place, and every rule starts with its   *)
(* own marker terminal. When an action of rule R runs, the instance of R being parsed consists of the      *)
(* tokens from the marker of R that is topmost on the parser stack up to the end of the last symbol on     *)
(* the stack. A reference to an element E of the rule denotes the tokens of that instance that can only    *)
(* come from E (E's terminals): its value is that of the single symbol (a terminal carries its offset, a   *)
(* helper nonterminal 1000 + its offset), its offset that of the first such token, its end offset that of  *)
(* the last; if the instance has no token of E, E is absent from this expansion: nil (coded -1) and -1.    *)
EXTENDS Integers, Sequences, FiniteSets

AtLeast(x) == -1000 - x        \* "x or more" (see Matches)
Min(S) == CHOOSE x \in S : \A y \in S : x <= y
Max(S) == CHOOSE x \in S : \A y \in S : y <= x
ToSet(s) == { s[i] : i \in 1..Len(s) }
(* the record of one execution: stack = sequence of <<symbol, offset, endoffset>>, bottom first *)
MarkerIdx(stack, marker) == { i \in 1..Len(stack) : stack[i][1] = marker }
SegStart(stack, marker) == stack[Max(MarkerIdx(stack, marker))][2]
CurEnd(stack) == stack[Len(stack)][3]
SegTokens(tokens, from, to) == { i \in 1..Len(tokens) : tokens[i][2] >= from /\ tokens[i][3] <= to }
(* expected values of one reference, in the order the action records them *)
Expected(ref, tokens, stack, marker) ==
  LET from == SegStart(stack, marker)
      to == CurEnd(stack)
      mine == { i \in SegTokens(tokens, from, to) : tokens[i][1] \in ToSet(ref.terms) }
      off == IF mine = {} THEN -1 ELSE Min({ tokens[i][2] : i \in mine })
      end == IF mine = {} THEN -1 ELSE Max({ tokens[i][3] : i \in mine })
      first == IF mine = {} THEN 0 ELSE CHOOSE i \in mine : tokens[i][2] = off
      val == IF mine = {} THEN -1 ELSE IF tokens[first][1] \in ToSet(ref.hterms) THEN 1000 + off ELSE off
      Any == -99          \* a nullable list without tokens is present and empty: where it sits is not checked
      sorted == LET RECURSIVE Srt(_) Srt(T) == IF T = {} THEN <<>> ELSE <<Min(T)>> \o Srt(T \ {Min(T)}) IN Srt(mine)
  IN CASE ref.form = "occ" ->          \* the occ-th occurrence of a repeated symbol, -1 if the instance has fewer
            IF ref.occ + 1 <= Len(sorted) THEN <<tokens[sorted[ref.occ + 1]][2], tokens[sorted[ref.occ + 1]][3]>> ELSE <<-1, -1>>
       [] ref.star /\ mine = {} -> IF ref.val = "none" THEN <<Any, Any>> ELSE <<Any, Any, Any>>
       [] ref.form = "first" -> <<from>>
       [] ref.form = "last" -> <<to>>
       [] ref.form = "left" -> <<from, to>>
       \* an element that contains a nullable list may end with it: then it ends where the empty list sits (at the next token)
       [] ref.val = "none" -> <<off, IF ref.star THEN AtLeast(end) ELSE end>>
       [] OTHER -> <<val, off, IF ref.star THEN AtLeast(end) ELSE end>>
RECURSIVE ExpectedAll(_, _, _, _, _)
ExpectedAll(refs, k, tokens, stack, marker) ==
  IF k > Len(refs) THEN <<>> ELSE Expected(refs[k], tokens, stack, marker) \o ExpectedAll(refs, k + 1, tokens, stack, marker)
Matches(obs, exp) == Len(obs) = Len(exp) /\ \A i \in 1..Len(exp) :
   \/ exp[i] = -99 \/ obs[i] = exp[i]
   \/ (exp[i] <= -1000 /\ obs[i] >= -(exp[i] + 1000))
=============================================================================
