---------------------------- MODULE Imports ----------------------------
(* gen.ExtractGoImports: generated Go text refers to other packages by "special" qualified      *)
(* names ("fmt".Sprintf, "unicode/utf8".RuneLen, "encoding/json as enc".Marshal); the post-      *)
(* processor rewrites each to alias.Name and inserts one import block after the package clause. *)
(* This module is the sequential meaning of that step for the documented format: a source is a   *)
(* sequence of references; a reference names a path (by index into Paths), an optional explicit   *)
(* alias and a selected name.                                                                    *)
EXTENDS Integers, Sequences, FiniteSets
(* Paths, sorted the way the import block is (standard packages first, each class by path). *)
Paths   == << "bufio", "fmt", "unicode/utf8", "example.com/a/lib", "github.com/x/fmtx" >>
LastSeg == << "bufio", "fmt", "utf8", "lib", "fmtx" >>
IsStd   == << TRUE, TRUE, TRUE, FALSE, FALSE >>
Aliases == << "", "enc", "fmt2", "lib" >>                (* "": none; "lib" equals a last segment *)
(* the alias a reference is rewritten to *)
Eff(r) == IF r.alias = "" THEN LastSeg[r.path] ELSE r.alias
Used(refs) == { refs[i].path : i \in 1..Len(refs) }
(* the documented format: one alias per path, different paths under different names *)
Consistent(refs) ==
  /\ \A i, j \in 1..Len(refs) : refs[i].path = refs[j].path => Eff(refs[i]) = Eff(refs[j])
  /\ \A i, j \in 1..Len(refs) : refs[i].path # refs[j].path => Eff(refs[i]) # Eff(refs[j])
(* the rewritten references, in order *)
Selectors(refs) == [i \in 1..Len(refs) |-> << Eff(refs[i]), refs[i].name >>]
(* the import block: every used path once, in Paths order; the name is written only when it differs from the last segment *)
RECURSIVE ImportsFrom(_, _)
ImportsFrom(k, refs) ==
  IF k > Len(Paths) THEN << >>
  ELSE IF k \notin Used(refs) THEN ImportsFrom(k + 1, refs)
  ELSE LET r == refs[CHOOSE i \in 1..Len(refs) : refs[i].path = k]
       IN << << (IF Eff(r) = LastSeg[k] THEN "" ELSE Eff(r)), Paths[k] >> >> \o ImportsFrom(k + 1, refs)
ImportBlock(refs) == ImportsFrom(1, refs)
(* a blank line separates standard from other packages: position (1-based) of the first non-standard import if both kinds occur, else 0 *)
GroupBreak(refs) ==
  LET std == Cardinality({ k \in Used(refs) : IsStd[k] })
  IN IF std > 0 /\ std < Cardinality(Used(refs)) THEN std + 1 ELSE 0
=============================================================================
