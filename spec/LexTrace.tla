---------------------------- MODULE LexTrace ----------------------------
(* C09 / C24: recorded scans of real lex.Tables (and of shiftdfa scanners packed from the    *)
(* same rules) against Regex!LongestMatch.  A case: rules (ASTs with prio/action/sc), the      *)
(* symbolic alphabet description (width, canon as sequences indexed by symbol), nsc start      *)
(* conditions, err (compile error text), scans: sequence of [sc, t, size, action] and, when    *)
(* the shift-DFA compiler accepted the rules, sdfa: sequence of [t, size, action].             *)
EXTENDS Regex, TLC, Json, IOUtils

Cases == ndJsonDeserialize(IOEnv.VERIF_CASES)

VARIABLES blk, ci, st
vars == <<blk, ci, st>>
NBlocks == 64
Init == blk \in 0..(NBlocks-1) /\ ci = 0 /\ st = "block"
Pick == /\ st = "block"
        /\ \E i \in { i \in 1..Len(Cases) : i % NBlocks = blk } : ci' = i
        /\ st' = "recorded" /\ UNCHANGED blk
Validate == st = "recorded" /\ st' = "validated" /\ UNCHANGED <<blk, ci>>
Next == Pick \/ Validate \/ (st = "validated" /\ UNCHANGED vars)
Spec == Init /\ [][Next]_vars

C == Cases[ci]
Rec == st = "recorded"
Width(c) == [s \in 1..Len(c.width) |-> c.width[s]]
Canon(c) == [s \in 1..Len(c.canon) |-> c.canon[s]]

NoCrash == Rec => C.crash = ""
(* rules that accept the empty string must be rejected, others with distinct languages compile *)
CompileVerdict == Rec => (AcceptsEmpty(C.rules) => C.err # "")
ScansConform ==
  (Rec /\ C.err = "") =>
     \A k \in 1..Len(C.scans) :
        LET s == C.scans[k] IN LongestMatch(C.rules, s.sc, s.t, Width(C), Canon(C)) = <<s.size, s.action>>
(* C24: whenever the shift-DFA compiler accepts the rule set its scanner agrees with the oracle
   (and hence with the lexer tables validated above) on every recorded byte string *)
ShiftDfaConforms ==
  (Rec /\ C.sdfaOk) =>
     \A k \in 1..Len(C.sdfa) :
        LET s == C.sdfa[k] IN LongestMatch(C.rules, 0, s.t, Width(C), Canon(C)) = <<s.size, s.action>>
DebugAlias == [ci |-> ci, bad |-> IF st # "recorded" \/ C.err # "" THEN {} ELSE
   { <<C.scans[k], LongestMatch(C.rules, C.scans[k].sc, C.scans[k].t, Width(C), Canon(C))>> :
       k \in { k \in 1..Len(C.scans) : LongestMatch(C.rules, C.scans[k].sc, C.scans[k].t, Width(C), Canon(C)) # <<C.scans[k].size, C.scans[k].action>> } }]
DebugAlias2 == [ci |-> ci, bad |-> IF st # "recorded" \/ ~C.sdfaOk THEN {} ELSE
   { <<C.sdfa[k], LongestMatch(C.rules, 0, C.sdfa[k].t, Width(C), Canon(C))>> :
       k \in { k \in 1..Len(C.sdfa) : LongestMatch(C.rules, 0, C.sdfa[k].t, Width(C), Canon(C)) # <<C.sdfa[k].size, C.sdfa[k].action>> } }]
=============================================================================
