---------------------------- MODULE C10Gen ----------------------------
(* Universe of well-formed single-character patterns (every documented spelling of a code   *)
(* point, ranges, \d \w \s, \p{..} in all four styles, '.', negation, subtraction) under     *)
(* all four {fold} x {bytes} combinations, and named malformed spellings.                    *)
EXTENDS Integers, Sequences, FiniteSets, TLC, Json, IOUtils, SequencesExt

Stride == atoi(IOEnv.VERIF_C10_STRIDE)
Offset == atoi(IOEnv.VERIF_C10_OFFSET)

Ch(cp, form) == [k |-> "ch", cp |-> cp, form |-> form]
FormsOf(cp) ==
  (IF cp \in {97, 122, 65, 75, 107, 115, 83, 48, 57, 95, 233, 383, 837, 8490, 8551, 9398, 119070} THEN {"raw"} ELSE {})
  \cup (IF cp <= 255 THEN {"x2", "oct"} ELSE {})
  \cup (IF cp <= 65535 THEN {"u4"} ELSE {})
  \cup {"U8", "xb"}
  \cup (IF cp \in {45, 93, 46, 92, 94} THEN {"bs"} ELSE {})
  \cup (IF cp \in {9, 10, 13} THEN {"ctl"} ELSE {})
CPs == {1, 9, 10, 45, 46, 48, 57, 65, 75, 83, 92, 93, 94, 95, 97, 107, 115, 122, 127, 128, 233, 254, 255, 383, 837, 8490, 8551, 9398, 119070, 1114110, 1114111}
Chars == UNION { { Ch(cp, f) : f \in FormsOf(cp) } : cp \in CPs }
Rng(lo, flo, hi, fhi) == [k |-> "range", lo |-> lo, hi |-> hi, flo |-> flo, fhi |-> fhi]
Ranges == { Rng(97, "raw", 122, "raw"), Rng(65, "raw", 90, "x2"), Rng(48, "raw", 57, "raw"), Rng(97, "u4", 107, "raw"),
            Rng(107, "raw", 115, "raw"), Rng(128, "x2", 255, "x2"), Rng(233, "raw", 383, "u4"), Rng(0, "x2", 1114111, "U8"),
            Rng(75, "raw", 8490, "u4"), Rng(45, "bs", 48, "raw"), Rng(200, "oct", 255, "oct"),
            (* one short of either end of the code space (rune and byte mode): the gap a complement has to fill is one code point wide *)
            Rng(0, "x2", 1114110, "U8"), Rng(0, "x2", 254, "x2"), Rng(1, "x2", 1114111, "U8"), Rng(1, "oct", 255, "x2") }
Escs == { [k |-> "esc", name |-> n] : n \in {"d", "D", "w", "W", "s", "S"} }
Props == { [k |-> "prop", name |-> n, style |-> s] : n \in {"Lu", "Ll", "L", "Nd"}, s \in {"p", "P", "pneg", "Pneg"} }
Items == Chars \cup Ranges \cup Escs \cup Props \cup { [k |-> "dot"] }
Atoms == Chars \cup Escs \cup Props
Class(items, neg, subs) == [k |-> "class", items |-> items, neg |-> neg, subs |-> subs]
SubClasses == { Class(<<it>>, n, <<>>) : it \in (Ranges \cup Escs \cup { Ch(107, "raw"), Ch(83, "x2"), Ch(8490, "u4") }), n \in BOOLEAN }
Classes == { Class(<<a>>, n, <<>>) : a \in Items, n \in BOOLEAN }
           \cup { Class(<<a, b>>, n, <<>>) : a \in Items, b \in (Ranges \cup Escs \cup { Ch(107, "raw"), Ch(45, "bs"), Ch(8490, "u4") }), n \in BOOLEAN }
           \cup { Class(<<a>>, n, <<s>>) : a \in (Ranges \cup Escs \cup Props), s \in SubClasses, n \in BOOLEAN }
Patterns == Atoms \cup Classes
Flags == { [fold |-> f, bytes |-> b] : f \in BOOLEAN, b \in BOOLEAN }

Mal == { [k |-> "mal", name |-> n] : n \in {"x-nonhex", "u-nonhex", "xb-nonhex", "x-short", "u-short", "U-short", "U-toobig", "xb-toobig", "xb-overflow",
           "oct-big", "oct-short", "oct-nondigit", "range-inverted", "range-inverted-esc", "paren-open", "paren-close", "bracket-open", "quant-inverted",
           "quant-open", "backslash-trailing", "prop-unknown", "prop-unclosed", "esc-unknown", "class-range-set",
           "bytes-toobig-class", "x-nonhex-G", "u-nonhex-Z"} }

AllSeq == SetToSeq(Patterns)
Picked == SelectSeq([i \in 1..Len(AllSeq) |-> [i |-> i, p |-> AllSeq[i]]], LAMBDA x : x.i % Stride = Offset \/ x.p.k # "class")
FlagSeq == SetToSeq(Flags)
Good == [j \in 1..(Len(Picked) * 4) |-> [p |-> Picked[((j - 1) \div 4) + 1].p, fold |-> FlagSeq[((j - 1) % 4) + 1].fold,
                                          bytes |-> FlagSeq[((j - 1) % 4) + 1].bytes, malformed |-> FALSE]]
MalSeq == SetToSeq(Mal)
Bad == [j \in 1..(Len(MalSeq) * 4) |-> [p |-> MalSeq[((j - 1) \div 4) + 1], fold |-> FlagSeq[((j - 1) % 4) + 1].fold,
                                        bytes |-> FlagSeq[((j - 1) % 4) + 1].bytes, malformed |-> TRUE]]
Out == Good \o Bad
ASSUME PrintT(<<"c10gen patterns", Len(AllSeq), "emitted", Len(Out)>>)
ASSUME ndJsonSerialize(IOEnv.VERIF_OUT, Out)
VARIABLE x
Init == x = 0
Next == UNCHANGED x
=============================================================================
