---------------------------- MODULE C27Trace ----------------------------
(* Validation of recorded diff.LineDiff outputs (parsed into hunks by the harness).        *)
EXTENDS Integers, Sequences, FiniteSets, TLC, Json, IOUtils, Diff

Cases == ndJsonDeserialize(IOEnv.VERIF_CASES)

EmptyIffEqual(c) == c.empty <=> (c.a = c.b)
Parsed(c) == c.parseError = ""
Minimal(c) == Parsed(c) => Edits(c.hunks) = MinEdits(c.a, c.b)
Headers(c) == Parsed(c) => \A k \in 1..Len(c.hunks) : HeaderOK(c.hunks[k])
Applies(c) == Parsed(c) => LET r == Apply(c.a, c.b, c.hunks) IN r.ok /\ r.out = c.b

VARIABLES blk, ci, st
vars == <<blk, ci, st>>
NBlocks == 64
Init == blk \in 0..(NBlocks-1) /\ ci = 0 /\ st = "block"
Pick == /\ st = "block"
        /\ \E i \in { i \in 1..Len(Cases) : i % NBlocks = blk } : ci' = i
        /\ st' = "recorded" /\ UNCHANGED blk
Validate == st = "recorded" /\ st' = "validated" /\ UNCHANGED <<blk, ci>>
Next == Pick \/ Validate \/ (st = "validated" /\ UNCHANGED vars)
Spec == Init /\ [][Next]_vars
WellFormedOutput == st = "recorded" => Parsed(Cases[ci])
EmptyConforms    == st = "recorded" => EmptyIffEqual(Cases[ci])
MinimalConforms  == st = "recorded" => Minimal(Cases[ci])
HeaderConforms   == st = "recorded" => Headers(Cases[ci])
ApplyConforms    == st = "recorded" => Applies(Cases[ci])
=============================================================================
