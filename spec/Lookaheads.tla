---------------------------- MODULE Lookaheads ----------------------------
(* Runtime lookahead alternatives '(?= A & !B ...)' and decision lists.                     *)
(* An alternative is a sequence of literals [input, neg] over distinct inputs (the order in  *)
(* which its predicates are written); an assignment maps inputs to BOOLEAN (does the input    *)
(* match at this point).                                                                      *)
EXTENDS Integers, Sequences, FiniteSets

InputsOf(alt) == { alt[k].input : k \in 1..Len(alt) }
Holds(alt, asg) == \A k \in 1..Len(alt) : asg[alt[k].input] = ~alt[k].neg
Satisfied(alts, asg) == { i \in 1..Len(alts) : Holds(alts[i], asg) }
Assignments(Ins) == [Ins -> BOOLEAN]

(* no combination of predicate outcomes satisfies two alternatives *)
Exclusive(alts, Ins) == \A asg \in Assignments(Ins) : Cardinality(Satisfied(alts, asg)) <= 1

(* all alternatives write their predicates in an order compatible with one order of the inputs: *)
(* the union of the "written before" relations has no cycle                                     *)
BeforeRel(alts) == UNION { { <<alts[i][k].input, alts[i][k+1].input>> : k \in 1..(Len(alts[i]) - 1) } : i \in 1..Len(alts) }
RECURSIVE TC(_)
TC(R) == LET R2 == R \cup { <<p[1], q[2]>> : <<p, q>> \in { pq \in R \X R : pq[1][2] = pq[2][1] } }
         IN IF R2 = R THEN R ELSE TC(R2)
ConsistentlyOrdered(alts) == LET T == TC(BeforeRel(alts)) IN \A p \in T : p[1] # p[2]

(* a decision list: cases [input, neg, target] tried in order, else the default target *)
RECURSIVE Decide(_, _, _, _)
Decide(cases, default, asg, k) ==
  IF k > Len(cases) THEN default
  ELSE IF asg[cases[k].input] = ~cases[k].neg THEN cases[k].target ELSE Decide(cases, default, asg, k + 1)
=============================================================================
