---------------------------- MODULE Packer ----------------------------
(* Displacement ("row displacement") packing of sparse lines (lalr/optimize.go pack).             *)
(* A line is a sequence of <<pos, val>> pairs with strictly increasing positions. A packing is     *)
(* (indices, table, check): line i is stored at base indices[i]; cell base+pos holds val and        *)
(* check[base+pos] = pos (check = -1: unused). The packing is correct iff every line reads back      *)
(* exactly: its own values at its own positions, and nothing at any other position - no matter how   *)
(* lines overlap, share cells (equal lines may share a base) or are found through a hash.            *)
EXTENDS Integers, Sequences, FiniteSets

PosOf(l) == { l[k][1] : k \in 1..Len(l) }
ValAt(l, pos) == l[CHOOSE k \in 1..Len(l) : l[k][1] = pos][2]
WellFormedLine(l) == Len(l) >= 1 /\ \A k \in 1..(Len(l) - 1) : l[k][1] < l[k+1][1]
(* what a decoder reads for line i at position pos: <<TRUE, val>> or <<FALSE, 0>> *)
Lookup(indices, table, check, i, pos) ==
  LET k == indices[i] + pos IN      \* 0-based cell
  IF k >= 0 /\ k < Len(table) /\ check[k + 1] = pos THEN <<TRUE, table[k + 1]>> ELSE <<FALSE, 0>>
Correct(lines, indices, table, check, maxPos) ==
  /\ Len(indices) = Len(lines) /\ Len(table) = Len(check)
  /\ \A i \in 1..Len(lines) : \A pos \in 0..maxPos :
       Lookup(indices, table, check, i, pos) =
         (IF pos \in PosOf(lines[i]) THEN <<TRUE, ValAt(lines[i], pos)>> ELSE <<FALSE, 0>>)
=============================================================================
