---------------------------- MODULE OptionsGen ----------------------------
(* every option block of one or two assignments over the representative options (and an unknown one) x all value spellings, for the targets go and cc *)
EXTENDS Options, TLC, Json, IOUtils, SequencesExt
Names == Known \cup {"bogusOption"}
A == [name : Names, value : Values]
Blocks == { <<a>> : a \in A } \cup { <<a, b>> : a \in A, b \in A }
Out == SetToSeq({ [assigns |-> b, target |-> t] : b \in Blocks, t \in {"go", "cc"} })
ASSUME PrintT(<<"optionsgen blocks", Len(Out)>>)
ASSUME ndJsonSerialize(IOEnv.VERIF_OUT, Out)
VARIABLE x
Init == x = 0
Next == UNCHANGED x
=============================================================================
