---------------------------- MODULE SetsTrace ----------------------------
(* C15 validation: named sets (%generate) of compiled grammars against TokenSets.tla.        *)
(* A case: g (plain rules dumped from the compiled grammar), start (the first eoi input),       *)
(* sets: sequence of [e, terminals] in declaration order, selfcompl (a complement depends on     *)
(* itself in the source), err (compile error text), afterErr / hasError.                         *)
EXTENDS TokenSets, TLC, Json, IOUtils
Cases == ndJsonDeserialize(IOEnv.VERIF_CASES)
VARIABLES blk, ci, st
vars == <<blk, ci, st>>
NBlocks == 64
Init == blk \in 0..(NBlocks-1) /\ ci = 0 /\ st = "block"
Pick == /\ st = "block"
        /\ \E i \in { i \in 1..Len(Cases) : i % NBlocks = blk } : ci' = i
        /\ st' = "recorded" /\ UNCHANGED blk
Validate == st = "recorded" /\ st' = "validated" /\ UNCHANGED <<blk, ci>>
Next == Pick \/ Validate \/ (st = "validated" /\ UNCHANGED vars)
Spec == Init /\ [][Next]_vars
C == Cases[ci]
Rec == st = "recorded"
ToSetT(s) == { s[i] : i \in 1..Len(s) }
U == 0..(C.g.nT - 1)
(* the compiled grammar with the in-rule set nonterminal as a set of terminals: it derives exactly its terminals - *)
(* an empty set derives nothing (the implementation's %empty rule for it is reported under C13)                    *)
GN == [C.g EXCEPT !.rules = SelectSeq(C.g.rules, LAMBDA r : ~(r.lhs = C.ssym /\ Len(r.rhs) = 0))]
Extra(e, g) == { a.s : a \in { a \in AtomsOf(e) : a.s >= g.nT } }
RG == ReachAll(GN, {C.start}, C.ssym, Extra(C.sx, GN), C.laHosts)
Usable == Rec /\ C.usable
Self == SelfCompl(C.g0, C.start0, C.ssym0, C.sx0, C.laHosts) \/ NamedSelfCompl(C.sets)
(* a complement that depends on itself is rejected - and only then *)
SelfComplementRejected == Usable => (Self <=> C.complErr)
NoOtherError == (Usable /\ ~Self) => C.err = ""
SRules == { r \in RuleIdx(GN) : GN.rules[r].lhs = C.ssym }
Conform(A) ==
     LET vals == EvalNamed(C.sets, A, U)
     IN /\ \A k \in 1..Len(C.sets) : ToSetT(C.sets[k].terminals) = vals[k]
        (* the in-rule set resolves to its expression *)
        /\ C.ssym >= 0 => { GN.rules[r].rhs[1] : r \in SRules } = EvalSet(C.sx, A, <<>>, U)
(* Opaque: occurrences of a terminal inside an in-rule set are not uses of it for follow/precede (what the implementation does) *)
SetsConformOpaque == (Usable /\ C.err = "") => Conform(Analysis(GN, RG, SRules))
AfterErrConformsOpaque == (Usable /\ C.err = "" /\ C.hasError) => ToSetT(C.afterErr) = Analysis(GN, RG, SRules).follow[C.errSym]
(* Exact: over the plain rules as they are *)
SetsConform == (Usable /\ C.err = "") => Conform(Analysis(GN, RG, {}))
(* error recovery uses exactly the terminals that can follow 'error' *)
AfterErrConforms == (Usable /\ C.err = "" /\ C.hasError) => ToSetT(C.afterErr) = Analysis(GN, RG, {}).follow[C.errSym]
=============================================================================
