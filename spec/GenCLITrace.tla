---------------------------- MODULE GenCLITrace ----------------------------
(* Replay of GenCLIGen's histories with the real binary in a scratch directory: after every step the harness records the exit code,   *)
(* the files -diff reported, the state of each generated file (absent / gen / edited, by comparison with the in-process generator's     *)
(* output) and whether a foreign file in the directory is untouched.                                                                 *)
EXTENDS GenCLI, TLC, Json, IOUtils
Cases == ndJsonDeserialize(IOEnv.VERIF_CASES)
VARIABLES blk, ci, st, k
tvars == <<blk, ci, st, k, disk, out>>
NBlocks == 64
TInit == blk \in 0..(NBlocks-1) /\ ci = 0 /\ st = "block" /\ k = 0 /\ Init
C == Cases[ci]
Pick == /\ st = "block"
        /\ \E i \in { i \in 1..Len(Cases) : i % NBlocks = blk } : ci' = i
        /\ st' = "run" /\ UNCHANGED <<blk, k, disk, out>>
Step == /\ st = "run" /\ k < Len(C.steps)
        /\ LET s == C.steps[k + 1] IN
             CASE s.op = "write" -> Write
               [] s.op = "diff" -> Diff
               [] s.op = "edit" -> Edit(s.f)
               [] s.op = "delete" -> Delete(s.f)
        /\ k' = k + 1 /\ UNCHANGED <<blk, ci, st>>
TNext == Pick \/ Step \/ (st = "run" /\ k = Len(C.steps) /\ UNCHANGED tvars)
TSpec == TInit /\ [][TNext]_tvars
ToSet(s) == { s[i] : i \in 1..Len(s) }
NoCrash == st = "run" => C.crash = ""
(* after every step: the files on disk, the exit code and the report are the specification's *)
DiskConforms == (st = "run" /\ k > 0 /\ C.crash = "") => C.obs[k].disk = [f \in 1..NFiles |-> disk[f]]
OutConforms == (st = "run" /\ k > 0 /\ C.crash = "" /\ C.steps[k].op \in {"write", "diff"}) =>
                  (C.obs[k].exit = out.exit /\ ToSet(C.obs[k].differs) = out.differs)
ForeignUntouched == (st = "run" /\ k > 0 /\ C.crash = "") => C.obs[k].foreignOk
=============================================================================
