---------------------------- MODULE C16Trace ----------------------------
(* C16 validation: every execution of a semantic action recorded from parsers generated and built from    *)
(* random grammars (optional parts, nested choices, lists, aliases, mid-rule actions) against ActionRefs.   *)
EXTENDS ActionRefs, TLC, Json, IOUtils
Cases == ndJsonDeserialize(IOEnv.VERIF_CASES)
VARIABLES blk, ci, st
vars == <<blk, ci, st>>
NBlocks == 64
Init == blk \in 0..(NBlocks-1) /\ ci = 0 /\ st = "block"
Pick == /\ st = "block"
        /\ \E i \in { i \in 1..Len(Cases) : i % NBlocks = blk } : ci' = i
        /\ st' = "recorded" /\ UNCHANGED blk
Validate == st = "recorded" /\ st' = "validated" /\ UNCHANGED <<blk, ci>>
Next == Pick \/ Validate \/ (st = "validated" /\ UNCHANGED vars)
Spec == Init /\ [][Next]_vars
C == Cases[ci]
Rec == st = "recorded"
ActionOf(id) == LET r == CHOOSE r \in 1..Len(C.rules) : \E a \in 1..Len(C.rules[r].actions) : C.rules[r].actions[a].id = id
                    a == CHOOSE a \in 1..Len(C.rules[r].actions) : C.rules[r].actions[a].id = id
                IN [marker |-> C.rules[r].marker, act |-> C.rules[r].actions[a]]
(* the grammars of the universe are conflict-free by construction or rejected as conflicting - never unbuildable *)
Generates == Rec => (C.genErr = "" \/ C.conflict)
(* every sentence of the grammar parses, and every action runs (the final action once per rule instance) *)
Parses == (Rec /\ C.genErr = "") => \A k \in 1..Len(C.runs) : C.runs[k].err = ""
ActionsRun == (Rec /\ C.genErr = "") => \A k \in 1..Len(C.runs) :
   LET run == C.runs[k]
       finals == { a \in 1..Len(run.execs) : ActionOf(run.execs[a].action).act.final }
       markers == { C.rules[r].marker : r \in 1..Len(C.rules) }
   IN Cardinality(finals) = Cardinality({ i \in 1..Len(run.tokens) : run.tokens[i][1] \in markers })
RefsConform == (Rec /\ C.genErr = "") => \A k \in 1..Len(C.runs) : \A a \in 1..Len(C.runs[k].execs) :
   LET run == C.runs[k]
       ex == run.execs[a]
       A == ActionOf(ex.action)
   IN /\ MarkerIdx(ex.stack, A.marker) # {}
      /\ Matches(ex.vals, ExpectedAll(A.act.refs, 1, run.tokens, ex.stack, A.marker))
=============================================================================
