---------------------------- MODULE LalrGen ----------------------------
(* The exhaustive grammar universe U_G, defined here and nowhere else:                     *)
(*   terminals eoi=0, 1, 2 (NTerm = 3); nonterminals 3 and 4; 1..MaxRules distinct rules   *)
(*   with right-hand sides of length <= MaxRhs over symbols 1..4; nonterminal 3 always has *)
(*   a rule; nonterminal 4 exists iff it has a rule; inputs: 3 (eoi or no-eoi), optionally *)
(*   4 as a second input.  With VERIF_PREC=1 each grammar also gets precedence declarations *)
(*   drawn from a small fixed family.  Cases are emitted when index % Stride = Offset.     *)
EXTENDS Grammar, TLC, Json, IOUtils, SequencesExt, FiniteSetsExt

MaxRules == atoi(IOEnv.VERIF_UG_MAXRULES)
MaxRhs == atoi(IOEnv.VERIF_UG_MAXRHS)
Stride == atoi(IOEnv.VERIF_UG_STRIDE)
Offset == atoi(IOEnv.VERIF_UG_OFFSET)
WithPrec == IOEnv.VERIF_UG_PREC = "1"

RhsU == UNION { [1..k -> 1..4] : k \in 0..MaxRhs }
RuleU == { [lhs |-> A, rhs |-> w, prec |-> 0] : A \in {3, 4}, w \in RhsU }
Uses4(R) == \E r \in R : r.lhs = 4 \/ \E i \in 1..Len(r.rhs) : r.rhs[i] = 4
Has(R, A) == \E r \in R : r.lhs = A
RuleSets == { R \in UNION { kSubset(k, RuleU) : k \in 1..MaxRules } : Has(R, 3) /\ (Uses4(R) <=> Has(R, 4)) }
RuleLess(a, b) == \/ a.lhs < b.lhs
                  \/ a.lhs = b.lhs /\ Len(a.rhs) < Len(b.rhs)
                  \/ a.lhs = b.lhs /\ Len(a.rhs) = Len(b.rhs) /\ \E i \in 1..Len(a.rhs) :
                        a.rhs[i] < b.rhs[i] /\ \A j \in 1..(i-1) : a.rhs[j] = b.rhs[j]
InputsFor(R) ==
  { << [nt |-> 3, eoi |-> TRUE] >>, << [nt |-> 3, eoi |-> FALSE] >> }
  \cup (IF Has(R, 4) THEN { << [nt |-> 3, eoi |-> TRUE], [nt |-> 4, eoi |-> TRUE] >>,
                            << [nt |-> 3, eoi |-> TRUE], [nt |-> 4, eoi |-> FALSE] >> } ELSE {})
PrecFamilies ==
  << << [assoc |-> "left", terms |-> <<1>>] >>, << [assoc |-> "right", terms |-> <<1>>] >>,
     << [assoc |-> "nonassoc", terms |-> <<1>>] >>,
     << [assoc |-> "left", terms |-> <<1>>], [assoc |-> "left", terms |-> <<2>>] >>,
     << [assoc |-> "right", terms |-> <<2>>], [assoc |-> "nonassoc", terms |-> <<1>>] >>,
     << [assoc |-> "left", terms |-> <<1, 2>>] >>,
     << [assoc |-> "nonassoc", terms |-> <<2>>], [assoc |-> "right", terms |-> <<1>>] >> >>
Grammars == UNION { { [nT |-> 3, nS |-> IF Has(R, 4) THEN 5 ELSE 4, rules |-> SetToSortSeq(R, RuleLess), inputs |-> inp, prec |-> <<>>]
                      : inp \in InputsFor(R) } : R \in RuleSets }
Valid(g) == (\A i \in 1..Len(g.inputs) : g.inputs[i].nt < g.nS) /\ Nonterms(g) \subseteq Productive(g)
All == SetToSeq({ g \in Grammars : Valid(g) })
Picked == SelectSeq([i \in 1..Len(All) |-> [k |-> i, g |-> All[i]]], LAMBDA x : x.k % Stride = Offset)
(* with precedence: every picked grammar gets one family (by index) - or all of them when VERIF_UG_ALLPREC = 1 *)
AllPrec == IOEnv.VERIF_UG_ALLPREC = "1"
WithFamily(x, f) == [x.g EXCEPT !.prec = PrecFamilies[f]]
NF == Len(PrecFamilies)
Out == IF ~WithPrec THEN [i \in 1..Len(Picked) |-> Picked[i].g]
       ELSE IF AllPrec THEN [j \in 1..(Len(Picked) * NF) |-> WithFamily(Picked[((j - 1) \div NF) + 1], ((j - 1) % NF) + 1)]
       ELSE [i \in 1..Len(Picked) |-> WithFamily(Picked[i], 1 + (Picked[i].k % NF))]
ASSUME PrintT(<<"lalrgen universe", Len(All), "emitted", Len(Out)>>)
ASSUME ndJsonSerialize(IOEnv.VERIF_OUT, Out)
VARIABLE x
Init == x = 0
Next == UNCHANGED x
=============================================================================
