---------------------------- MODULE LS ----------------------------
(* C23 design model: a client writes notifications/requests to a stream; the server dispatches them in stream  *)
(* order into a chain of handlers (go.lsp.dev: CancelHandler(AsyncHandler(ReplyHandler(server)))): every        *)
(* handler runs in its own goroutine but starts only after the previous one has replied. A reply unlocks the     *)
(* next handler BEFORE the response is written, so a response may be overtaken by later notifications.           *)
(* Knobs (both FALSE/TRUE in the real design): Sequential = FALSE lets handlers overlap; BackgroundCheck = TRUE  *)
(* lets an edit handler return before its diagnostics are published. TLC shows the properties hold in the        *)
(* design and fail with either knob flipped.                                                                      *)
EXTENDS LSCore, TLC
CONSTANTS URIs, Contents, MaxOps, Sequential, BackgroundCheck

VARIABLES sent, started, running, checking, docs, snap, toReply, wire
vars == <<sent, started, running, checking, docs, snap, toReply, wire>>

None == [c |-> 0, v |-> 0]
Ops == [k : {"open", "change"}, u : URIs, c : Contents, v : 1..MaxOps, id : {0}]
       \cup [k : {"close", "change0", "save", "cancel"}, u : URIs, c : {0}, v : {0}, id : {0}]
       \cup [k : {"def"}, u : URIs, c : {0}, v : {0}, id : 1..MaxOps]

Init == /\ sent = <<>> /\ started = 0 /\ running = {} /\ checking = {} /\ toReply = {}
        /\ docs = [u \in URIs |-> None] /\ snap = <<>> /\ wire = <<>>

(* the client: versions are the op's position, request ids are unique *)
ClientSend(op) ==
  /\ Len(sent) < MaxOps
  /\ IsEdit(op) => op.v = Len(sent) + 1
  /\ op.k = "def" => op.id = Len(sent) + 1
  /\ sent' = Append(sent, op)
  /\ UNCHANGED <<started, running, checking, docs, snap, toReply, wire>>

(* the handler of the next op in stream order starts: it updates/reads the document map right away *)
Start ==
  /\ started < Len(sent)
  /\ Sequential => running = {}
  /\ LET k == started + 1  op == sent[k] IN
       /\ started' = k
       /\ running' = running \cup {k}
       /\ docs' = CASE IsEdit(op) -> [docs EXCEPT ![op.u] = [c |-> op.c, v |-> op.v]]
                    [] op.k = "close" -> [docs EXCEPT ![op.u] = None]
                    [] OTHER -> docs
       /\ snap' = Append(snap, docs[op.u].c)          \* what a definition handler reads
       /\ checking' = IF IsEdit(op) THEN checking \cup {k} ELSE checking
  /\ UNCHANGED <<sent, toReply, wire>>

(* typecheck of an edit publishes its diagnostics (content and version are the handler's parameters) *)
Publish(k) ==
  /\ k \in checking
  /\ wire' = Append(wire, [t |-> "diag", u |-> sent[k].u, v |-> sent[k].v, c |-> sent[k].c, op |-> k])
  /\ checking' = checking \ {k}
  /\ UNCHANGED <<sent, started, running, docs, snap, toReply>>

(* the handler returns: the chain is unlocked; a request's response is written afterwards *)
Finish(k) ==
  /\ k \in running
  /\ BackgroundCheck \/ k \notin checking
  /\ running' = running \ {k}
  /\ toReply' = IF sent[k].k = "def" THEN toReply \cup {k} ELSE toReply
  /\ UNCHANGED <<sent, started, checking, docs, snap, wire>>

WriteReply(k) ==
  /\ k \in toReply
  /\ wire' = Append(wire, [t |-> "reply", u |-> sent[k].u, v |-> 0, c |-> snap[k], op |-> k])
  /\ toReply' = toReply \ {k}
  /\ UNCHANGED <<sent, started, running, checking, docs, snap>>

Next == \/ \E op \in Ops : ClientSend(op)
        \/ Start
        \/ \E k \in 1..MaxOps : Publish(k) \/ Finish(k) \/ WriteReply(k)
Spec == Init /\ [][Next]_vars /\ WF_vars(Start) /\ \A k \in 1..MaxOps : WF_vars(Publish(k)) /\ WF_vars(Finish(k)) /\ WF_vars(WriteReply(k))

TypeOK == /\ started \in 0..MaxOps /\ running \subseteq 1..MaxOps /\ checking \subseteq 1..MaxOps /\ toReply \subseteq 1..MaxOps
          /\ Len(snap) = started

(* diagnostics are published for the edits in request order, each with the version and content of its edit *)
Diags == SelectSeq(wire, LAMBDA m : m.t = "diag")
DiagOrder ==
  LET E == ExpDiags(sent) IN
  /\ Len(Diags) <= Len(E)
  /\ \A i \in 1..Len(Diags) : Diags[i].u = E[i].u /\ Diags[i].v = E[i].v /\ Diags[i].c = E[i].c
(* a definition request is answered from the latest content of its document at the point of the request *)
DefLatest == \A i \in 1..Len(wire) : wire[i].t = "reply" => wire[i].c = LatestBefore(sent, wire[i].op, wire[i].u)
(* at most one response per request, only for requests *)
RepliesUnique == \A i, j \in 1..Len(wire) : (wire[i].t = "reply" /\ wire[j].t = "reply" /\ wire[i].op = wire[j].op) => i = j
(* every edit is diagnosed and every request answered once the server is idle *)
Idle == started = Len(sent) /\ running = {} /\ checking = {} /\ toReply = {}
IdleComplete == Idle => /\ Len(Diags) = Len(ExpDiags(sent))
                        /\ \A k \in 1..Len(sent) : sent[k].k = "def" => \E i \in 1..Len(wire) : wire[i].t = "reply" /\ wire[i].op = k
EventuallyIdle == <>[](Len(sent) = MaxOps => Idle)
(* NOT a property of the design (documented): a response may be overtaken by the diagnostics of a later edit *)
TotalOrder == \A i, j \in 1..Len(wire) : i < j => wire[i].op < wire[j].op
=============================================================================
