---------------------------- MODULE C20Trace ----------------------------
(* (a) kind "build": an event stream (node ids are unique) fed to the real tree builder and  *)
(*     the resulting tree, dumped as parent[i] (0 = root) and, per parent, the children in     *)
(*     the order the tree lists them.                                                          *)
(* (b) kind "parse": the listener events of a real parser run on some input.                   *)
EXTENDS TreeBuilder, TLC, Json, IOUtils
Cases == ndJsonDeserialize(IOEnv.VERIF_CASES)
VARIABLES blk, ci, st
vars == <<blk, ci, st>>
NBlocks == 64
Init == blk \in 0..(NBlocks-1) /\ ci = 0 /\ st = "block"
Pick == /\ st = "block"
        /\ \E i \in { i \in 1..Len(Cases) : i % NBlocks = blk } : ci' = i
        /\ st' = "recorded" /\ UNCHANGED blk
Validate == st = "recorded" /\ st' = "validated" /\ UNCHANGED <<blk, ci>>
Next == Pick \/ Validate \/ (st = "validated" /\ UNCHANGED vars)
Spec == Init /\ [][Next]_vars
C == Cases[ci]
Rec == st = "recorded"
NoCrash == Rec => C.crash = ""
(* the tree has exactly the reported nodes, each attached to its smallest container, siblings in source order *)
TreeConforms ==
  (Rec /\ C.kind = "build" /\ C.crash = "" /\ WellNested(C.ev, C.len)) =>
     /\ Len(C.parent) = Len(C.ev)
     /\ \A i \in 1..Len(C.ev) : C.parent[i] = Parent(C.ev, i)
     /\ \A p \in 0..Len(C.ev) :
          LET ch == C.children[p + 1] IN
          /\ { ch[k] : k \in 1..Len(ch) } = ChildrenOf(C.ev, p) /\ Len(ch) = Cardinality(ChildrenOf(C.ev, p))
          /\ \A k \in 1..(Len(ch) - 1) : ~Before(C.ev, ch[k+1], ch[k])
(* events of a real parse form a well-nested stream *)
EventsWellNested == (Rec /\ C.kind = "parse" /\ C.crash = "") => WellNested(C.ev, C.len)
=============================================================================
