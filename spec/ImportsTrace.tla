---------------------------- MODULE ImportsTrace ----------------------------
(* Validation of recorded gen.ExtractGoImports runs: the harness renders each source, calls the real  *)
(* function and parses its output with go/parser: imports <<name, path>> in order, the position of a    *)
(* blank line inside the block, the selector expressions <<package name, selected name>> in order,       *)
(* whether the block directly follows the package clause (or opens the text when there is none), and     *)
(* whether a quoted qualifier is left in the text.                                                       *)
EXTENDS Imports, TLC, Json, IOUtils
Cases == ndJsonDeserialize(IOEnv.VERIF_CASES)
VARIABLES blk, ci, st
vars == <<blk, ci, st>>
NBlocks == 64
Init == blk \in 0..(NBlocks-1) /\ ci = 0 /\ st = "block"
Pick == /\ st = "block"
        /\ \E i \in { i \in 1..Len(Cases) : i % NBlocks = blk } : ci' = i
        /\ st' = "recorded" /\ UNCHANGED blk
Validate == st = "recorded" /\ st' = "validated" /\ UNCHANGED <<blk, ci>>
Next == Pick \/ Validate \/ (st = "validated" /\ UNCHANGED vars)
Spec == Init /\ [][Next]_vars
C == Cases[ci]
Rec == st = "recorded"
OutputParses == Rec => (C.crash = "" /\ C.parses)
RewrittenInOrder == (Rec /\ C.parses) => (C.sels = Selectors(C.refs) /\ ~C.leftover)
ImportBlockExact == (Rec /\ C.parses) => (C.imports = ImportBlock(C.refs) /\ C.groupBreak = GroupBreak(C.refs))
BlockPlaced == (Rec /\ C.parses) => C.placed
=============================================================================
