---------------------------- MODULE Emit ----------------------------
(* How the generator writes tables into Go code (gen: bits_per_element, int_array, string_switch). *)
(* Width: the element type of a table is the smallest of int8/int16/int32 that holds every entry.    *)
(* Layout: entries are written "v," and packed greedily into lines that stay below a width.           *)
(* Switch: keywords are spread over a power-of-two number of buckets by a polynomial hash.            *)
EXTENDS Integers, Sequences, FiniteSets
Pow2(n) == 2 ^ n
Fits(v, bits) == -Pow2(bits - 1) <= v /\ v < Pow2(bits - 1)
Width(arr) == IF \A i \in 1..Len(arr) : Fits(arr[i], 8) THEN 8
              ELSE IF \A i \in 1..Len(arr) : Fits(arr[i], 16) THEN 16 ELSE 32

(* number of characters of "v," *)
Digits(n) == IF n < 10 THEN 1 ELSE IF n < 100 THEN 2 ELSE IF n < 1000 THEN 3 ELSE IF n < 10000 THEN 4 ELSE IF n < 100000 THEN 5 ELSE 6
ItemLen(v) == (IF v < 0 THEN 1 + Digits(-v) ELSE Digits(v)) + 1
(* greedy fill: Col[i] is the column after entry i; entry i starts a new line iff the line would reach maxWidth *)
Col(arr, padLen, maxWidth) ==
  LET F[i \in 0..Len(arr)] ==
        IF i = 0 THEN maxWidth
        ELSE IF F[i-1] + ItemLen(arr[i]) + 1 < maxWidth THEN F[i-1] + ItemLen(arr[i]) + 1 ELSE padLen + ItemLen(arr[i])
  IN F
Breaks(arr, padLen, maxWidth) ==
  LET c == Col(arr, padLen, maxWidth) IN { i \in 1..Len(arr) : ~(c[i-1] + ItemLen(arr[i]) + 1 < maxWidth) }

(* keyword switch: keys are sequences of code points *)
(* the 32-bit hash h = h * 31 + c is kept as <<high 16 bits, low 16 bits>> (TLC's integers are 32-bit signed) *)
Hash(key) == LET H[i \in 0..Len(key)] ==
                   IF i = 0 THEN << 0, 0 >>
                   ELSE LET lo == H[i-1][2] * 31 + key[i] IN << (H[i-1][1] * 31 + lo \div 65536) % 65536, lo % 65536 >>
             IN H[Len(key)]
RECURSIVE SizeFrom(_, _)
SizeFrom(s, n) == IF s >= n THEN s ELSE SizeFrom(2 * s, n)
SwitchSize(keys) == SizeFrom(8, Cardinality(keys))
Bucket(key, keys) == Hash(key)[2] % SwitchSize(keys)       \* the size is a power of two below 65536
LexLess(a, b) == \E k \in 1..(Len(a) + 1) :
                    /\ \A j \in 1..(k-1) : j <= Len(b) /\ a[j] = b[j]
                    /\ \/ (k = Len(a) + 1 /\ Len(b) >= k)
                       \/ (k <= Len(a) /\ k <= Len(b) /\ a[k] < b[k])
(* the order cases are emitted in: by bucket, then by key *)
CaseLess(a, b, keys) == Bucket(a, keys) < Bucket(b, keys) \/ (Bucket(a, keys) = Bucket(b, keys) /\ LexLess(a, b))
=============================================================================
