---------------------------- MODULE Containers ----------------------------
(* Two more containers of the table constructions.                                                     *)
(* Intern table (container.IntSliceSet / IntSliceMap): integer sequences are numbered in the order of    *)
(* their first insertion; inserting a sequence again returns its number.  (The implementation hashes      *)
(* sequences with h*31+x, so <<>>, <<0>>, <<0,0>> and <<1,0>>, <<0,31>>, <<31>> share buckets.)            *)
(* Sparse sets (util/sparse): Builder collects distinct values in first-seen order; Union returns the     *)
(* distinct values of several sets, leaves the auxiliary bit set zeroed and never hands out storage it     *)
(* will overwrite later.                                                                                  *)
EXTENDS Integers, Sequences, FiniteSets
(* ---- intern table ---- *)
VARIABLES table, ret
ivars == <<table, ret>>
IndexOf(key, t) == IF \E i \in 1..Len(t) : t[i] = key THEN (CHOOSE i \in 1..Len(t) : t[i] = key) - 1 ELSE Len(t)
Insert(key) == /\ ret' = IndexOf(key, table)
               /\ table' = IF \E i \in 1..Len(table) : table[i] = key THEN table ELSE Append(table, key)
IInit == table = << >> /\ ret = -1
Keys == { << >>, <<0>>, <<0, 0>>, <<1, 0>>, <<0, 31>>, <<31>>, <<1>>, <<0, 1>> }
INext == \E k \in Keys : Len(table) < 4 /\ Insert(k)
ISpec == IInit /\ [][INext]_ivars
NoDuplicates == \A i, j \in 1..Len(table) : table[i] = table[j] => i = j
StableNumbers == [][\A i \in 1..Len(table) : table'[i] = table[i]]_ivars
(* ---- sparse sets ---- *)
ToSet(s) == { s[i] : i \in 1..Len(s) }
Distinct(s) == \A i, j \in 1..Len(s) : s[i] = s[j] => i = j
UnionOf(sets) == UNION { ToSet(sets[i]) : i \in 1..Len(sets) }
(* first-seen order of a sequence of added values *)
FirstSeen(adds) == LET F[i \in 0..Len(adds)] == IF i = 0 THEN << >> ELSE IF adds[i] \in ToSet(F[i-1]) THEN F[i-1] ELSE Append(F[i-1], adds[i]) IN F[Len(adds)]
=============================================================================
