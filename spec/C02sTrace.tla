---------------------------- MODULE C02sTrace ----------------------------
(* C02 validation for grammars in extended notation with inline '-> Node' clauses: listener calls recorded *)
(* from generated event-based parsers against EventProv!Events.                                             *)
EXTENDS EventProv, TLC, Json, IOUtils
Cases == ndJsonDeserialize(IOEnv.VERIF_CASES)
VARIABLES blk, ci, st
vars == <<blk, ci, st>>
NBlocks == 64
Init == blk \in 0..(NBlocks-1) /\ ci = 0 /\ st = "block"
Pick == /\ st = "block"
        /\ \E i \in { i \in 1..Len(Cases) : i % NBlocks = blk } : ci' = i
        /\ st' = "recorded" /\ UNCHANGED blk
Validate == st = "recorded" /\ st' = "validated" /\ UNCHANGED <<blk, ci>>
Next == Pick \/ Validate \/ (st = "validated" /\ UNCHANGED vars)
Spec == Init /\ [][Next]_vars
C == Cases[ci]
Rec == st = "recorded"
Generates == Rec => (C.genErr = "" \/ C.conflict)
Parses == (Rec /\ C.genErr = "") => \A k \in 1..Len(C.runs) : C.runs[k].err = ""
EventsConform == (Rec /\ C.genErr = "") => \A k \in 1..Len(C.runs) :
   C.runs[k].err = "" => C.runs[k].events = Events(C.rules, C.runs[k].tokens, C.runs[k].eoi, C.fixws)
DebugAlias == [ci |-> ci, bad |-> IF st # "recorded" \/ C.genErr # "" THEN {} ELSE
   { <<C.runs[k].text, C.runs[k].events, Events(C.rules, C.runs[k].tokens, C.runs[k].eoi, C.fixws)>> :
       k \in { k \in 1..Len(C.runs) : C.runs[k].events # Events(C.rules, C.runs[k].tokens, C.runs[k].eoi, C.fixws) } }]
=============================================================================
