---------------------------- MODULE LexMachine ----------------------------
(* C11: the token sequence a lexer specification defines for an input.                               *)
(* L = [rules, keywords, width, canon, nl, line, col]: rules as in Regex!LongestMatch plus             *)
(*   tok (0 end-of-input, 1 invalid token, 2.. user tokens), space, newState (-1: unchanged), class;    *)
(*   keywords [t, tok, space, newState]: constant rules specialised from the (class) rule - they are    *)
(*   not part of the automaton; width/canon per symbol; nl: the newline symbol.                          *)
(* At every position: the longest match among the rules active in the current start condition, the      *)
(* highest priority among equally long ones; a keyword when the class rule wins with exactly its text;   *)
(* no match: an invalid token over the longest prefix some rule could still extend (at least one         *)
(* character); space tokens are skipped; the rule's action may switch the start condition; after the     *)
(* last character end-of-input. Positions in bytes, lines from 1, columns in bytes from 1.               *)
EXTENDS Regex

Ones(L) == [s \in 1..Len(L.width) |-> 1]
W(L) == [s \in 1..Len(L.width) |-> L.width[s]]
Cn(L) == [s \in 1..Len(L.canon) |-> L.canon[s]]
B(L, t, n) == BytesOf(t, n, W(L))
LineAt(L, t, pos) == IF L.line THEN 1 + Cardinality({ i \in 1..pos : t[i] = L.nl }) ELSE 0
ColAt(L, t, pos) ==
  IF ~L.col THEN 0
  ELSE LET N == { i \in 1..pos : t[i] = L.nl }
           last == IF N = {} THEN 0 ELSE CHOOSE i \in N : \A j \in N : j <= i
       IN B(L, t, pos) - B(L, t, last) + 1

RECURSIVE Lex(_, _, _, _, _)
Lex(L, t, pos, sc, acc) ==
  IF pos = Len(t) THEN Append(acc, <<0, B(L, t, pos), B(L, t, pos), LineAt(L, t, pos), ColAt(L, t, pos)>>)
  ELSE
    LET rest == SubSeq(t, pos + 1, Len(t))
        m == LongestMatch(L.rules, sc, rest, Ones(L), Cn(L))
        j == m[2]
        n == IF j = 0 /\ m[1] = 0 THEN 1 ELSE m[1]
        txt == SubSeq(rest, 1, n)
        kws == IF j > 0 /\ L.rules[j].class THEN { k \in 1..Len(L.keywords) : L.keywords[k].t = txt } ELSE {}
        eff == IF j = 0 THEN [tok |-> 1, space |-> FALSE, newState |-> -1]
               ELSE IF kws # {} THEN LET k == CHOOSE k \in kws : TRUE IN
                    [tok |-> L.keywords[k].tok, space |-> L.keywords[k].space, newState |-> L.keywords[k].newState]
               ELSE [tok |-> L.rules[j].tok, space |-> L.rules[j].space, newState |-> L.rules[j].newState]
        sc2 == IF eff.newState >= 0 THEN eff.newState ELSE sc
        rec == <<eff.tok, B(L, t, pos), B(L, t, pos + n), LineAt(L, t, pos), ColAt(L, t, pos)>>
    IN Lex(L, t, pos + n, sc2, IF eff.space THEN acc ELSE Append(acc, rec))
(* skipByteOrderMark (on by default): a byte order mark that opens the input is passed over; it still counts for offsets and columns. *)
(* L.bom: the symbol that is U+FEFF, 0 if the alphabet has none.                                                                  *)
Tokens(L, t) == Lex(L, t, IF Len(t) > 0 /\ L.bom # 0 /\ t[1] = L.bom THEN 1 ELSE 0, 0, <<>>)
=============================================================================
