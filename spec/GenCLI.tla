---------------------------- MODULE GenCLI ----------------------------
(* The command line generator and the files on disk.  "textmapper generate" writes every generated   *)
(* file (creating directories), in a fixed order, and touches nothing else; "generate -diff" writes    *)
(* nothing: it compares the files on disk with what it would generate, reports those that differ and    *)
(* stops with an error at the first one that is missing.  Users edit or delete generated files between  *)
(* runs.  NFiles generated files in generation order; each is absent, as generated, or edited.          *)
EXTENDS Integers, Sequences, FiniteSets
NFiles == 4
Files == 1..NFiles
VARIABLES disk, out          \* out: what the last command reported: [exit, differs]
vars == <<disk, out>>
Quiet == [exit |-> 0, differs |-> {}]
Init == disk = [f \in Files |-> "absent"] /\ out = Quiet
Write == disk' = [f \in Files |-> "gen"] /\ out' = Quiet
FirstMissing(d) == IF \E f \in Files : d[f] = "absent" THEN CHOOSE f \in Files : d[f] = "absent" /\ \A g \in Files : d[g] = "absent" => f <= g ELSE NFiles + 1
Diff == /\ disk' = disk
        /\ out' = [exit |-> IF FirstMissing(disk) <= NFiles THEN 2 ELSE 0,
                   differs |-> { f \in Files : f < FirstMissing(disk) /\ disk[f] = "edited" }]
Edit(f) == disk' = [disk EXCEPT ![f] = "edited"] /\ out' = Quiet
Delete(f) == disk' = [disk EXCEPT ![f] = "absent"] /\ out' = Quiet
Next == Write \/ Diff \/ \E f \in Files : Edit(f) \/ Delete(f)
Spec == Init /\ [][Next]_vars
(* design properties *)
DiffIsPure == [][Diff => disk' = disk]_vars
CleanAfterWrite == [][Write => \A f \in Files : disk'[f] = "gen"]_vars
(* a diff right after a write is silent and succeeds *)
SilentWhenFresh == (\A f \in Files : disk[f] = "gen") => (ENABLED Diff /\ FirstMissing(disk) = NFiles + 1)
(* whatever -diff reports is really different, and success means every file was compared *)
ReportsAreTrue == [][Diff => (\A f \in out'.differs : disk[f] = "edited") /\ (out'.exit = 0 => out'.differs = { f \in Files : disk[f] = "edited" })]_vars
=============================================================================
