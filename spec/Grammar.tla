---------------------------- MODULE Grammar ----------------------------
(* Context-free grammars numbered as lalr.Grammar numbers them:                            *)
(*   symbols 0..nS-1, terminals 0..nT-1 with 0 = eoi, nonterminals nT..nS-1;               *)
(*   rules: sequence of [lhs, rhs, prec, ...]; TLA+ rule index r corresponds to the        *)
(*   implementation's rule r-1; inputs: sequence of [nt, eoi].                             *)
(* Declarative notions (oracles): nullable, first, productive, reachable, reduced, the     *)
(* language up to a length bound as a least fixpoint, and incremental Earley recognition.  *)
EXTENDS Integers, Sequences, FiniteSets

Terms(g) == 0..(g.nT - 1)
RealTerms(g) == 1..(g.nT - 1)
Syms(g) == 0..(g.nS - 1)
Nonterms(g) == g.nT..(g.nS - 1)
RuleIdx(g) == 1..Len(g.rules)
NIn(g) == Len(g.inputs)
RulesOf(g, A) == { r \in RuleIdx(g) : g.rules[r].lhs = A }
(* state markers are negative symbols in rhs and are transparent *)
CleanRhs(rhs) == SelectSeq(rhs, LAMBDA s : s >= 0)

RECURSIVE NullFix(_, _)
NullFix(g, N) ==
  LET N2 == N \cup { g.rules[r].lhs : r \in { r \in RuleIdx(g) :
                         \A i \in 1..Len(g.rules[r].rhs) : g.rules[r].rhs[i] < 0 \/ g.rules[r].rhs[i] \in N } }
  IN IF N2 = N THEN N ELSE NullFix(g, N2)
NullableSet(g) == NullFix(g, {})

FirstSeq(F, nl, w) == UNION { F[w[i]] : i \in { i \in 1..Len(w) : \A j \in 1..(i-1) : w[j] \in nl } }
SeqNullable(nl, w) == \A i \in 1..Len(w) : w[i] \in nl
RECURSIVE FirstFix(_, _, _)
FirstFix(g, nl, F) ==
  LET F2 == [s \in Syms(g) |->
               IF s < g.nT THEN {s}
               ELSE F[s] \cup UNION { FirstSeq(F, nl, CleanRhs(g.rules[r].rhs)) : r \in RulesOf(g, s) }]
  IN IF F2 = F THEN F ELSE FirstFix(g, nl, F2)
FirstSets(g, nl) == FirstFix(g, nl, [s \in Syms(g) |-> IF s < g.nT THEN {s} ELSE {}])

RECURSIVE ProdFix(_, _)
ProdFix(g, P) ==
  LET P2 == P \cup { g.rules[r].lhs : r \in { r \in RuleIdx(g) :
                         \A i \in 1..Len(g.rules[r].rhs) : LET s == g.rules[r].rhs[i] IN s < g.nT \/ s \in P } }
  IN IF P2 = P THEN P ELSE ProdFix(g, P2)
Productive(g) == ProdFix(g, {})
RECURSIVE ReachSymFix(_, _)
ReachSymFix(g, R) ==
  LET R2 == R \cup UNION { { g.rules[r].rhs[i] : i \in 1..Len(g.rules[r].rhs) } : r \in { r \in RuleIdx(g) : g.rules[r].lhs \in R } }
  IN IF R2 = R THEN R ELSE ReachSymFix(g, R2)
ReachableFrom(g, A) == ReachSymFix(g, {A})
(* every nonterminal productive and reachable from some input *)
Reduced(g) == /\ Nonterms(g) \subseteq Productive(g)
              /\ Nonterms(g) \subseteq UNION { ReachableFrom(g, g.inputs[i].nt) : i \in 1..NIn(g) }

(* ---- language up to length L: least fixpoint of D[A] = UNION_{A -> X1..Xn} Trunc(D[X1] . ... . D[Xn]) *)
ConcatUpTo(S1, S2, L) == { s1 \o s2 : <<s1, s2>> \in { p \in S1 \X S2 : Len(p[1]) + Len(p[2]) <= L } }
RECURSIVE SeqLang(_, _, _, _, _)
SeqLang(g, D, w, i, L) ==
  IF i > Len(w) THEN { <<>> }
  ELSE LET s == w[i]
           first == IF s < g.nT THEN (IF L >= 1 THEN { <<s>> } ELSE {}) ELSE D[s]
       IN ConcatUpTo(first, SeqLang(g, D, w, i + 1, L), L)
RECURSIVE LangFix(_, _, _)
LangFix(g, D, L) ==
  LET D2 == [A \in Nonterms(g) |-> D[A] \cup UNION { SeqLang(g, D, CleanRhs(g.rules[r].rhs), 1, L) : r \in RulesOf(g, A) }]
  IN IF D2 = D THEN D ELSE LangFix(g, D2, L)
LangUpTo(g, L) == LangFix(g, [A \in Nonterms(g) |-> {}], L)     \* function nonterminal -> set of terminal strings

(* ---- denotation with parse events (C02): for every nonterminal the set of                  *)
(*   [w, ev, s, e]:  w a terminal string (|w| <= L), ev the post-order list of <<rule, s, e>>   *)
(*   for the rules of its derivation, and <<s, e>> the span of the phrase.  Coordinates: token   *)
(*   i of the phrase covers [2i, 2i+1]; an empty phrase sits at the following token [2k, 2k]     *)
(*   (the documented range rule: first to last element, empty parts at the following token).     *)
ShiftEv(ev, d) == [k \in 1..Len(ev) |-> <<ev[k][1], ev[k][2] + d, ev[k][3] + d>>]
(* append phrase q after phrase p (p already covers Len(p.w) tokens); sp: spans of the elements so far *)
CatPhrase(p, q) ==
  LET d == 2 * Len(p.w) IN
  [w |-> p.w \o q.w, ev |-> p.ev \o ShiftEv(q.ev, d), sp |-> Append(p.sp, <<q.s + d, q.e + d>>)]
RECURSIVE SeqDen(_, _, _, _, _, _)
SeqDen(g, D, rhs, i, L, acc) ==       \* acc: set of [w, ev, sp] for rhs[1..i-1]
  IF i > Len(rhs) THEN acc
  ELSE LET X == rhs[i]
           opts == IF X < g.nT THEN { [w |-> <<X>>, ev |-> <<>>, s |-> 0, e |-> 1] } ELSE D[X]
           nxt == { CatPhrase(pq[1], pq[2]) : pq \in { pq \in acc \X opts : Len(pq[1].w) + Len(pq[2].w) <= L } }
       IN SeqDen(g, D, rhs, i + 1, L, nxt)
(* the nested '-> Node' parts of a rule, [from, to] over right-hand-side positions, are reported when the rule is
   reduced, in the post-order of their own nesting (by closing position, inner first), right before the rule's node *)
ArrowOrder(arrows) ==
  LET idx == 1..Len(arrows)
      Before(a, b) == arrows[a][2] < arrows[b][2] \/ (arrows[a][2] = arrows[b][2] /\ arrows[a][1] > arrows[b][1])
      RECURSIVE Sort(_)
      Sort(S) == IF S = {} THEN <<>> ELSE LET m == CHOOSE m \in S : \A x \in S \ {m} : Before(m, x) IN <<m>> \o Sort(S \ {m})
  IN Sort(idx)
RuleTypeOf(g, r) == IF "rtype" \in DOMAIN g.rules[r] /\ g.rules[r].rtype > 0 THEN g.rules[r].rtype ELSE r
RuleDen(g, D, r, L) ==
  LET rhs == CleanRhs(g.rules[r].rhs)
      ps == SeqDen(g, D, rhs, 1, L, { [w |-> <<>>, ev |-> <<>>, sp |-> <<>>] })
      arrows == IF "arrows" \in DOMAIN g.rules[r] THEN g.rules[r].arrows ELSE <<>>
      order == ArrowOrder(arrows)
      Span(p) == IF Len(p.sp) = 0 THEN <<0, 0>> ELSE <<p.sp[1][1], p.sp[Len(p.sp)][2]>>
      ArrowEv(p) == [k \in 1..Len(order) |-> <<g.rules[r].atype[order[k]], p.sp[arrows[order[k]][1]][1], p.sp[arrows[order[k]][2]][2]>>]
  IN { [w |-> p.w, s |-> Span(p)[1], e |-> Span(p)[2],
        ev |-> p.ev \o ArrowEv(p) \o << <<RuleTypeOf(g, r), Span(p)[1], Span(p)[2]>> >>] : p \in ps }
RECURSIVE DenFix(_, _, _)
DenFix(g, D, L) ==
  LET D2 == [A \in Nonterms(g) |-> D[A] \cup UNION { RuleDen(g, D, r, L) : r \in RulesOf(g, A) }]
  IN IF D2 = D THEN D ELSE DenFix(g, D2, L)
Den(g, L) == DenFix(g, [A \in Nonterms(g) |-> {}], L)

(* ---- incremental Earley recognition for start nonterminal S; items <<r, dot, origin>>, r = 0 is S' -> S *)
ERhs(g, S, r) == IF r = 0 THEN <<S>> ELSE CleanRhs(g.rules[r].rhs)
ELhs(g, r) == IF r = 0 THEN -1 ELSE g.rules[r].lhs
ENext(g, S, it) == LET rhs == ERhs(g, S, it[1]) IN IF it[2] < Len(rhs) THEN rhs[it[2]+1] ELSE -2

RECURSIVE EClose(_, _, _, _, _, _)
EClose(g, S, nl, chart, k, I) ==      \* chart: sets 0..k-1 (chart[j+1] is set j); I: set k under construction
  LET pred == UNION { LET B == ENext(g, S, it) IN
                      IF B >= g.nT
                      THEN { <<r2, 0, k>> : r2 \in RulesOf(g, B) }
                           \cup (IF B \in nl THEN { <<it[1], it[2]+1, it[3]>> } ELSE {})
                      ELSE {} : it \in I }
      comp == UNION { IF ENext(g, S, it) = -2
                      THEN LET src == IF it[3] = k THEN I ELSE chart[it[3]+1]
                           IN { <<p[1], p[2]+1, p[3]>> : p \in { p \in src : ENext(g, S, p) = ELhs(g, it[1]) } }
                      ELSE {} : it \in I }
      I2 == I \cup pred \cup comp
  IN IF I2 = I THEN I ELSE EClose(g, S, nl, chart, k, I2)

EarleyInit(g, S, nl) == << EClose(g, S, nl, <<>>, 0, { <<0, 0, 0>> }) >>
EarleyStep(g, S, nl, chart, tok) ==
  LET k == Len(chart)
      sc == { <<it[1], it[2]+1, it[3]>> : it \in { it \in chart[k] : ENext(g, S, it) = tok } }
  IN Append(chart, EClose(g, S, nl, chart, k, sc))
EarleyAccepts(chart) == <<0, 1, 0>> \in chart[Len(chart)]
EarleyViable(chart) == chart[Len(chart)] # {}     \* for reduced grammars: the consumed prefix is a prefix of a sentence
RECURSIVE EarleyRun(_, _, _, _, _, _)
EarleyRun(g, S, nl, chart, w, i) == IF i > Len(w) THEN chart ELSE EarleyRun(g, S, nl, EarleyStep(g, S, nl, chart, w[i]), w, i + 1)
EarleyChart(g, S, w) == LET nl == NullableSet(g) IN EarleyRun(g, S, nl, EarleyInit(g, S, nl), w, 1)
=============================================================================
