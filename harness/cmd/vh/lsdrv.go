package main

import (
	"bufio"
	"context"
	"encoding/json"
	"fmt"
	"io"
	"math/rand"
	"os"
	"os/exec"
	"path/filepath"
	"sort"
	"strconv"
	"strings"
	"sync"
	"time"
	"unicode/utf8"

	"github.com/inspirer/textmapper/compiler"
	"github.com/inspirer/textmapper/parsers/tm"
	"github.com/inspirer/textmapper/parsers/tm/ast"
	"github.com/inspirer/textmapper/parsers/tm/selector"
	"github.com/inspirer/textmapper/status"
)

func init() {
	register("ls-run", lsRun)
	register("ls-random", lsRandom)
}

// ---- content tables: what the documents contain, in UTF-16 coordinates (computed independently of ls/server.go) ----

type lsID struct {
	Name string `json:"name"`
	Nav  bool   `json:"nav"`
	Line int    `json:"line"`
	SC   int    `json:"sc"`
	EC   int    `json:"ec"`
}

type lsDiag struct {
	Line int    `json:"line"`
	Ch   int    `json:"ch"`
	Msg  string `json:"msg"`
}

type lsTable struct {
	Len16 []int    `json:"len16"`
	Mid   [][]int  `json:"mid"`
	IDs   []lsID   `json:"ids"`
	Diags []lsDiag `json:"diags"`
}

var lsContents = []string{
	// 1: a valid ASCII grammar
	"language l(go);\n\n:: lexer\n\nid: /[a-z]+/\nnum: /[0-9]+/\n'+': /\\+/\n\n:: parser\n\ninput: expr ;\nexpr: expr '+' atom | atom ;\natom: id | num ;\n",
	// 2: ASCII, several errors
	"language l(go);\n\n:: lexer\n\nid: /[a-z]+/\nid: /[0-9]+/\n\n:: parser\n\ninput: expr missing ;\nexpr: id other id ;\n",
	// 3: non-ASCII (2- and 4-byte characters) before identifiers and errors on the same line
	"language l(go);\n\n:: lexer\n\n'é': /é/\n'ü😀x': /u/\nid: /[a-z]+/\n\n:: parser\n\ninput: 'é' Foo 'ü😀x' Bar 'é' id ;\nfoo: 'ü😀x' id '😀😀' baz ;\n",
	// 4: empty
	"",
	// 5: not a grammar at all
	"%%% 😀 é\n x 😀 y\n",
	// 6: states, report clauses, template parameters (all identifier kinds)
	"language l(go);\n\n:: lexer\n\n%s initial, inStr;\n\n<initial> id: /[a-z]+/\n<inStr> str: /[^\"]+/\n<initial, inStr> q: /\"/\n\n:: parser\n\n%flag A;\n\ninput -> Root: item<+A> ;\nitem<A> -> Item: [A] id | q str q -> Str ;\n",
	// 7: non-ASCII, valid, with references on the same lines
	"language l(go);\n\n:: lexer\n\n'😀': /x/\n'é': /y/\nid: /[a-z]+/\n\n:: parser\n\ninput: '😀' foo '😀' foob '😀' foo ;\nfoo: id ;\nfoob: 'é' foo 'é' '😀' foo ;\n",
	// 9: an error whose origin spans several lines (two-line header, no input nonterminal): its first line is the shorter one
	"language l(\n              go);\n\n:: lexer\n\nid: /[a-z]+/\n\n:: parser\n\nx: id ;\n",
	// 10: conflicts (the summary's origin is the whole text), no final newline, a long last line
	"language l(go);\n\n:: lexer\n\nid: /[a-z]+/\n\n:: parser\n\ninput: e ;\ne: e id e | id | e id e id e id e id e id e id e id e id ;",
	// 8: CRLF line ends, an error after a non-ASCII literal
	"language l(go);\r\n\r\n:: lexer\r\n\r\n'é': /é/\r\nid: /[a-z]+/\r\n\r\n:: parser\r\n\r\ninput: 'é' nope id ;\r\n",
}

func utf16Pos(content string, off int) (line, ch int) {
	if off > len(content) {
		off = len(content)
	}
	for i := 0; i < off; {
		r, w := utf8.DecodeRuneInString(content[i:])
		i += w
		switch {
		case r == '\n':
			line++
			ch = 0
		case r > 0xffff:
			ch += 2
		default:
			ch++
		}
	}
	return
}

func lsBuildTable(content string) *lsTable {
	t := &lsTable{IDs: []lsID{}, Diags: []lsDiag{}}
	for _, ln := range strings.Split(content, "\n") {
		n := 0
		mid := []int{}
		for _, r := range ln {
			if r > 0xffff {
				mid = append(mid, n+1)
				n += 2
			} else {
				n++
			}
		}
		t.Len16 = append(t.Len16, n)
		t.Mid = append(t.Mid, mid)
	}
	_, err := compiler.Compile(context.Background(), "/w/x.tm", content, compiler.Params{CheckOnly: true, Verbose: true})
	for _, p := range status.FromError(err) {
		l, c := utf16Pos(content, p.Origin.Offset)
		t.Diags = append(t.Diags, lsDiag{Line: l, Ch: c, Msg: p.Msg})
	}
	tree, _ := ast.Parse(context.Background(), "/w/x.tm", content, func(tm.SyntaxError) bool { return true })
	if tree != nil {
		var visit func(n *ast.Node, parent tm.NodeType)
		visit = func(n *ast.Node, parent tm.NodeType) {
			if n.Type() == tm.Identifier {
				nav := false
				switch parent {
				case tm.Symref, tm.Lexeme, tm.Nonterm, tm.Stateref, tm.LexerState, tm.ReportAs, tm.ReportClause, tm.DirectiveInterface,
					tm.ParamRef, tm.InlineParameter, tm.TemplateParam:
					nav = true
				}
				l, c := utf16Pos(content, n.Offset())
				_, e := utf16Pos(content, n.Endoffset())
				t.IDs = append(t.IDs, lsID{Name: n.Text(), Nav: nav, Line: l, SC: c, EC: e})
			}
			for ch := n.Child(selector.Any); ch.IsValid(); ch = ch.Next(selector.Any) {
				visit(ch, n.Type())
			}
		}
		visit(tree.Root(), tree.Root().Type())
	}
	return t
}

// positions worth asking about: around every identifier, line ends, astral characters, out of range
func lsPositions(t *lsTable) [][2]int {
	var ret [][2]int
	for _, id := range t.IDs {
		ret = append(ret, [2]int{id.Line, id.SC}, [2]int{id.Line, (id.SC + id.EC) / 2}, [2]int{id.Line, id.EC})
	}
	for l, mids := range t.Mid {
		for _, m := range mids {
			ret = append(ret, [2]int{l, m}, [2]int{l, m + 1}, [2]int{l, m - 1})
		}
	}
	for l, n := range t.Len16 {
		if l%3 == 0 {
			ret = append(ret, [2]int{l, n}, [2]int{l, n + 1}, [2]int{l, 0})
		}
	}
	ret = append(ret, [2]int{len(t.Len16), 0}, [2]int{len(t.Len16) + 5, 3}, [2]int{0, 0})
	return ret
}

// ---- histories ----

type lsOp struct {
	K    string `json:"k"` // open change change0 close def
	U    string `json:"u"` // "a" or "b"
	C    int    `json:"c"` // content id (1-based into the case's table list), 0 if none
	Slow bool   `json:"slow"`
	P    int    `json:"p"`    // def: index into the positions of the document's latest content
	Sync bool   `json:"sync"` // wait for everything expected so far before sending this op
	// filled by the driver
	V    int `json:"v"`
	ID   int `json:"id"`
	Line int `json:"line"`
	Ch   int `json:"ch"`
}

type lsLoc struct {
	U  string `json:"u"`
	SL int    `json:"sl"`
	SC int    `json:"sc"`
	EL int    `json:"el"`
	EC int    `json:"ec"`
}

type lsRecv struct {
	T     string   `json:"t"` // diag reply other
	U     string   `json:"u"`
	V     int      `json:"v"`
	ID    int      `json:"id"`
	Err   bool     `json:"err"`
	Locs  []lsLoc  `json:"locs"`
	Msgs  []string `json:"msgs"`
	After int      `json:"after"` // number of ops sent before this message was received
}

type lsCase struct {
	ID       int       `json:"id"`
	Ops      []lsOp    `json:"ops"`
	Contents []int     `json:"contents"` // global content ids used by this case: op.C indexes this list (1-based)
	Mode     string    `json:"mode"`     // pipelined stepwise
	Recv     []lsRecv  `json:"recv"`
	Crashed  bool      `json:"crashed"`
	Timeout  bool      `json:"timeout"`
	Ran      bool      `json:"ran"`
	T        []lsTable `json:"T"`
	Note     string    `json:"note"`
}

type lsServer struct {
	cmd   *exec.Cmd
	in    io.WriteCloser
	mu    sync.Mutex
	msgs  chan map[string]json.RawMessage
	dead  chan struct{}
	nsent int
	log   []lsRecv
	uriOf map[string]string
}

func lsStart(bin string, delayMs int) (*lsServer, error) {
	cmd := exec.Command(bin, "ls")
	cmd.Env = append(os.Environ(), "VERIF_LS_DELAY_MS="+strconv.Itoa(delayMs))
	in, err := cmd.StdinPipe()
	if err != nil {
		return nil, err
	}
	out, err := cmd.StdoutPipe()
	if err != nil {
		return nil, err
	}
	cmd.Stderr = nil
	if err := cmd.Start(); err != nil {
		return nil, err
	}
	s := &lsServer{cmd: cmd, in: in, msgs: make(chan map[string]json.RawMessage, 1024), dead: make(chan struct{})}
	go func() {
		defer close(s.dead)
		rd := bufio.NewReaderSize(out, 1<<16)
		for {
			n := -1
			for {
				line, err := rd.ReadString('\n')
				if err != nil {
					return
				}
				line = strings.TrimSpace(line)
				if line == "" {
					break
				}
				if v, ok := strings.CutPrefix(strings.ToLower(line), "content-length:"); ok {
					n, _ = strconv.Atoi(strings.TrimSpace(v))
				}
			}
			if n < 0 {
				return
			}
			buf := make([]byte, n)
			if _, err := io.ReadFull(rd, buf); err != nil {
				return
			}
			var m map[string]json.RawMessage
			if json.Unmarshal(buf, &m) != nil {
				continue
			}
			s.msgs <- m
		}
	}()
	s.send(map[string]any{"jsonrpc": "2.0", "id": 1000000, "method": "initialize",
		"params": map[string]any{"processId": nil, "rootUri": "file:///w", "capabilities": map[string]any{},
			"workspaceFolders": []any{map[string]any{"uri": "file:///w", "name": "w"}}}})
	select {
	case <-s.msgs:
	case <-s.dead:
		return nil, fmt.Errorf("server exited during initialize")
	case <-time.After(20 * time.Second):
		return nil, fmt.Errorf("no answer to initialize")
	}
	return s, nil
}

func (s *lsServer) send(m map[string]any) error {
	b, _ := json.Marshal(m)
	_, err := fmt.Fprintf(s.in, "Content-Length: %d\r\n\r\n%s", len(b), b)
	return err
}

func (s *lsServer) stop() {
	s.in.Close()
	done := make(chan struct{})
	go func() { s.cmd.Wait(); close(done) }()
	select {
	case <-done:
	case <-time.After(2 * time.Second):
		s.cmd.Process.Kill()
		<-done
	}
}

func lsDecode(m map[string]json.RawMessage, short func(string) string) (lsRecv, bool) {
	r := lsRecv{Locs: []lsLoc{}, Msgs: []string{}}
	type rng struct {
		Start struct{ Line, Character int }
		End   struct{ Line, Character int }
	}
	if meth, ok := m["method"]; ok {
		var name string
		json.Unmarshal(meth, &name)
		if name != "textDocument/publishDiagnostics" {
			return r, false
		}
		var p struct {
			URI         string
			Version     int
			Diagnostics []struct {
				Range   rng
				Message string
			}
		}
		json.Unmarshal(m["params"], &p)
		r.T, r.U, r.V = "diag", short(p.URI), p.Version
		for _, d := range p.Diagnostics {
			r.Locs = append(r.Locs, lsLoc{U: r.U, SL: d.Range.Start.Line, SC: d.Range.Start.Character, EL: d.Range.End.Line, EC: d.Range.End.Character})
			r.Msgs = append(r.Msgs, d.Message)
		}
		return r, true
	}
	if id, ok := m["id"]; ok {
		var sid string
		if json.Unmarshal(id, &sid) == nil && strings.HasPrefix(sid, "r") {
			r.ID, _ = strconv.Atoi(sid[1:])
		} else {
			json.Unmarshal(id, &r.ID)
		}
		r.T = "reply"
		if e, ok := m["error"]; ok && string(e) != "null" {
			r.Err = true
			return r, true
		}
		var locs []struct {
			URI   string
			Range rng
		}
		json.Unmarshal(m["result"], &locs)
		for _, l := range locs {
			r.Locs = append(r.Locs, lsLoc{U: short(l.URI), SL: l.Range.Start.Line, SC: l.Range.Start.Character, EL: l.Range.End.Line, EC: l.Range.End.Character})
		}
		return r, true
	}
	return r, false
}

const lsBarrierID = 900000

// runs one history on a live server; returns false if the server died
func (s *lsServer) run(c *lsCase, tables map[int]*lsTable) bool {
	uri := func(u string) string { return fmt.Sprintf("file:///w/h%d_%s.tm", c.ID, u) }
	short := func(full string) string {
		for _, u := range []string{"a", "b"} {
			if full == uri(u) {
				return u
			}
		}
		return full
	}
	c.Recv = []lsRecv{}
	latest := map[string]int{}
	expect := 0
	got := 0
	nsent := 0
	barrier := false
	handle := func(m map[string]json.RawMessage) {
		if r, ok := lsDecode(m, short); ok {
			if r.T == "reply" && r.ID == lsBarrierID {
				barrier = true
				return
			}
			r.After = nsent
			c.Recv = append(c.Recv, r)
			got++
		}
	}
	wait := func(until int, d time.Duration) bool {
		deadline := time.After(d)
		for got < until || (until < 0 && !barrier) {
			select {
			case m := <-s.msgs:
				handle(m)
			case <-s.dead:
				c.Crashed = true
				return false
			case <-deadline:
				c.Timeout = true
				return true
			}
		}
		return true
	}
	for i := range c.Ops {
		op := &c.Ops[i]
		if op.Sync {
			if !wait(expect, 20*time.Second) {
				return false
			}
		}
		op.V = 5*(i+1) + 1
		if op.Slow {
			op.V = 5*(i+1) + 2
		}
		var msg map[string]any
		switch op.K {
		case "open":
			text := lsContents[c.Contents[op.C-1]-1]
			msg = map[string]any{"jsonrpc": "2.0", "method": "textDocument/didOpen", "params": map[string]any{
				"textDocument": map[string]any{"uri": uri(op.U), "languageId": "tm", "version": op.V, "text": text}}}
			latest[op.U] = op.C
			expect++
		case "change":
			text := lsContents[c.Contents[op.C-1]-1]
			msg = map[string]any{"jsonrpc": "2.0", "method": "textDocument/didChange", "params": map[string]any{
				"textDocument": map[string]any{"uri": uri(op.U), "version": op.V}, "contentChanges": []any{map[string]any{"text": text}}}}
			latest[op.U] = op.C
			expect++
		case "change0":
			msg = map[string]any{"jsonrpc": "2.0", "method": "textDocument/didChange", "params": map[string]any{
				"textDocument": map[string]any{"uri": uri(op.U), "version": op.V}, "contentChanges": []any{}}}
		case "close":
			msg = map[string]any{"jsonrpc": "2.0", "method": "textDocument/didClose", "params": map[string]any{
				"textDocument": map[string]any{"uri": uri(op.U)}}}
			latest[op.U] = 0
		case "save":
			msg = map[string]any{"jsonrpc": "2.0", "method": "textDocument/didSave", "params": map[string]any{
				"textDocument": map[string]any{"uri": uri(op.U)}}}
		case "cancel":
			// cancels the latest definition request sent so far (or an id that was never used)
			target := 777777
			for k := i - 1; k >= 0; k-- {
				if c.Ops[k].K == "def" {
					target = c.Ops[k].ID
					break
				}
			}
			op.ID = target
			msg = map[string]any{"jsonrpc": "2.0", "method": "$/cancelRequest", "params": map[string]any{"id": fmt.Sprintf("r%d", target)}}
		case "def":
			op.ID = i + 1
			cid := latest[op.U]
			if cid == 0 {
				cid = 1
			}
			ps := lsPositions(tables[c.Contents[cid-1]])
			pos := ps[op.P%len(ps)]
			op.Line, op.Ch = pos[0], pos[1]
			// string ids: the protocol library only honours $/cancelRequest for those
			msg = map[string]any{"jsonrpc": "2.0", "id": fmt.Sprintf("r%d", op.ID), "method": "textDocument/definition", "params": map[string]any{
				"textDocument": map[string]any{"uri": uri(op.U)}, "position": map[string]any{"line": op.Line, "character": op.Ch}}}
			expect++
		}
		nsent = i + 1
		if err := s.send(msg); err != nil {
			c.Crashed = true
			return false
		}
		if c.Mode == "stepwise" {
			if !wait(expect, 20*time.Second) {
				return false
			}
		} else {
			// drain whatever has arrived so far without waiting
			for more := true; more; {
				select {
				case m := <-s.msgs:
					handle(m)
				default:
					more = false
				}
			}
		}
	}
	// barrier: a request on a document that was never opened; in a sequential server its (error) response
	// means that every handler of this history has returned - a crash is then attributed to the right history
	if err := s.send(map[string]any{"jsonrpc": "2.0", "id": lsBarrierID, "method": "textDocument/definition", "params": map[string]any{
		"textDocument": map[string]any{"uri": uri("z")}, "position": map[string]any{"line": 0, "character": 0}}}); err != nil {
		c.Crashed = true
		return false
	}
	if !wait(-1, 20*time.Second) {
		return false
	}
	if !wait(expect, 20*time.Second) {
		return false
	}
	// anything beyond the expected messages? (a short grace period)
	select {
	case m := <-s.msgs:
		handle(m)
	case <-s.dead:
		c.Crashed = true
		return false
	case <-time.After(3 * time.Millisecond):
	}
	c.Ran = true
	return true
}

// ls-run <textmapper-binary> <cases.ndjson> <out.ndjson> [delay-ms]
func lsRun(args []string) error {
	bin := args[0]
	cases, err := readNDJSON[lsCase](args[1])
	if err != nil {
		return err
	}
	delay := 25
	if len(args) > 3 {
		delay, _ = strconv.Atoi(args[3])
	}
	if dir := os.Getenv("VERIF_LS_CORPUS"); dir != "" {
		files, _ := filepath.Glob(filepath.Join(dir, "*.tm"))
		sort.Strings(files)
		for _, f := range files {
			b, err := os.ReadFile(f)
			if err != nil {
				return err
			}
			lsContents = append(lsContents, string(b))
		}
	}
	tables := map[int]*lsTable{}
	for i, c := range lsContents {
		tables[i+1] = lsBuildTable(c)
	}
	for i := range cases {
		c := &cases[i]
		c.T = []lsTable{}
		for _, g := range c.Contents {
			if g < 1 || g > len(lsContents) {
				return fmt.Errorf("case %d: unknown content %d", c.ID, g)
			}
			c.T = append(c.T, *tables[g])
		}
	}
	// several workers, each with its own server process handling a slice of the histories
	workers := 8
	var wg sync.WaitGroup
	errs := make(chan error, workers)
	for w := 0; w < workers; w++ {
		wg.Add(1)
		go func(w int) {
			defer wg.Done()
			var srv *lsServer
			n := 0
			for i := w; i < len(cases); i += workers {
				if srv == nil || n >= 200 {
					if srv != nil {
						srv.stop()
					}
					var err error
					srv, err = lsStart(bin, delay)
					if err != nil {
						errs <- err
						return
					}
					n = 0
				}
				n++
				alive := srv.run(&cases[i], tables)
				if alive && cases[i].Timeout {
					// an answer did not arrive in time: late messages must not leak into the next history, and a stall of
					// the machine must not be taken for a verdict - replay once on a fresh server
					srv.stop()
					var err error
					srv, err = lsStart(bin, delay)
					if err != nil {
						errs <- err
						return
					}
					n = 1
					cases[i].Timeout, cases[i].Crashed, cases[i].Ran = false, false, false
					cases[i].Note = "retried after a timeout"
					alive = srv.run(&cases[i], tables)
					if alive && cases[i].Timeout {
						srv.stop()
						srv = nil
						continue
					}
				}
				if !alive {
					srv.stop()
					srv = nil
				}
			}
			if srv != nil {
				srv.stop()
			}
		}(w)
	}
	wg.Wait()
	select {
	case err := <-errs:
		return err
	default:
	}
	w, err := newNDWriter(args[2])
	if err != nil {
		return err
	}
	for i := range cases {
		if err := w.Write(&cases[i]); err != nil {
			return err
		}
	}
	return w.Close()
}

// ls-random <n> <out> <maxlen>: random longer histories
func lsRandom(args []string) error {
	n, _ := strconv.Atoi(args[0])
	maxLen, _ := strconv.Atoi(args[2])
	seed, _ := strconv.ParseInt(os.Getenv("VERIF_SEED"), 10, 64)
	r := rand.New(rand.NewSource(seed*15485863 + 23))
	extra := 0
	if dir := os.Getenv("VERIF_LS_CORPUS"); dir != "" {
		files, _ := filepath.Glob(filepath.Join(dir, "*.tm"))
		sort.Strings(files)
		for _, f := range files {
			b, err := os.ReadFile(f)
			if err != nil {
				return err
			}
			lsContents = append(lsContents, string(b))
		}
	}
	w, err := newNDWriter(args[1])
	if err != nil {
		return err
	}
	for id := 0; id < n; id++ {
		c := &lsCase{ID: 1000000 + id, Mode: []string{"pipelined", "pipelined", "stepwise"}[r.Intn(3)]}
		nc := 2 + r.Intn(3)
		perm := r.Perm(len(lsContents) + extra)
		for i := 0; i < nc; i++ {
			c.Contents = append(c.Contents, perm[i]+1)
		}
		if r.Intn(8) == 0 {
			// a large document behind slow handlers, requests cancelled while they run, and asked again
			big := 0
			for i, t := range lsContents {
				if len(t) > 8000 {
					big = i + 1
				}
			}
			if big > 0 {
				c.Contents = []int{big, 1 + r.Intn(3)}
				c.Mode = "pipelined"
				c.Ops = []lsOp{{K: "open", U: "a", C: 1, Slow: true}}
				for k := 0; k < 2+r.Intn(3); k++ {
					c.Ops = append(c.Ops, lsOp{K: "def", U: "a", P: r.Intn(1000), Sync: true}) // sent when the server is idle, so that
					if r.Intn(3) > 0 {                                                         // the cancellation below finds it running
						c.Ops = append(c.Ops, lsOp{K: "cancel", U: "a"})
					}
					c.Ops = append(c.Ops, lsOp{K: "def", U: "a", P: r.Intn(1000)})
					if r.Intn(4) == 0 {
						c.Ops = append(c.Ops, lsOp{K: "change", U: "a", C: 1 + r.Intn(2), Slow: r.Intn(2) == 0})
					}
				}
				if err := w.Write(c); err != nil {
					return err
				}
				continue
			}
		}
		ln := 3 + r.Intn(maxLen-2)
		open := map[string]bool{}
		for i := 0; i < ln; i++ {
			u := []string{"a", "b"}[r.Intn(2)]
			op := lsOp{U: u}
			switch x := r.Intn(20); {
			case !open[u] && x < 12:
				op.K, op.C = "open", 1+r.Intn(nc)
				open[u] = true
			case x < 8:
				op.K, op.C = "change", 1+r.Intn(nc)
				open[u] = true
			case x < 9:
				op.K = []string{"change0", "save", "cancel"}[r.Intn(3)]
			case x < 11:
				op.K = "close"
				open[u] = false
			default:
				op.K, op.P = "def", r.Intn(1000)
			}
			op.Slow = (op.K == "open" || op.K == "change") && r.Intn(4) == 0
			c.Ops = append(c.Ops, op)
		}
		if err := w.Write(c); err != nil {
			return err
		}
	}
	return w.Close()
}
