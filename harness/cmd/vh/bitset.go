package main

import (
	"fmt"
	"math/rand"
	"os"
	"strconv"

	"github.com/inspirer/textmapper/util/container"
)

// bitset-run <n> <out.ndjson>: seeded random operation sequences on container.BitSet (BitSet.tla), arguments drawn around word boundaries.

func init() { register("bitset-run", bitsetRun) }

type bsOp struct {
	Op    string `json:"op"`
	A     int    `json:"a"`
	Other []int  `json:"other"`
}

type bsObs struct {
	Cap  int   `json:"cap"`
	Bits []int `json:"bits"`
	Ret  int   `json:"ret"`
}

type bsCase struct {
	Size  int     `json:"size"`
	Ops   []bsOp  `json:"ops"`
	Obs   []bsObs `json:"obs"`
	Crash string  `json:"crash"`
}

func bsPoint(r *rand.Rand, limit int) int {
	// indices next to multiples of 32, or anywhere
	if limit <= 0 {
		return 0
	}
	if r.Intn(3) == 0 {
		return r.Intn(limit)
	}
	v := 32*r.Intn(limit/32+1) + []int{-2, -1, 0, 1, 2}[r.Intn(5)]
	if v < 0 {
		v = 0
	}
	if v >= limit {
		v = limit - 1
	}
	return v
}

func bitsetExec(c *bsCase, r *rand.Rand) {
	defer func() {
		if rec := recover(); rec != nil {
			c.Crash = fmt.Sprint("panic: ", rec)
		}
	}()
	b := container.NewBitSet(c.Size)
	for k := 0; k < 12; k++ {
		capBits := len(b) * 32
		op := bsOp{Other: []int{}}
		ret := -1
		switch x := r.Intn(12); {
		case x < 2:
			op.Op, op.A = "set", bsPoint(r, capBits)
			b.Set(op.A)
		case x < 3:
			op.Op, op.A = "clear", bsPoint(r, capBits)
			b.Clear(op.A)
		case x < 4:
			op.Op, op.A = "get", bsPoint(r, capBits)
			ret = 0
			if b.Get(op.A) {
				ret = 1
			}
		case x < 5:
			op.Op, op.A = "setAll", bsPoint(r, capBits+1)
			b.SetAll(op.A)
		case x < 6:
			op.Op, op.A = "clearAll", bsPoint(r, capBits+1)
			b.ClearAll(op.A)
		case x < 7:
			op.Op, op.A = "complement", bsPoint(r, capBits+1)
			b.Complement(op.A)
		case x < 8:
			op.Op = "or"
			o := container.NewBitSet(capBits)
			for i := 0; i < r.Intn(4); i++ {
				o.Set(bsPoint(r, capBits))
			}
			if r.Intn(3) == 0 {
				o.SetAll(bsPoint(r, capBits+1))
			}
			op.Other = o.Slice(nil)
			if op.Other == nil {
				op.Other = []int{}
			}
			b.Or(o)
		case x < 9:
			op.Op, op.A = "grow", 1+r.Intn(130)
			b.Grow(op.A)
		case x < 11:
			op.Op, op.A = "nextZero", bsPoint(r, capBits)
			ret = b.NextZero(op.A)
		default:
			op.Op = "cardinality"
			ret = b.Cardinality()
		}
		bits := b.Slice(nil)
		if bits == nil {
			bits = []int{}
		}
		c.Ops = append(c.Ops, op)
		c.Obs = append(c.Obs, bsObs{Cap: len(b) * 32, Bits: bits, Ret: ret})
	}
}

func bitsetRun(args []string) error {
	n, _ := strconv.Atoi(args[0])
	seed, _ := strconv.ParseInt(os.Getenv("VERIF_SEED"), 10, 64)
	r := rand.New(rand.NewSource(seed*15485863 + 25))
	w, err := newNDWriter(args[1])
	if err != nil {
		return err
	}
	for i := 0; i < n; i++ {
		c := &bsCase{Size: []int{1, 31, 32, 33, 63, 64, 65, 96, 100}[r.Intn(9)], Ops: []bsOp{}, Obs: []bsObs{}}
		bitsetExec(c, r)
		if err := w.Write(c); err != nil {
			return err
		}
	}
	return w.Close()
}
