package main

import (
	"context"
	"encoding/json"
	"fmt"
	"math/rand"
	"os"
	"os/exec"
	"path/filepath"
	"sort"
	"strconv"
	"strings"
	"sync"

	"github.com/inspirer/textmapper/compiler"
	"github.com/inspirer/textmapper/gen"
)

func init() {
	register("c02s-gen", c02sGen)
}

// ---- event-based grammars in extended notation with inline '-> Node' clauses at any depth; every terminal occurs once

type evElem struct {
	K    string    `json:"k"` // sym opt seq alt list arrow
	T    int       `json:"t"` // sym: terminal (compiled numbering after the run)
	Sub  []*evElem `json:"sub"`
	Sep  int       `json:"sep"` // list: separator terminal + 1, 0 if none
	Plus bool      `json:"plus"`
	Name string    `json:"name"` // arrow: node name
	Name1 string   `json:"name1"` // twin: node of the first list
	Name2 string   `json:"name2"` // twin: node of the second list
}

type evRule struct {
	Marker int       `json:"marker"`
	End    int       `json:"end"`
	Node   string    `json:"node"`
	Elems  []*evElem `json:"elems"`
}

type evRun struct {
	Text   string  `json:"text"`
	Tokens [][]int `json:"tokens"` // [terminal, offset, endoffset]
	Events [][]any `json:"events"` // [name, offset, endoffset]
	Err    string  `json:"err"`
	EOI    int     `json:"eoi"` // offset of end-of-input
}

type evCase struct {
	FixWS    bool     `json:"fixws"`
	Minimize bool     `json:"minimize"`
	Optimize bool     `json:"optimize"`
	ID       int      `json:"id"`
	Pkg      string   `json:"pkg"`
	Rules    []evRule `json:"rules"`
	TM       string   `json:"tmtext"`
	GenErr   string   `json:"genErr"`
	Conflict bool     `json:"conflict"`
	Runs     []evRun  `json:"runs"`
}

type evGen struct {
	r       *rand.Rand
	nextT   int
	nextN   int
	nextH   int
	nextA0  int
	helpers []*evElem // helper nonterminals (k = "nt"): sub = alternatives, each a seq with an optional rule-level node name
}

// a helper nonterminal without a node of its own; its alternatives may carry rule-level nodes, start with their own terminal
func (g *evGen) helper(d int) *evElem {
	e := &evElem{K: "nt", T: g.nextH}
	g.nextH++
	for i := 0; i < 1+g.r.Intn(3); i++ {
		alt := &evElem{K: "seq", Sub: []*evElem{g.term()}}
		for k := 0; k < g.r.Intn(3); k++ {
			alt.Sub = append(alt.Sub, g.elem(d-1))
		}
		if last := alt.Sub[len(alt.Sub)-1]; last.nullable() && last.hasArrow() {
			// "reporting empty ranges at the end of a rule is not allowed": close the alternative with a terminal
			alt.Sub = append(alt.Sub, g.term())
		}
		if g.r.Intn(2) == 0 { // the alternative ends with a nullable list
			alt.Sub = append(alt.Sub, &evElem{K: "list", Sub: []*evElem{g.term()}})
		}
		if g.r.Intn(2) == 0 {
			// rule-level node; "A0..." sorts before every inline node name
			alt.Name = "A0" + strings.Repeat("x", g.nextA0)
			g.nextA0++
		}
		e.Sub = append(e.Sub, alt)
	}
	g.helpers = append(g.helpers, e)
	return e
}

func (g *evGen) term() *evElem { g.nextT++; return &evElem{K: "sym", T: g.nextT - 1} }
func (g *evGen) node() string  { g.nextN++; return fmt.Sprintf("A%d", g.nextN) }

func (e *evElem) hasArrow() bool {
	if e.K == "arrow" || e.K == "twin" {
		return true
	}
	for _, s := range e.Sub {
		if s.hasArrow() {
			return true
		}
	}
	return false
}

func (e *evElem) nullable() bool {
	switch e.K {
	case "sym":
		return false
	case "opt":
		return true
	case "list":
		return !e.Plus
	case "alt", "nt", "twin":
		return false
	case "arrow":
		return e.Sub[0].nullable()
	}
	for _, s := range e.Sub {
		if !s.nullable() {
			return false
		}
	}
	return true
}

// an element that starts with a mandatory terminal of its own (list elements, alternatives)
func (g *evGen) headed(d int) *evElem {
	e := &evElem{K: "seq", Sub: []*evElem{g.term()}}
	for i := 0; i < g.r.Intn(3); i++ {
		e.Sub = append(e.Sub, g.elem(d-1))
	}
	if len(e.Sub) == 1 {
		e = e.Sub[0]
	}
	if g.r.Intn(2) == 0 {
		return &evElem{K: "arrow", Name: g.node(), Sub: []*evElem{e}}
	}
	return e
}

func (g *evGen) elem(d int) *evElem {
	r := g.r
	if d <= 0 || g.nextT > 18 {
		e := g.term()
		if r.Intn(3) == 0 {
			return &evElem{K: "arrow", Name: g.node(), Sub: []*evElem{e}}
		}
		return e
	}
	switch x := r.Intn(12); {
	case x < 3:
		return g.term()
	case x < 5:
		return &evElem{K: "arrow", Name: g.node(), Sub: []*evElem{g.elem(d - 1)}}
	case x < 7:
		s := g.elem(d - 1)
		if s.K == "opt" || s.K == "list" && !s.Plus {
			return s
		}
		return &evElem{K: "opt", Sub: []*evElem{s}}
	case x < 9:
		return &evElem{K: "seq", Sub: []*evElem{g.elem(d - 1), g.elem(d - 1)}}
	case x < 10:
		e := &evElem{K: "alt"}
		for i := 0; i < 2+r.Intn(2); i++ {
			e.Sub = append(e.Sub, g.headed(d-1))
		}
		return e
	case x < 11 && r.Intn(2) == 0 && g.nextH < 3:
		if r.Intn(2) == 0 { // an annotated part that ends with the helper nonterminal
			pre := g.term()
			return &evElem{K: "arrow", Name: g.node(), Sub: []*evElem{{K: "seq", Sub: []*evElem{pre, g.helper(d)}}}}
		}
		return g.helper(d)
	case x < 11 && r.Intn(2) == 0:
		// twin lists: structurally identical elements reported as different nodes: (x -> A)+ y (x -> B)+
		x, y := g.term(), g.term()
		n1, n2 := g.node(), g.node()
		return &evElem{K: "twin", T: x.T, Sep: y.T + 1, Name: n1 + " " + n2, Name1: n1, Name2: n2}
	default:
		e := &evElem{K: "list", Plus: r.Intn(2) == 0, Sub: []*evElem{g.headed(d - 1)}}
		if r.Intn(2) == 0 {
			g.nextT++
			e.Sep = g.nextT
		}
		return e
	}
}

func (e *evElem) render() string {
	switch e.K {
	case "sym":
		return arTerm(e.T)
	case "nt":
		return fmt.Sprintf("H%d", e.T)
	case "arrow":
		return "(" + e.Sub[0].renderBody() + " -> " + e.Name + ")"
	case "opt":
		return e.Sub[0].renderPrimary() + "?"
	case "seq":
		return "(" + e.renderBody() + ")"
	case "alt":
		var p []string
		for _, s := range e.Sub {
			p = append(p, s.renderBody())
		}
		return "(" + strings.Join(p, " | ") + ")"
	case "twin":
		n := strings.Fields(e.Name)
		return "(" + arTerm(e.T) + " -> " + n[0] + ")+ " + arTerm(e.Sep-1) + " (" + arTerm(e.T) + " -> " + n[1] + ")+"
	case "list":
		q := "*"
		if e.Plus {
			q = "+"
		}
		if e.Sep > 0 {
			return "(" + e.Sub[0].renderBody() + " separator " + arTerm(e.Sep-1) + ")" + q
		}
		return e.Sub[0].renderPrimary() + q
	}
	panic("bad element " + e.K)
}

func (e *evElem) renderBody() string {
	if e.K == "seq" && len(e.Sub) > 0 {
		var p []string
		for _, s := range e.Sub {
			p = append(p, s.render())
		}
		return strings.Join(p, " ")
	}
	return e.render()
}

func (e *evElem) renderPrimary() string {
	switch e.K {
	case "opt", "list", "twin":
		return "(" + e.render() + ")"
	}
	return e.render()
}

func (e *evElem) sample(r *rand.Rand, out *[]int) {
	switch e.K {
	case "sym":
		*out = append(*out, e.T)
	case "arrow":
		e.Sub[0].sample(r, out)
	case "opt":
		if r.Intn(2) == 0 {
			e.Sub[0].sample(r, out)
		}
	case "seq":
		for _, s := range e.Sub {
			s.sample(r, out)
		}
	case "alt", "nt":
		e.Sub[r.Intn(len(e.Sub))].sample(r, out)
	case "twin":
		for i := 0; i < 1+r.Intn(3); i++ {
			*out = append(*out, e.T)
		}
		*out = append(*out, e.Sep-1)
		for i := 0; i < 1+r.Intn(3); i++ {
			*out = append(*out, e.T)
		}
	case "list":
		n := r.Intn(4)
		if e.Plus && n == 0 {
			n = 1
		}
		for i := 0; i < n; i++ {
			if i > 0 && e.Sep > 0 {
				*out = append(*out, e.Sep-1)
			}
			e.Sub[0].sample(r, out)
		}
	}
}

func (e *evElem) rewrite(tr func(int) int) {
	if e.K == "sym" || e.K == "twin" {
		e.T = tr(e.T)
	}
	if e.Sep > 0 {
		e.Sep = tr(e.Sep-1) + 1
	}
	if e.Sub == nil {
		e.Sub = []*evElem{}
	}
	for _, s := range e.Sub {
		s.rewrite(tr)
	}
}

const c02sAdapter = `
%%
{{define "onAfterParser"}}
// VerifEvents parses text and returns the listener calls as "Name offset endoffset".
func VerifEvents(text string) (events []string, errMsg string) {
	defer func() {
		if r := recover(); r != nil {
			errMsg = "fmt".Sprint("panic: ", r)
		}
	}()
	events = []string{}
	var l Lexer
	l.Init(text)
	var p Parser
	p.Init(func(t NodeType, offset, endoffset int) {
		events = append(events, "fmt".Sprintf("%v %v %v", t, offset, endoffset))
	})
	if err := p.parse(0, {{index .Parser.Tables.FinalStates 0}}, &l); err != nil {
		return events, err.Error()
	}
	return events, ""
}
{{end}}
`

const c02sMain = `package main

import (
	"bufio"
	"encoding/json"
	"os"
%s
)

type job struct {
	Pkg   string   ` + "`json:\"pkg\"`" + `
	Texts []string ` + "`json:\"texts\"`" + `
}

type result struct {
	Pkg    string     ` + "`json:\"pkg\"`" + `
	Events [][]string ` + "`json:\"events\"`" + `
	Errs   []string   ` + "`json:\"errs\"`" + `
}

var parsers = map[string]func(string) ([]string, string){
%s
}

func main() {
	dec := json.NewDecoder(bufio.NewReaderSize(os.Stdin, 1<<20))
	out := bufio.NewWriterSize(os.Stdout, 1<<20)
	enc := json.NewEncoder(out)
	for dec.More() {
		var j job
		if err := dec.Decode(&j); err != nil {
			os.Exit(3)
		}
		res := result{Pkg: j.Pkg}
		for _, t := range j.Texts {
			ev, e := parsers[j.Pkg](t)
			res.Events = append(res.Events, ev)
			res.Errs = append(res.Errs, e)
		}
		enc.Encode(res)
		out.Flush()
	}
}
`

func (c *evCase) render(nterms int, helpers []*evElem) string {
	var b strings.Builder
	fmt.Fprintf(&b, "language %s(go);\n\npackage = \"rt/%s\"\neventBased = true\n", c.Pkg, c.Pkg)
	if c.FixWS {
		b.WriteString("fixWhitespace = true\n")
	}
	if c.Minimize {
		b.WriteString("minimizeDFA = true\n")
	}
	if c.Optimize {
		b.WriteString("optimizeTables = true\n")
	}
	b.WriteString("\n:: lexer\n\nWS: /[ \\n]+/ (space)\n")
	for t := 0; t < nterms; t++ {
		fmt.Fprintf(&b, "%s: /%c/\n", arTerm(t), 'a'+t)
	}
	b.WriteString("\n:: parser\n\n%input input;\n\ninput: item+ ;\n\nitem:\n")
	for i := range c.Rules {
		sep := "    "
		if i > 0 {
			sep = "  | "
		}
		fmt.Fprintf(&b, "%sN%d\n", sep, i)
	}
	b.WriteString(";\n\n")
	for i := range c.Rules {
		r := &c.Rules[i]
		fmt.Fprintf(&b, "N%d -> %s:\n    %s", i, r.Node, arTerm(r.Marker))
		for _, e := range r.Elems {
			b.WriteString(" " + e.render())
		}
		fmt.Fprintf(&b, " %s\n;\n\n", arTerm(r.End))
	}
	for _, hp := range helpers {
		fmt.Fprintf(&b, "H%d:\n", hp.T)
		for i, alt := range hp.Sub {
			sep := "  | "
			if i == 0 {
				sep = "    "
			}
			arrow := ""
			if alt.Name != "" {
				arrow = " -> " + alt.Name
			}
			fmt.Fprintf(&b, "%s%s%s\n", sep, alt.renderBody(), arrow)
		}
		b.WriteString(";\n\n")
	}
	return b.String()
}

// c02s-gen <n> <mod-dir> <out.ndjson>
func c02sGen(args []string) error {
	n, _ := strconv.Atoi(args[0])
	mod := args[1]
	seed, _ := strconv.ParseInt(os.Getenv("VERIF_SEED"), 10, 64)
	r := rand.New(rand.NewSource(seed*15487469 + 2))
	if err := os.MkdirAll(mod, 0o755); err != nil {
		return err
	}
	cases := make([]evCase, n)
	texts := make([][]string, n)
	for id := 0; id < n; id++ {
	again:
		c := &cases[id]
		*c = evCase{}
		texts[id] = nil
		c.ID, c.Pkg = id, fmt.Sprintf("e%d", id)
		g := &evGen{r: r}
		nrules := 1 + r.Intn(2)
		for i := 0; i < nrules; i++ {
			rule := evRule{Marker: g.term().T, Node: fmt.Sprintf("R%d", i)}
			for k := 0; k < 1+r.Intn(3); k++ {
				rule.Elems = append(rule.Elems, g.elem(3))
			}
			rule.End = g.term().T
			c.Rules = append(c.Rules, rule)
		}
		if g.nextT > 26 {
			goto again
		}
		c.FixWS, c.Minimize, c.Optimize = r.Intn(3) == 0, r.Intn(3) == 0, r.Intn(4) == 0
		c.TM = c.render(g.nextT, g.helpers) + c02sAdapter
		for k := 0; k < 25; k++ {
			var toks []int
			for it := 0; it < 1+r.Intn(2); it++ {
				rule := &c.Rules[r.Intn(nrules)]
				toks = append(toks, rule.Marker)
				for _, e := range rule.Elems {
					e.sample(r, &toks)
				}
				toks = append(toks, rule.End)
			}
			var sb strings.Builder
			run := evRun{Tokens: [][]int{}, Events: [][]any{}}
			for i, t := range toks {
				sb.WriteByte(byte('a' + t))
				sb.WriteByte(' ')
				run.Tokens = append(run.Tokens, []int{t, 2 * i, 2*i + 1})
			}
			run.Text = sb.String()
			run.EOI = len(run.Text)
			texts[id] = append(texts[id], run.Text)
			c.Runs = append(c.Runs, run)
		}
	}
	for id := range cases {
		c := &cases[id]
		func() {
			defer func() {
				if rec := recover(); rec != nil {
					c.GenErr = fmt.Sprint("panic: ", rec)
				}
			}()
			g, err := compiler.Compile(context.Background(), c.Pkg+".tm", c.TM, compiler.Params{})
			if err != nil {
				c.GenErr = "compile: " + truncate(err.Error(), 600)
				c.Conflict = strings.Contains(err.Error(), "conflict")
				return
			}
			if err := gen.Generate(g, dirWriter{filepath.Join(mod, c.Pkg)}, gen.Options{}); err != nil {
				c.GenErr = "generate: " + truncate(err.Error(), 600)
				return
			}
			byName := map[string]int{}
			for i, s := range g.Syms {
				byName[s.Name] = i
			}
			tr := func(t int) int { return byName[arTerm(t)] }
			for ri := range c.Rules {
				rule := &c.Rules[ri]
				rule.Marker, rule.End = tr(rule.Marker), tr(rule.End)
				for _, e := range rule.Elems {
					e.rewrite(tr)
				}
			}
			for k := range c.Runs {
				for _, tk := range c.Runs[k].Tokens {
					tk[0] = tr(tk[0])
				}
			}
		}()
	}
	if err := os.WriteFile(filepath.Join(mod, "go.mod"), []byte("module rt\n\ngo 1.25\n"), 0o644); err != nil {
		return err
	}
	var mu sync.Mutex
	var wg sync.WaitGroup
	sem := make(chan struct{}, 16)
	for id := range cases {
		c := &cases[id]
		if c.GenErr != "" {
			continue
		}
		wg.Add(1)
		go func() {
			defer wg.Done()
			sem <- struct{}{}
			defer func() { <-sem }()
			cmd := exec.Command("go1.26", "build", "./"+c.Pkg+"/...")
			cmd.Dir = mod
			cmd.Env = append(os.Environ(), "GOFLAGS=-mod=mod", "GOPROXY=off", "GOSUMDB=off", "GOTOOLCHAIN=local")
			if out, err := cmd.CombinedOutput(); err != nil {
				mu.Lock()
				c.GenErr = "build: " + truncate(string(out), 1500)
				mu.Unlock()
			}
		}()
	}
	wg.Wait()
	var imports, table []string
	for id := range cases {
		c := &cases[id]
		if c.GenErr != "" {
			continue
		}
		imports = append(imports, fmt.Sprintf("\t%s \"rt/%s\"", c.Pkg, c.Pkg))
		table = append(table, fmt.Sprintf("\t%q: %s.VerifEvents,", c.Pkg, c.Pkg))
	}
	sort.Strings(imports)
	if err := os.WriteFile(filepath.Join(mod, "main.go"), []byte(fmt.Sprintf(c02sMain, strings.Join(imports, "\n"), strings.Join(table, "\n"))), 0o644); err != nil {
		return err
	}
	cmd := exec.Command("go1.26", "build", "-o", "evbin", ".")
	cmd.Dir = mod
	cmd.Env = append(os.Environ(), "GOFLAGS=-mod=mod", "GOPROXY=off", "GOSUMDB=off", "GOTOOLCHAIN=local")
	if out, err := cmd.CombinedOutput(); err != nil {
		return fmt.Errorf("building the event driver failed: %v\n%s", err, out)
	}
	var jobs strings.Builder
	for id := range cases {
		if cases[id].GenErr != "" {
			continue
		}
		j, _ := json.Marshal(map[string]any{"pkg": cases[id].Pkg, "texts": texts[id]})
		jobs.Write(j)
		jobs.WriteByte('\n')
	}
	run := exec.Command(filepath.Join(mod, "evbin"))
	run.Stdin = strings.NewReader(jobs.String())
	run.Stderr = os.Stderr
	outBytes, err := run.Output()
	if err != nil {
		return fmt.Errorf("event driver died: %v", err)
	}
	byPkg := map[string]*evCase{}
	for id := range cases {
		byPkg[cases[id].Pkg] = &cases[id]
	}
	for _, line := range strings.Split(strings.TrimSpace(string(outBytes)), "\n") {
		if line == "" {
			continue
		}
		var res struct {
			Pkg    string     `json:"pkg"`
			Events [][]string `json:"events"`
			Errs   []string   `json:"errs"`
		}
		if err := json.Unmarshal([]byte(line), &res); err != nil {
			return err
		}
		c := byPkg[res.Pkg]
		for k := range res.Events {
			c.Runs[k].Err = res.Errs[k]
			for _, ev := range res.Events[k] {
				f := strings.Fields(ev)
				off, _ := strconv.Atoi(f[1])
				end, _ := strconv.Atoi(f[2])
				c.Runs[k].Events = append(c.Runs[k].Events, []any{f[0], off, end})
			}
		}
	}
	w, err := newNDWriter(args[2])
	if err != nil {
		return err
	}
	for id := range cases {
		c := &cases[id]
		if c.GenErr != "" {
			c.Runs = []evRun{}
		}
		for ri := range c.Rules {
			for _, e := range c.Rules[ri].Elems {
				e.rewrite(func(t int) int { return t })
			}
		}
		if err := w.Write(c); err != nil {
			return err
		}
	}
	return w.Close()
}
