package main

import (
	"context"
	"encoding/json"
	"fmt"
	"os"
	"os/exec"
	"path/filepath"
	"sort"
	"strings"
	"sync"

	"github.com/inspirer/textmapper/compiler"
	"github.com/inspirer/textmapper/gen"
	"github.com/inspirer/textmapper/grammar"
)

// evItem is one event-based grammar to generate, build and run on texts; the grammar text must define
// VerifEvents(text string) ([]string, string) in its %% section (see c02sAdapter).
type evItem struct {
	Pkg      string
	TM       string
	Texts    []string
	After    func(g *grammar.Grammar) // called after a successful compile
	GenErr   string
	Conflict bool
	Events   [][]string
	Errs     []string
}

func evPipeline(mod string, items []*evItem) error {
	if err := os.MkdirAll(mod, 0o755); err != nil {
		return err
	}
	for _, it := range items {
		func() {
			defer func() {
				if rec := recover(); rec != nil {
					it.GenErr = fmt.Sprint("panic: ", rec)
				}
			}()
			g, err := compiler.Compile(context.Background(), it.Pkg+".tm", it.TM, compiler.Params{})
			if err != nil {
				it.GenErr = "compile: " + truncate(err.Error(), 600)
				it.Conflict = strings.Contains(err.Error(), "conflict")
				return
			}
			if err := gen.Generate(g, dirWriter{filepath.Join(mod, it.Pkg)}, gen.Options{}); err != nil {
				it.GenErr = "generate: " + truncate(err.Error(), 600)
				return
			}
			if it.After != nil {
				it.After(g)
			}
		}()
	}
	if err := os.WriteFile(filepath.Join(mod, "go.mod"), []byte("module rt\n\ngo 1.25\n"), 0o644); err != nil {
		return err
	}
	goenv := append(os.Environ(), "GOFLAGS=-mod=mod", "GOPROXY=off", "GOSUMDB=off", "GOTOOLCHAIN=local")
	var mu sync.Mutex
	var wg sync.WaitGroup
	sem := make(chan struct{}, 16)
	for _, it := range items {
		if it.GenErr != "" {
			continue
		}
		wg.Add(1)
		go func(it *evItem) {
			defer wg.Done()
			sem <- struct{}{}
			defer func() { <-sem }()
			cmd := exec.Command("go1.26", "build", "./"+it.Pkg+"/...")
			cmd.Dir, cmd.Env = mod, goenv
			if out, err := cmd.CombinedOutput(); err != nil {
				mu.Lock()
				it.GenErr = "build: " + truncate(string(out), 1500)
				mu.Unlock()
			}
		}(it)
	}
	wg.Wait()
	var imports, table []string
	for _, it := range items {
		if it.GenErr != "" {
			continue
		}
		imports = append(imports, fmt.Sprintf("\t%s \"rt/%s\"", it.Pkg, it.Pkg))
		table = append(table, fmt.Sprintf("\t%q: %s.VerifEvents,", it.Pkg, it.Pkg))
	}
	sort.Strings(imports)
	if err := os.WriteFile(filepath.Join(mod, "main.go"), []byte(fmt.Sprintf(c02sMain, strings.Join(imports, "\n"), strings.Join(table, "\n"))), 0o644); err != nil {
		return err
	}
	cmd := exec.Command("go1.26", "build", "-o", "evbin", ".")
	cmd.Dir, cmd.Env = mod, goenv
	if out, err := cmd.CombinedOutput(); err != nil {
		return fmt.Errorf("building the event driver failed: %v\n%s", err, out)
	}
	var jobs strings.Builder
	byPkg := map[string]*evItem{}
	for _, it := range items {
		byPkg[it.Pkg] = it
		if it.GenErr != "" {
			continue
		}
		j, _ := json.Marshal(map[string]any{"pkg": it.Pkg, "texts": it.Texts})
		jobs.Write(j)
		jobs.WriteByte('\n')
	}
	run := exec.Command(filepath.Join(mod, "evbin"))
	run.Stdin = strings.NewReader(jobs.String())
	run.Stderr = os.Stderr
	outBytes, err := run.Output()
	if err != nil {
		return fmt.Errorf("event driver died: %v", err)
	}
	for _, line := range strings.Split(strings.TrimSpace(string(outBytes)), "\n") {
		if line == "" {
			continue
		}
		var res struct {
			Pkg    string     `json:"pkg"`
			Events [][]string `json:"events"`
			Errs   []string   `json:"errs"`
		}
		if err := json.Unmarshal([]byte(line), &res); err != nil {
			return err
		}
		byPkg[res.Pkg].Events, byPkg[res.Pkg].Errs = res.Events, res.Errs
	}
	return nil
}
