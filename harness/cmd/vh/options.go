package main

import (
	"context"
	"fmt"
	"strings"

	"github.com/inspirer/textmapper/compiler"
	"github.com/inspirer/textmapper/status"
)

// options-run <cases.ndjson> <out.ndjson>: option blocks (Options.tla) compiled by the real front end.

func init() { register("options-run", optionsRun) }

type optAssign struct {
	Name  string `json:"name"`
	Value string `json:"value"`
}

type optCase struct {
	Assigns []optAssign `json:"assigns"`
	Target  string      `json:"target"`

	Text       string            `json:"tmtext"`
	Crash      string            `json:"crash"`
	Errs       [][3]any          `json:"errs"`
	OtherErrs  int               `json:"otherErrs"`
	Other      []string          `json:"other"`
	HasGrammar bool              `json:"hasGrammar"`
	Final      map[string]string `json:"final"`
}

var optSpelling = map[string]string{"vtrue": "true", "vfalse": "false", "v7": "7", "vs": `"s"`, "vlist": `["s"]`, "vintlist": "[7]", "vempty": "[]"}

func optionsExec(c *optCase) {
	defer func() {
		if r := recover(); r != nil {
			c.Crash = fmt.Sprint("panic: ", r)
		}
	}()
	var b strings.Builder
	fmt.Fprintf(&b, "language g(%s);\n\n", c.Target)
	type span struct{ ks, ke, vs, ve int }
	var spans []span
	for _, a := range c.Assigns {
		var sp span
		sp.ks = b.Len()
		b.WriteString(a.Name)
		sp.ke = b.Len()
		b.WriteString(" = ")
		sp.vs = b.Len()
		b.WriteString(optSpelling[a.Value])
		sp.ve = b.Len()
		b.WriteString("\n")
		spans = append(spans, sp)
	}
	b.WriteString("\n:: lexer\n\na: /a/\n\n:: parser\n\ninput: a ;\n")
	c.Text = b.String()
	g, err := compiler.Compile(context.Background(), "g.tm", c.Text, compiler.Params{CheckOnly: true})
	for _, e := range status.FromError(err) {
		cat := ""
		switch {
		case strings.HasPrefix(e.Msg, "unknown option"):
			cat = "unknown"
		case strings.Contains(e.Msg, "cannot be used when generating into"):
			cat = "language"
		case strings.HasPrefix(e.Msg, "reinitialization of"):
			cat = "reinit"
		case strings.HasSuffix(e.Msg, "is expected") || strings.HasPrefix(e.Msg, "list of "):
			cat = "type"
		}
		idx, place := 0, ""
		for i, sp := range spans {
			o, en := e.Origin.Offset, e.Origin.EndOffset
			switch {
			case o == sp.ks && en == sp.ke:
				idx, place = i+1, "key"
			case o == sp.vs && en == sp.ve:
				idx, place = i+1, "value"
			case o > sp.vs && en < sp.ve:
				idx, place = i+1, "elem"
			}
		}
		if cat == "type" && place == "elem" {
			cat = "element"
		}
		if cat == "" || idx == 0 {
			c.OtherErrs++
			c.Other = append(c.Other, truncate(e.Msg, 100))
			continue
		}
		c.Errs = append(c.Errs, [3]any{cat, idx, place})
	}
	if g != nil && g.Options != nil {
		c.HasGrammar = true
		o := g.Options
		bs := func(v bool) string { return fmt.Sprint(v) }
		c.Final = map[string]string{
			"package": o.Package, "eventBased": bs(o.EventBased), "tokenLine": bs(o.TokenLine), "cancellable": bs(o.Cancellable),
			"eventFields": bs(o.EventFields), "fixWhitespace": bs(o.FixWhitespace), "maxLookahead": fmt.Sprint(o.MaxLookahead),
			"nodePrefix": o.NodePrefix, "namespace": o.Namespace, "disableSyntax": "[" + strings.Join(o.DisableSyntax, ",") + "]",
		}
	}
}

func optionsRun(args []string) error {
	cases, err := readNDJSON[optCase](args[0])
	if err != nil {
		return err
	}
	w, err := newNDWriter(args[1])
	if err != nil {
		return err
	}
	for i := range cases {
		c := &cases[i]
		c.Errs, c.Other, c.Final = [][3]any{}, []string{}, map[string]string{}
		optionsExec(c)
		if err := w.Write(c); err != nil {
			return err
		}
	}
	return w.Close()
}
