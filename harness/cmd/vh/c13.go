package main

import (
	"context"
	"fmt"
	"math/rand"
	"os"
	"strconv"
	"strings"

	"github.com/inspirer/textmapper/compiler"
	"github.com/inspirer/textmapper/status"
)

func init() {
	register("c13-run", c13Run)
	register("c13-random", c13Random)
}

// sugar expression; symbols are harness-level first (terminal k = 1.., nonterminal index 0..) and are rewritten to the
// compiled grammar's numbering before the record is written
type sgExpr struct {
	K    string    `json:"k"`
	S    int       `json:"s"`
	Sub  []*sgExpr `json:"sub"`
	Plus bool      `json:"plus"`
	C    []int     `json:"c"`
	Op   string    `json:"op"`
}

type sgNonterm struct {
	Sym int     `json:"sym"`
	E   *sgExpr `json:"e"`
}

type sgGrammar struct {
	NT       int  `json:"nT"`
	NS       int  `json:"nS"`
	Rules    []jsRule `json:"rules"`
}

type c13Case struct {
	ID      int         `json:"id"`
	NTerms  int         `json:"nterms"` // harness-level: number of terminals ta, tb, ...
	Src     []sgNonterm `json:"src"`
	InputNs []int       `json:"inputNs"` // harness-level nonterminal indices declared as inputs
	L       int         `json:"L"`

	Text     string    `json:"tmtext"`
	Err      string    `json:"err"`
	Conflict bool      `json:"conflict"`
	G        sgGrammar `json:"g"`
	Inputs   []int     `json:"inputs"`
}

func sgName(i int) string { return fmt.Sprintf("N%d", i) }

func (e *sgExpr) render() string {
	switch e.K {
	case "t":
		return termName(e.S)
	case "n":
		return sgName(e.S)
	case "la":
		if e.Op == "not" {
			return "(?= !" + sgName(e.S) + ")"
		}
		return "(?= " + sgName(e.S) + ")"
	case "set":
		var p []string
		for _, c := range e.C {
			p = append(p, termName(c))
		}
		sep := " | "
		if e.Op == "and" {
			sep = " & "
		}
		return "set(" + strings.Join(p, sep) + ")"
	case "seq":
		var p []string
		for _, s := range e.Sub {
			p = append(p, s.render())
		}
		if len(p) == 0 {
			return "%empty"
		}
		return "(" + strings.Join(p, " ") + ")"
	case "alt":
		var p []string
		for _, s := range e.Sub {
			x := s.render()
			if x == "%empty" {
				x = "%empty"
			}
			p = append(p, x)
		}
		return "(" + strings.Join(p, " | ") + ")"
	case "opt":
		return e.Sub[0].renderPrimary() + "?"
	case "list":
		q := "*"
		if e.Plus {
			q = "+"
		}
		if len(e.Sub) == 2 {
			return "(" + e.Sub[0].render() + " separator " + e.Sub[1].renderSep() + ")" + q
		}
		return e.Sub[0].renderPrimary() + q
	}
	panic("bad sugar node " + e.K)
}

// a quantifier applies to a primary: parenthesise quantified operands
func (e *sgExpr) renderPrimary() string {
	if e.K == "opt" || e.K == "list" {
		return "(" + e.render() + ")"
	}
	return e.render()
}

func (e *sgExpr) clone() *sgExpr {
	c := *e
	c.Sub = nil
	for _, s := range e.Sub {
		c.Sub = append(c.Sub, s.clone())
	}
	c.C = append([]int{}, e.C...)
	return &c
}

// separators are references (one or more symbols), not arbitrary expressions
func (e *sgExpr) renderSep() string {
	if e.K == "seq" {
		var p []string
		for _, s := range e.Sub {
			p = append(p, s.render())
		}
		return strings.Join(p, " ")
	}
	return e.render()
}

func (e *sgExpr) rewrite(term func(int) int, nonterm func(int) int) {
	switch e.K {
	case "t":
		e.S = term(e.S)
	case "n", "la":
		e.S = nonterm(e.S)
	case "set":
		for i := range e.C {
			e.C[i] = term(e.C[i])
		}
	}
	if e.Sub == nil {
		e.Sub = []*sgExpr{}
	}
	if e.C == nil {
		e.C = []int{}
	}
	for _, s := range e.Sub {
		s.rewrite(term, nonterm)
	}
}

func c13Exec(c *c13Case) {
	c.Inputs = []int{}
	c.G.Rules = []jsRule{}
	defer func() {
		if r := recover(); r != nil {
			c.Err = fmt.Sprint("panic: ", r)
		}
	}()
	var b strings.Builder
	b.WriteString("language sg(go);\n\neventBased = true\n\n:: lexer\n\nWS: /[ \\n]+/ (space)\n")
	for t := 1; t <= c.NTerms; t++ {
		fmt.Fprintf(&b, "%s: /%s/\n", termName(t), termChar(t))
	}
	b.WriteString("\n:: parser\n\n%input ")
	for i, n := range c.InputNs {
		if i > 0 {
			b.WriteString(", ")
		}
		b.WriteString(sgName(n))
	}
	b.WriteString(";\n\n")
	for _, nt := range c.Src {
		body := nt.E.render()
		if nt.E.K == "alt" { // top-level alternatives without parentheses
			body = strings.TrimSuffix(strings.TrimPrefix(body, "("), ")")
		}
		fmt.Fprintf(&b, "%s :\n    %s\n;\n\n", sgName(nt.Sym), body)
	}
	c.Text = b.String()
	if renderOnly {
		return
	}
	g, err := compiler.Compile(context.Background(), "sg.tm", c.Text, compiler.Params{})
	if err != nil {
		other := 0
		for _, e := range status.FromError(err) {
			if strings.Contains(e.Msg, "conflict") {
				c.Conflict = true
			} else {
				other++
				c.Err = truncate(e.Msg, 200)
			}
		}
		if other == 0 {
			c.Err = ""
		}
	}
	if g == nil || g.Parser == nil || len(g.Parser.Rules) == 0 {
		if c.Err == "" {
			c.Err = "no expanded rules available"
		}
		return
	}
	byName := map[string]int{}
	for i, s := range g.Syms {
		byName[s.Name] = i
	}
	c.G.NT, c.G.NS = g.Parser.NumTerminals, len(g.Syms)
	for _, r := range g.Parser.Rules {
		jr := jsRule{LHS: int(r.LHS), RHS: []int{}}
		for _, s := range r.RHS {
			if !s.IsStateMarker() {
				jr.RHS = append(jr.RHS, int(s))
			}
		}
		jr.normalizeRule()
		c.G.Rules = append(c.G.Rules, jr)
	}
	term := func(t int) int { return byName[termName(t)] }
	nonterm := func(n int) int { return byName[sgName(n)] }
	for i := range c.Src {
		c.Src[i].Sym = nonterm(c.Src[i].Sym)
		c.Src[i].E.rewrite(term, nonterm)
	}
	for _, n := range c.InputNs {
		c.Inputs = append(c.Inputs, nonterm(n))
	}
}

func (r *jsRule) normalizeRule() {
	m1 := -1
	r.Type = &m1
	r.Flags, r.Arrows, r.AType = []string{}, [][]int{}, []int{}
}

func c13Run(args []string) error {
	cases, err := readNDJSON[c13Case](args[0])
	if err != nil {
		return err
	}
	w, err := newNDWriter(args[1])
	if err != nil {
		return err
	}
	for i := range cases {
		c := &cases[i]
		c.ID = i
		c13Exec(c)
		if err := w.Write(c); err != nil {
			return err
		}
	}
	return w.Close()
}

// random extended-notation grammars
func sgGen(r *rand.Rand, d, nterms, nnts int, allowLa bool) *sgExpr {
	if d == 0 || r.Intn(4) == 0 {
		switch x := r.Intn(10); {
		case x < 5:
			return &sgExpr{K: "t", S: 1 + r.Intn(nterms)}
		case x < 8:
			return &sgExpr{K: "n", S: r.Intn(nnts)}
		case x < 9:
			op := "or"
			if r.Intn(3) == 0 {
				op = "and"
			}
			c := []int{1 + r.Intn(nterms), 1 + r.Intn(nterms)}
			return &sgExpr{K: "set", C: c, Op: op}
		default:
			return &sgExpr{K: "t", S: 1 + r.Intn(nterms)}
		}
	}
	switch r.Intn(6) {
	case 0, 1:
		n := 2 + r.Intn(2)
		e := &sgExpr{K: "seq"}
		for i := 0; i < n; i++ {
			e.Sub = append(e.Sub, sgGen(r, d-1, nterms, nnts, allowLa))
		}
		return e
	case 2:
		n := 2 + r.Intn(2)
		e := &sgExpr{K: "alt"}
		for i := 0; i < n; i++ {
			e.Sub = append(e.Sub, sgGen(r, d-1, nterms, nnts, allowLa))
		}
		return e
	case 3:
		return &sgExpr{K: "opt", Sub: []*sgExpr{sgGen(r, d-1, nterms, nnts, allowLa)}}
	default:
		e := &sgExpr{K: "list", Plus: r.Intn(2) == 0, Sub: []*sgExpr{sgGen(r, d-1, nterms, nnts, allowLa)}}
		if r.Intn(2) == 0 {
			sep := &sgExpr{K: "t", S: 1 + r.Intn(nterms)}
			if r.Intn(4) == 0 {
				sep = &sgExpr{K: "seq", Sub: []*sgExpr{{K: "t", S: 1 + r.Intn(nterms)}, {K: "t", S: 1 + r.Intn(nterms)}}}
			}
			e.Sub = append(e.Sub, sep)
		}
		return e
	}
}

// c13-random <n> <out> <L>
func c13Random(args []string) error {
	n, _ := strconv.Atoi(args[0])
	L, _ := strconv.Atoi(args[2])
	seed, _ := strconv.ParseInt(os.Getenv("VERIF_SEED"), 10, 64)
	r := rand.New(rand.NewSource(seed*179426549 + 13))
	w, err := newNDWriter(args[1])
	if err != nil {
		return err
	}
	for id := 0; id < n; id++ {
		c := &c13Case{ID: id, NTerms: 2 + r.Intn(2), L: L}
		nnts := 1 + r.Intn(3)
		for i := 0; i < nnts; i++ {
			c.Src = append(c.Src, sgNonterm{Sym: i, E: sgGen(r, 1+r.Intn(3), c.NTerms, nnts, false)})
		}
		if r.Intn(5) == 0 { // twin lists: the same element with different separators (and different quantifiers) in one grammar
			el := sgGen(r, r.Intn(2), c.NTerms, nnts, false)
			mk := func() *sgExpr {
				sep := &sgExpr{K: "t", S: 1 + r.Intn(c.NTerms)}
				if r.Intn(2) == 0 {
					sep = &sgExpr{K: "seq", Sub: []*sgExpr{{K: "t", S: 1 + r.Intn(c.NTerms)}, {K: "t", S: 1 + r.Intn(c.NTerms)}}}
				}
				return &sgExpr{K: "list", Plus: r.Intn(2) == 0, Sub: []*sgExpr{el.clone(), sep}}
			}
			c.Src[len(c.Src)-1].E = &sgExpr{K: "seq", Sub: []*sgExpr{mk(), {K: "t", S: 1 + r.Intn(c.NTerms)}, mk()}}
		}
		c.InputNs = []int{0}
		if nnts > 1 && r.Intn(3) == 0 {
			c.InputNs = append(c.InputNs, 1)
		}
		c13Exec(c)
		if err := w.Write(c); err != nil {
			return err
		}
	}
	return w.Close()
}
