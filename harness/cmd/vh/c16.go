package main

import (
	"context"
	"encoding/json"
	"fmt"
	"math/rand"
	"os"
	"os/exec"
	"path/filepath"
	"sort"
	"strconv"
	"strings"
	"sync"

	"github.com/inspirer/textmapper/compiler"
	"github.com/inspirer/textmapper/gen"
)

func init() {
	register("c16-gen", c16Gen)
}

// ---- grammars with semantic actions whose $-references are recorded at run time

// element of a rule's right-hand side; every terminal / helper nonterminal occurs once in the whole grammar
type arElem struct {
	K    string    `json:"k"`    // sym nt opt alt seq list
	T    int       `json:"t"`    // sym: terminal number (harness-level), nt: helper nonterminal number
	Name string    `json:"name"` // alias, "" if none
	Sub  []*arElem `json:"sub"`
	Plus bool      `json:"plus"`
	Sep  int       `json:"sep"` // list: separator terminal, 0 if none
	Mark []string  `json:"mark"` // state markers written before the element
}

type arRef struct {
	Form  string `json:"form"`  // name pos first last left
	Name  string `json:"name"`  // as written after $
	Terms []int  `json:"terms"` // terminals (compiled numbering) whose tokens make up the referenced element
	Val   string `json:"val"`   // term nonterm mixed none: what $x evaluates to, if emitted
	Occ   int   `json:"occ"` // form "occ": the occ-th (0-based) occurrence of the terminal in the rule instance
	Star  bool  `json:"star"` // a nullable list: present (and empty) when it has no tokens - any position is accepted then
	HTerms []int `json:"hterms"` // those of Terms that belong to helper nonterminals (their value is 1000 + offset)
}

type arAction struct {
	ID    int     `json:"id"`
	Rule  int     `json:"rule"`
	Final bool    `json:"final"`
	At    int     `json:"at"` // number of top-level elements before the action
	Refs  []arRef `json:"refs"`
}

type arRule struct {
	Marker  int        `json:"marker"` // terminal (compiled numbering after the run)
	Elems   []*arElem  `json:"elems"`
	Actions []arAction `json:"actions"`
}

type arExec struct {
	Action int     `json:"action"`
	Rule   int     `json:"prule"`
	Vals   []int   `json:"vals"`
	Stack  [][]int `json:"stack"` // top entries, bottom first: [symbol, offset, endoffset]
}

type arRun struct {
	Tokens [][]int  `json:"tokens"` // [terminal (compiled numbering), offset, endoffset]
	Execs  []arExec `json:"execs"`
	Err    string   `json:"err"`
	Text   string   `json:"text"`
}

type arCase struct {
	ID     int      `json:"id"`
	Pkg    string   `json:"pkg"`
	Rules  []arRule `json:"rules"`
	TM     string   `json:"tmtext"`
	GenErr string   `json:"genErr"`
	Conflict bool   `json:"conflict"`
	Runs   []arRun  `json:"runs"`
	NTerms int      `json:"nterms"`
}

func arTerm(t int) string { return "t" + string(rune('a'+t)) }
func arHelper(n int) string { return fmt.Sprintf("H%d", n) }

type arGen struct {
	r       *rand.Rand
	nextT   int
	nextH   int
	nextN   int
	helpers map[int]int // helper nonterminal -> its terminal
	hasRep  bool
}

func (g *arGen) term() int  { g.nextT++; return g.nextT - 1 }
func (g *arGen) name() string {
	g.nextN++
	return "v" + strconv.Itoa(g.nextN)
}

func (g *arGen) single() *arElem {
	e := &arElem{K: "sym", T: g.term()}
	if g.r.Intn(4) == 0 && g.nextH < 4 {
		e = &arElem{K: "nt", T: g.nextH}
		g.helpers[g.nextH] = g.term()
		g.nextH++
	}
	if g.r.Intn(3) > 0 {
		e.Name = g.name()
	}
	return e
}

func (g *arGen) elem(d int) *arElem {
	r := g.r
	if g.nextT > 20 {
		return g.single()
	}
	switch x := r.Intn(10); {
	case d == 2 && x == 9 && r.Intn(2) == 0 && !g.hasRep:
		// the same symbol several times: X X (X D)? - referenced as X#0, X#1, X#2
		g.hasRep = true
		return &arElem{K: "rep", T: g.term(), Sep: g.term() + 1}
	case x < 4 || d == 0:
		return g.single()
	case x < 6:
		sub := g.elem(d - 1)
		if sub.K == "opt" || sub.K == "list" {
			return sub // an optional list is turned into a nullable list nonterminal
		}
		return &arElem{K: "opt", Sub: []*arElem{sub}}
	case x < 7:
		e := &arElem{K: "seq", Sub: []*arElem{g.elem(d - 1), g.elem(d - 1)}}
		if r.Intn(2) == 0 {
			e.Name = g.name()
		}
		if r.Intn(2) == 0 {
			return &arElem{K: "opt", Sub: []*arElem{e}}
		}
		return e
	case x < 9:
		e := &arElem{K: "alt"}
		for i := 0; i < 2+r.Intn(2); i++ {
			s := g.elem(d - 1)
			if s.K == "alt" || s.K == "opt" || s.K == "list" && !s.Plus {
				s = g.single()
			}
			e.Sub = append(e.Sub, s)
		}
		if r.Intn(3) == 0 { // an alias on the whole choice
			e.Name = g.name()
		}
		if r.Intn(2) == 0 {
			return &arElem{K: "opt", Sub: []*arElem{e}}
		}
		return e
	default:
		// a star list is a nullable nonterminal that is present (and empty) rather than absent: its references are
		// checked only when it has elements
		e := &arElem{K: "list", Plus: r.Intn(2) == 0, Sub: []*arElem{{K: "sym", T: g.term()}}}
		if r.Intn(2) == 0 {
			e.Sep = g.term() + 1
		}
		if r.Intn(2) == 0 {
			e.Name = g.name()
		}
		return e
	}
}

func (e *arElem) render() string {
	alias := ""
	if e.Name != "" {
		alias = "[" + e.Name + "]"
	}
	switch e.K {
	case "rep":
		return arTerm(e.T) + " " + arTerm(e.T) + " (" + arTerm(e.T) + " " + arTerm(e.Sep-1) + ")?"
	case "sym":
		return arTerm(e.T) + alias
	case "nt":
		return arHelper(e.T) + alias
	case "opt":
		s := e.Sub[0].render()
		if e.Sub[0].K == "opt" {
			s = "(" + s + ")"
		}
		return s + "?"
	case "seq":
		var p []string
		for _, s := range e.Sub {
			p = append(p, s.render())
		}
		return "(" + strings.Join(p, " ") + ")" + alias
	case "alt":
		var p []string
		for _, s := range e.Sub {
			x := s.render()
			if s.K == "seq" && s.Name == "" {
				x = strings.TrimSuffix(strings.TrimPrefix(x, "("), ")")
			}
			p = append(p, x)
		}
		return "(" + strings.Join(p, " | ") + ")" + alias
	case "list":
		q := "*"
		if e.Plus {
			q = "+"
		}
		if e.Sep > 0 {
			return "(" + arTerm(e.Sub[0].T) + " separator " + arTerm(e.Sep-1) + ")" + q + alias
		}
		return arTerm(e.Sub[0].T) + q + alias
	}
	panic("bad element " + e.K)
}

// terminals (harness-level) whose tokens make up the element
func (e *arElem) terms(helpers map[int]int, out *[]int) {
	switch e.K {
	case "rep":
		*out = append(*out, e.T, e.Sep-1)
	case "sym":
		*out = append(*out, e.T)
	case "nt":
		*out = append(*out, helpers[e.T])
	case "list":
		*out = append(*out, e.Sub[0].T)
		if e.Sep > 0 {
			*out = append(*out, e.Sep-1)
		}
	default:
		for _, s := range e.Sub {
			s.terms(helpers, out)
		}
	}
}

// hasStar reports whether the element contains a nullable list: such an element can be present without any token
func (e *arElem) hasStar() bool {
	if e.K == "list" && !e.Plus {
		return true
	}
	for _, s := range e.Sub {
		if s.hasStar() {
			return true
		}
	}
	return false
}

// referencable items of an element: aliases (with the set of terminals they cover) and the bare names of unaliased symbols
func (e *arElem) collect(helpers map[int]int, byName map[string]*arRef, order *[]string) {
	add := func(name string, val string, el *arElem) {
		var ts []int
		el.terms(helpers, &ts)
		if r, ok := byName[name]; ok {
			r.Terms = append(r.Terms, ts...)
			if r.Val != val {
				r.Val = "none"
			}
			return
		}
		byName[name] = &arRef{Form: "name", Name: name, Terms: ts, Val: val, Star: el.hasStar()}
		*order = append(*order, name)
	}
	switch e.K {
	case "rep":
		for k := 0; k < 3; k++ {
			name := fmt.Sprintf("%s#%d", arTerm(e.T), k)
			byName[name] = &arRef{Form: "occ", Name: name, Terms: []int{e.T}, Val: "none", Occ: k}
			*order = append(*order, name)
		}
	case "sym":
		if e.Name != "" {
			add(e.Name, "term", e)
		} else {
			add(arTerm(e.T), "term", e)
		}
	case "nt":
		if e.Name != "" {
			add(e.Name, "nonterm", e)
		} else {
			add(arHelper(e.T), "nonterm", e)
		}
	case "list":
		if e.Name != "" {
			add(e.Name, "none", e)
			if !e.Plus {
				byName[e.Name].Star = true
			}
		}
	case "seq":
		if e.Name != "" {
			add(e.Name, "none", e)
		}
		for _, s := range e.Sub {
			s.collect(helpers, byName, order)
		}
	case "alt":
		if e.Name != "" {
			val := ""
			for _, s := range e.Sub {
				v := "none"
				switch s.K {
				case "sym":
					v = "term"
				case "nt":
					v = "nonterm"
				}
				if val == "" {
					val = v
				} else if val != v {
					if val != "none" && v != "none" {
						val = "mixed" // differently typed alternatives under one alias
					} else {
						val = "none"
					}
				}
			}
			for _, s := range e.Sub {
				if s.K != "sym" && s.K != "nt" {
					val = "none"
				}
			}
			add(e.Name, val, e)
		}
		for _, s := range e.Sub {
			s.collect(helpers, byName, order)
		}
	default:
		for _, s := range e.Sub {
			s.collect(helpers, byName, order)
		}
	}
}

// positional references: every symbol and every list takes one position, in source order (the marker is position 0)
func (e *arElem) positions(helpers map[int]int, pos *int, out *[]arRef) {
	switch e.K {
	case "rep":
		*pos += 4
	case "sym", "nt", "list":
		var ts []int
		e.terms(helpers, &ts)
		val := map[string]string{"sym": "term", "nt": "nonterm", "list": "none"}[e.K]
		*out = append(*out, arRef{Form: "pos", Name: strconv.Itoa(*pos), Terms: ts, Val: val, Star: e.K == "list" && !e.Plus})
		*pos++
	default:
		for _, s := range e.Sub {
			s.positions(helpers, pos, out)
		}
	}
}

// a random sentence of the element: tokens (harness-level terminals)
func (e *arElem) sample(r *rand.Rand, helpers map[int]int, out *[]int) {
	switch e.K {
	case "rep":
		*out = append(*out, e.T, e.T)
		if r.Intn(2) == 0 {
			*out = append(*out, e.T, e.Sep-1)
		}
	case "sym":
		*out = append(*out, e.T)
	case "nt":
		*out = append(*out, helpers[e.T])
	case "opt":
		if r.Intn(2) == 0 {
			e.Sub[0].sample(r, helpers, out)
		}
	case "seq":
		for _, s := range e.Sub {
			s.sample(r, helpers, out)
		}
	case "alt":
		e.Sub[r.Intn(len(e.Sub))].sample(r, helpers, out)
	case "list":
		n := r.Intn(4)
		if e.Plus && n == 0 {
			n = 1
		}
		for i := 0; i < n; i++ {
			if i > 0 && e.Sep > 0 {
				*out = append(*out, e.Sep-1)
			}
			*out = append(*out, e.Sub[0].T)
		}
	}
}

const c16Adapter = `
%%
{{define "onAfterParser"}}
var VerifLog [][]int

func verifRec(id int, rule int32, stack []stackEntry, vals ...interface{}) {
	rec := []int{id, int(rule), len(vals)}
	for _, v := range vals {
		switch x := v.(type) {
		case nil:
			rec = append(rec, -1)
		case int:
			rec = append(rec, x)
		case int64:
			rec = append(rec, int(x))
		default:
			rec = append(rec, -2)
		}
	}
	k := len(stack)
	if k > 24 {
		k = 24
	}
	rec = append(rec, k)
	for _, e := range stack[len(stack)-k:] {
		rec = append(rec, int(e.sym.symbol), e.sym.offset, e.sym.endoffset)
	}
	VerifLog = append(VerifLog, rec)
}

// VerifParse parses text and returns the log of the semantic actions that ran.
func VerifParse(text string) (log [][]int, errMsg string) {
	defer func() {
		if r := recover(); r != nil {
			errMsg = "fmt".Sprint("panic: ", r)
			log = VerifLog
		}
	}()
	VerifLog = [][]int{}
	var l Lexer
	l.Init(text)
	var p Parser
	p.Init()
	{{if .Parser.HasInputAssocValues}}_, {{end}}err := p.parse(0, {{index .Parser.Tables.FinalStates 0}}, &l)
	if err != nil {
		return VerifLog, err.Error()
	}
	return VerifLog, ""
}
{{end}}
`

const c16Main = `package main

import (
	"bufio"
	"encoding/json"
	"os"
%s
)

type job struct {
	Pkg   string   ` + "`json:\"pkg\"`" + `
	Texts []string ` + "`json:\"texts\"`" + `
}

type result struct {
	Pkg  string    ` + "`json:\"pkg\"`" + `
	Logs [][][]int ` + "`json:\"logs\"`" + `
	Errs []string  ` + "`json:\"errs\"`" + `
}

var parsers = map[string]func(string) ([][]int, string){
%s
}

func main() {
	dec := json.NewDecoder(bufio.NewReaderSize(os.Stdin, 1<<20))
	out := bufio.NewWriterSize(os.Stdout, 1<<20)
	enc := json.NewEncoder(out)
	for dec.More() {
		var j job
		if err := dec.Decode(&j); err != nil {
			os.Exit(3)
		}
		res := result{Pkg: j.Pkg}
		for _, t := range j.Texts {
			log, e := parsers[j.Pkg](t)
			if log == nil {
				log = [][]int{}
			}
			res.Logs = append(res.Logs, log)
			res.Errs = append(res.Errs, e)
		}
		enc.Encode(res)
		out.Flush()
	}
}
`

func (c *arCase) render(helpers map[int]int, nterms int) string {
	var b strings.Builder
	fmt.Fprintf(&b, "language %s(go);\n\npackage = \"rt/%s\"\neventBased = false\n\n:: lexer\n\nWS: /[ \\n]+/ (space)\n", c.Pkg, c.Pkg)
	for t := 0; t < nterms; t++ {
		fmt.Fprintf(&b, "%s {int}: /%c/ { $$ = l.tokenOffset }\n", arTerm(t), 'a'+t)
	}
	b.WriteString("\n:: parser\n\n%input input;\n\ninput: item+ ;\n\nitem:\n")
	for i := range c.Rules {
		sep := "    "
		if i > 0 {
			sep = "  | "
		}
		fmt.Fprintf(&b, "%sN%d\n", sep, i)
	}
	b.WriteString(";\n\n")
	var hs []int
	for h := range helpers {
		hs = append(hs, h)
	}
	sort.Ints(hs)
	for _, h := range hs {
		fmt.Fprintf(&b, "%s {int64}: %s { lhs.value = int64(1000 + lhs.sym.offset) } ;\n\n", arHelper(h), arTerm(helpers[h]))
	}
	for i := range c.Rules {
		r := &c.Rules[i]
		fmt.Fprintf(&b, "N%d {int}:\n    %s", i, arTerm(r.Marker))
		code := func(a *arAction) string {
			var args []string
			for _, ref := range a.Refs {
				switch ref.Form {
				case "occ":
					args = append(args, "${"+ref.Name+".offset}", "${"+ref.Name+".endoffset}")
				case "name", "pos":
					if ref.Val != "none" {
						args = append(args, "$"+ref.Name)
					}
					args = append(args, "${"+ref.Name+".offset}", "${"+ref.Name+".endoffset}")
				case "first":
					args = append(args, "${first().offset}")
				case "last":
					args = append(args, "${last().endoffset}")
				case "left":
					args = append(args, "${left().offset}", "${left().endoffset}")
				}
			}
			return fmt.Sprintf(" { verifRec(%d, rule, stack, []interface{}{%s}...) }", a.ID, strings.Join(args, ", "))
		}
		for k, e := range r.Elems {
			for ai := range r.Actions {
				if !r.Actions[ai].Final && r.Actions[ai].At == k {
					b.WriteString(code(&r.Actions[ai]))
				}
			}
			for _, m := range e.Mark {
				b.WriteString(" ." + m)
			}
			b.WriteString(" " + e.render())
		}
		for ai := range r.Actions {
			if !r.Actions[ai].Final && r.Actions[ai].At == len(r.Elems) {
				b.WriteString(code(&r.Actions[ai]))
			}
		}
		for ai := range r.Actions {
			if r.Actions[ai].Final {
				b.WriteString(code(&r.Actions[ai]))
			}
		}
		b.WriteString("\n;\n\n")
	}
	return b.String()
}

// c16-gen <n> <mod-dir> <out.ndjson>
func c16Gen(args []string) error {
	n, _ := strconv.Atoi(args[0])
	mod := args[1]
	seed, _ := strconv.ParseInt(os.Getenv("VERIF_SEED"), 10, 64)
	r := rand.New(rand.NewSource(seed*49979687 + 16))
	if err := os.MkdirAll(mod, 0o755); err != nil {
		return err
	}
	cases := make([]arCase, n)
	texts := make([][]string, n)
	helperTerms := make([][]int, n)
	for id := 0; id < n; id++ {
	again:
		c := &cases[id]
		*c = arCase{}
		texts[id] = nil
		c.ID, c.Pkg = id, fmt.Sprintf("a%d", id)
		g := &arGen{r: r, helpers: map[int]int{}}
		nrules := 1 + r.Intn(3)
		actionID := 0
		for i := 0; i < nrules; i++ {
			rule := arRule{Marker: g.term()}
			ne := 1 + r.Intn(4)
			for k := 0; k < ne; k++ {
				rule.Elems = append(rule.Elems, g.elem(2))
			}
			// actions: a final one, and mostly a mid-rule one
			mk := func(final bool, at int) arAction {
				a := arAction{ID: actionID, Rule: i, Final: final, At: at}
				actionID++
				byName := map[string]*arRef{}
				var order []string
				for _, e := range rule.Elems[:at] {
					e.collect(g.helpers, byName, &order)
				}
				for _, nm := range order {
					if r.Intn(4) > 0 {
						a.Refs = append(a.Refs, *byName[nm])
					}
				}
				a.Refs = append(a.Refs, arRef{Form: "first"}, arRef{Form: "last"})
				if final {
					a.Refs = append(a.Refs, arRef{Form: "left"})
				}
				// positional references: $0 is the marker, $1 the first symbol when the first element is a plain symbol
				a.Refs = append(a.Refs, arRef{Form: "pos", Name: "0", Terms: []int{rule.Marker}, Val: "term"})
				var positional []arRef
				pos := 1
				for _, e := range rule.Elems[:at] {
					e.positions(g.helpers, &pos, &positional)
				}
				for _, pr := range positional {
					if r.Intn(3) == 0 {
						a.Refs = append(a.Refs, pr)
					}
				}
				return a
			}
			if r.Intn(4) > 0 {
				rule.Actions = append(rule.Actions, mk(false, r.Intn(len(rule.Elems))))
			} else {
				// state markers (they cannot be mixed with mid-rule actions)
				for _, e := range rule.Elems {
					for r.Intn(3) == 0 {
						e.Mark = append(e.Mark, fmt.Sprintf("m%d", r.Intn(3)))
					}
				}
			}
			rule.Actions = append(rule.Actions, mk(true, len(rule.Elems)))
			c.Rules = append(c.Rules, rule)
		}
		if g.nextT > 26 {
			goto again // one letter per terminal
		}
		c.NTerms = g.nextT
		helperTerms[id] = nil
		for _, t := range g.helpers {
			helperTerms[id] = append(helperTerms[id], t)
		}
		c.TM = c.render(g.helpers, g.nextT) + c16Adapter
		// sentences
		for k := 0; k < 25; k++ {
			var toks []int
			for it := 0; it < 1+r.Intn(3); it++ {
				ri := r.Intn(nrules)
				toks = append(toks, c.Rules[ri].Marker)
				for _, e := range c.Rules[ri].Elems {
					e.sample(r, g.helpers, &toks)
				}
			}
			var sb strings.Builder
			run := arRun{Tokens: [][]int{}, Execs: []arExec{}}
			for i, t := range toks {
				sb.WriteByte(byte('a' + t))
				sb.WriteByte(' ')
				run.Tokens = append(run.Tokens, []int{t, 2 * i, 2*i + 1})
			}
			run.Text = sb.String()
			texts[id] = append(texts[id], run.Text)
			c.Runs = append(c.Runs, run)
		}
	}
	// generate (sequential), rewrite terminal numbers to the compiled numbering
	for id := range cases {
		c := &cases[id]
		func() {
			defer func() {
				if rec := recover(); rec != nil {
					c.GenErr = fmt.Sprint("panic: ", rec)
				}
			}()
			g, err := compiler.Compile(context.Background(), c.Pkg+".tm", c.TM, compiler.Params{})
			if err != nil {
				c.GenErr = "compile: " + truncate(err.Error(), 600)
				c.Conflict = strings.Contains(err.Error(), "conflict")
				return
			}
			if err := gen.Generate(g, dirWriter{filepath.Join(mod, c.Pkg)}, gen.Options{}); err != nil {
				c.GenErr = "generate: " + truncate(err.Error(), 600)
				return
			}
			byName := map[string]int{}
			for i, s := range g.Syms {
				byName[s.Name] = i
			}
			tr := func(t int) int { return byName[arTerm(t)] }
			for ri := range c.Rules {
				rule := &c.Rules[ri]
				rule.Marker = tr(rule.Marker)
				for ai := range rule.Actions {
					for k := range rule.Actions[ai].Refs {
						ref := &rule.Actions[ai].Refs[k]
						ref.HTerms = []int{}
						for x := range ref.Terms {
							for _, ht := range helperTerms[c.ID] {
								if ht == ref.Terms[x] {
									ref.HTerms = append(ref.HTerms, tr(ht))
								}
							}
							ref.Terms[x] = tr(ref.Terms[x])
						}
						if ref.Terms == nil {
							ref.Terms = []int{}
						}
					}
				}
			}
			for k := range c.Runs {
				for _, tk := range c.Runs[k].Tokens {
					tk[0] = tr(tk[0])
				}
			}
		}()
	}
	if err := os.WriteFile(filepath.Join(mod, "go.mod"), []byte("module rt\n\ngo 1.25\n"), 0o644); err != nil {
		return err
	}
	var mu sync.Mutex
	var wg sync.WaitGroup
	sem := make(chan struct{}, 16)
	for id := range cases {
		c := &cases[id]
		if c.GenErr != "" {
			continue
		}
		wg.Add(1)
		go func() {
			defer wg.Done()
			sem <- struct{}{}
			defer func() { <-sem }()
			cmd := exec.Command("go1.26", "build", "./"+c.Pkg+"/...")
			cmd.Dir = mod
			cmd.Env = append(os.Environ(), "GOFLAGS=-mod=mod", "GOPROXY=off", "GOSUMDB=off", "GOTOOLCHAIN=local")
			if out, err := cmd.CombinedOutput(); err != nil {
				mu.Lock()
				c.GenErr = "build: " + truncate(string(out), 1500)
				mu.Unlock()
			}
		}()
	}
	wg.Wait()
	var imports, table []string
	for id := range cases {
		c := &cases[id]
		if c.GenErr != "" {
			continue
		}
		imports = append(imports, fmt.Sprintf("\t%s \"rt/%s\"", c.Pkg, c.Pkg))
		table = append(table, fmt.Sprintf("\t%q: %s.VerifParse,", c.Pkg, c.Pkg))
	}
	sort.Strings(imports)
	if err := os.WriteFile(filepath.Join(mod, "main.go"), []byte(fmt.Sprintf(c16Main, strings.Join(imports, "\n"), strings.Join(table, "\n"))), 0o644); err != nil {
		return err
	}
	cmd := exec.Command("go1.26", "build", "-o", "arbin", ".")
	cmd.Dir = mod
	cmd.Env = append(os.Environ(), "GOFLAGS=-mod=mod", "GOPROXY=off", "GOSUMDB=off", "GOTOOLCHAIN=local")
	if out, err := cmd.CombinedOutput(); err != nil {
		return fmt.Errorf("building the action driver failed: %v\n%s", err, out)
	}
	var jobs strings.Builder
	for id := range cases {
		if cases[id].GenErr != "" {
			continue
		}
		j, _ := json.Marshal(map[string]any{"pkg": cases[id].Pkg, "texts": texts[id]})
		jobs.Write(j)
		jobs.WriteByte('\n')
	}
	run := exec.Command(filepath.Join(mod, "arbin"))
	run.Stdin = strings.NewReader(jobs.String())
	run.Stderr = os.Stderr
	outBytes, err := run.Output()
	if err != nil {
		return fmt.Errorf("action driver died: %v", err)
	}
	byPkg := map[string]*arCase{}
	for id := range cases {
		byPkg[cases[id].Pkg] = &cases[id]
	}
	for _, line := range strings.Split(strings.TrimSpace(string(outBytes)), "\n") {
		if line == "" {
			continue
		}
		var res struct {
			Pkg  string    `json:"pkg"`
			Logs [][][]int `json:"logs"`
			Errs []string  `json:"errs"`
		}
		if err := json.Unmarshal([]byte(line), &res); err != nil {
			return err
		}
		c := byPkg[res.Pkg]
		for k := range res.Logs {
			c.Runs[k].Err = res.Errs[k]
			for _, rec := range res.Logs[k] {
				nv := rec[2]
				ex := arExec{Action: rec[0], Rule: rec[1], Vals: append([]int{}, rec[3:3+nv]...), Stack: [][]int{}}
				depth := rec[3+nv]
				for i := 0; i < depth; i++ {
					ex.Stack = append(ex.Stack, rec[4+nv+3*i:7+nv+3*i])
				}
				c.Runs[k].Execs = append(c.Runs[k].Execs, ex)
			}
		}
	}
	w, err := newNDWriter(args[2])
	if err != nil {
		return err
	}
	for id := range cases {
		c := &cases[id]
		if c.GenErr != "" {
			c.Runs = []arRun{}
		}
		for ri := range c.Rules {
			for _, e := range c.Rules[ri].Elems {
				e.normalize()
			}
			for ai := range c.Rules[ri].Actions {
				a := &c.Rules[ri].Actions[ai]
				if a.Refs == nil {
					a.Refs = []arRef{}
				}
				for k := range a.Refs {
					if a.Refs[k].Terms == nil {
						a.Refs[k].Terms = []int{}
					}
					if a.Refs[k].HTerms == nil {
						a.Refs[k].HTerms = []int{}
					}
				}
			}
		}
		if err := w.Write(c); err != nil {
			return err
		}
	}
	return w.Close()
}

func (e *arElem) normalize() {
	if e.Sub == nil {
		e.Sub = []*arElem{}
	}
	if e.Mark == nil {
		e.Mark = []string{}
	}
	for _, s := range e.Sub {
		s.normalize()
	}
}
