package main

import (
	"fmt"

	"github.com/inspirer/textmapper/util/ident"
)

func init() { register("c28-run", c28Run) }

type c28Case struct {
	ID   int    `json:"id"`
	Kind string `json:"kind"`
	Name []int  `json:"name,omitempty"`
	A    []int  `json:"a,omitempty"`
	B    []int  `json:"b,omitempty"`

	Text          string   `json:"text"`
	IDs           [][]int  `json:"ids"`
	DistinctNames bool     `json:"distinctNames"`
	Roles         []string `json:"roles"`
	WouldBe       [][]int  `json:"wouldBe"`
	Err           bool     `json:"err"`
	Msgs          []string `json:"msgs"`
	SymIDs        [][]int  `json:"symIds"`
}

func cps(s string) []int {
	r := []int{}
	for _, c := range s {
		r = append(r, int(c))
	}
	return r
}

func fromCPs(c []int) string {
	r := make([]rune, len(c))
	for i, x := range c {
		r[i] = rune(x)
	}
	return string(r)
}

func c28Exec(c *c28Case, variant int) {
	c.IDs, c.WouldBe, c.SymIDs, c.Msgs, c.Roles = [][]int{}, [][]int{}, [][]int{}, []string{}, []string{}
	if c.Kind == "name" {
		name := fromCPs(c.Name)
		c.Text = name
		for _, st := range []ident.Style{ident.CamelCase, ident.CamelLower, ident.UpperCase, ident.UpperUnderscores} {
			c.IDs = append(c.IDs, cps(ident.Produce(name, st)))
		}
		return
	}
	a, b := fromCPs(c.A), fromCPs(c.B)
	c.DistinctNames = a != b
	quoted := func(s string) bool { return s[0] == '\'' || s[0] == '"' }
	// role assignment: both terminals, or (when b is an identifier) a terminal and a nonterminal
	bNonterm := variant == 1 && !quoted(b)
	aNonterm := variant == 2 && !quoted(a) && !quoted(b)
	var lexer, parser string
	role := func(s string, nonterm bool) {
		if nonterm {
			c.Roles = append(c.Roles, "nonterm")
			c.WouldBe = append(c.WouldBe, cps(ident.Produce(s, ident.CamelCase)))
		} else {
			c.Roles = append(c.Roles, "term")
			c.WouldBe = append(c.WouldBe, cps(ident.Produce(s, ident.UpperCase)))
		}
	}
	role(a, aNonterm)
	role(b, bNonterm || aNonterm)
	pat := 'p'
	decl := func(s string) {
		lexer += fmt.Sprintf("%s: /%c/\n", s, pat)
		pat++
	}
	explicit := variant == 3 && !quoted(b) && len(c.WouldBe[0]) > 0
	switch {
	case explicit:
		// the second terminal declares the first one's identifier explicitly: "b (ID): /q/"
		decl(a)
		lexer += fmt.Sprintf("%s (%s): /%c/\n", b, fromCPs(c.WouldBe[0]), pat)
		c.WouldBe[1] = c.WouldBe[0]
		c.Roles[1] = "term-explicit-id"
		parser = fmt.Sprintf("%%input start;\nstart: %s %s ;\n", a, b)
		if a == b {
			c.DistinctNames = false
		}
	case aNonterm:
		decl("tok")
		parser = fmt.Sprintf("%%input %s;\n%s: tok %s | tok ;\n%s: tok tok ;\n", a, a, b, b)
		if a == b {
			parser = fmt.Sprintf("%%input %s;\n%s: tok ;\n", a, a)
		}
	case bNonterm:
		decl(a)
		parser = fmt.Sprintf("%%input %s;\n%s: %s ;\n", b, b, a)
	default:
		decl(a)
		if a != b {
			decl(b)
		}
		parser = fmt.Sprintf("%%input start;\nstart: %s %s ;\n", a, b)
	}
	c.Text = "language l(go);\n\n:: lexer\n\n" + lexer + "\n:: parser\n\n" + parser
	g, err := compileTM("c28.tm", c.Text)
	if err != nil {
		c.Err = true
		c.Msgs = append(c.Msgs, truncate(err.Error(), 300))
		return
	}
	for _, s := range g.Syms {
		if s.Name == "eoi" || s.Name == "invalid_token" || s.Name == "error" {
			continue
		}
		c.SymIDs = append(c.SymIDs, cps(s.ID))
	}
}

func truncate(s string, n int) string {
	if len(s) > n {
		return s[:n]
	}
	return s
}

func c28Run(args []string) error {
	cases, err := readNDJSON[c28Case](args[0])
	if err != nil {
		return err
	}
	w, err := newNDWriter(args[1])
	if err != nil {
		return err
	}
	n := 0
	for i := range cases {
		variants := 1
		if cases[i].Kind == "pair" {
			variants = 4
		}
		for v := 0; v < variants; v++ {
			c := cases[i]
			c.ID = n
			n++
			c28Exec(&c, v)
			if err := w.Write(c); err != nil {
				return err
			}
		}
	}
	return w.Close()
}
