package main

import (
	"fmt"
	"strings"
	"unicode"

	"github.com/inspirer/textmapper/lex"
)

func init() {
	register("c10-run", c10Run)
}

type c10Node struct {
	K     string     `json:"k"`
	CP    int        `json:"cp"`
	Form  string     `json:"form,omitempty"`
	Lo    int        `json:"lo"`
	Hi    int        `json:"hi"`
	FLo   string     `json:"flo,omitempty"`
	FHi   string     `json:"fhi,omitempty"`
	Name  string     `json:"name,omitempty"`
	Style string     `json:"style,omitempty"`
	Items []*c10Node `json:"items"`
	Neg   bool       `json:"neg"`
	Subs  []*c10Node `json:"subs"`
}

type c10Case struct {
	ID        int      `json:"id"`
	P         *c10Node `json:"p"`
	Fold      bool     `json:"fold"`
	Bytes     bool     `json:"bytes"`
	Malformed bool     `json:"malformed"`

	Spelling   string           `json:"spelling"`
	PatLen     int              `json:"patLen"`
	InUniverse bool             `json:"inUniverse"`
	Err        string           `json:"err"`
	ErrOff     int              `json:"errOff"`
	ErrEnd     int              `json:"errEnd"`
	Probes     []int            `json:"probes"`
	Matches    []int            `json:"matches"`
	Facts      map[string][]int `json:"facts"`
	Orbits     [][]int          `json:"orbits"`
}

var c10Probes = []int{0, 1, 2, 9, 10, 11, 13, 32, 45, 46, 47, 48, 53, 57, 58, 64, 65, 70, 71, 75, 83, 90, 91, 92, 93, 94, 95, 96, 97, 102, 103, 107, 115, 122, 123, 127,
	128, 133, 160, 170, 181, 199, 200, 201, 223, 233, 254, 255, 256, 304, 305, 383, 384, 452, 453, 454, 837, 921, 953, 8126, 8490, 8491, 8551, 8567, 9398, 9424, 0xd7ff, 0xe000, 0xffff, 0x10000, 119070, 0x10fffe, 0x10ffff}

// the probe universe is closed under simple case folding, so that folded denotations can be evaluated on it
func init() {
	seen := map[int]bool{}
	for _, p := range c10Probes {
		seen[p] = true
	}
	for _, p := range append([]int{}, c10Probes...) {
		for r := unicode.SimpleFold(rune(p)); r != rune(p); r = unicode.SimpleFold(r) {
			if !seen[int(r)] {
				seen[int(r)] = true
				c10Probes = append(c10Probes, int(r))
			}
		}
	}
}

func spellCP(cp int, form string) string {
	switch form {
	case "raw":
		return string(rune(cp))
	case "x2":
		return fmt.Sprintf(`\x%02x`, cp)
	case "u4":
		return fmt.Sprintf(`\u%04X`, cp)
	case "U8":
		return fmt.Sprintf(`\U%08x`, cp)
	case "xb":
		return fmt.Sprintf(`\x{%x}`, cp)
	case "oct":
		return fmt.Sprintf(`\%03o`, cp)
	case "bs":
		return `\` + string(rune(cp))
	case "ctl":
		switch cp {
		case 9:
			return `\t`
		case 10:
			return `\n`
		case 13:
			return `\r`
		}
	}
	panic("bad form " + form)
}

func (n *c10Node) spell() string {
	switch n.K {
	case "ch":
		return spellCP(n.CP, n.Form)
	case "range":
		return spellCP(n.Lo, n.FLo) + "-" + spellCP(n.Hi, n.FHi)
	case "dot":
		return "."
	case "esc":
		return `\` + n.Name
	case "prop":
		switch n.Style {
		case "p":
			return `\p{` + n.Name + `}`
		case "P":
			return `\P{` + n.Name + `}`
		case "pneg":
			return `\p{^` + n.Name + `}`
		default:
			return `\P{^` + n.Name + `}`
		}
	case "class":
		var sb strings.Builder
		sb.WriteByte('[')
		if n.Neg {
			sb.WriteByte('^')
		}
		for _, it := range n.Items {
			sb.WriteString(it.spell())
		}
		for _, s := range n.Subs {
			sb.WriteByte('-')
			sb.WriteString(s.spell())
		}
		sb.WriteByte(']')
		return sb.String()
	case "mal":
		return malSpelling[n.Name]
	}
	panic("bad node " + n.K)
}

var malSpelling = map[string]string{
	"x-nonhex": `\x4g`, "x-nonhex-G": `\xZZ`, "u-nonhex": `\u00g1`, "u-nonhex-Z": `\uGGGG`, "xb-nonhex": `\x{4g}`,
	"x-short": `\x4`, "u-short": `\u041`, "U-short": `\U0000041`,
	"U-toobig": `\U00110000`, "xb-toobig": `\x{110000}`, "xb-overflow": `\x{100000041}`,
	"oct-big": `\477`, "oct-short": `\12`, "oct-nondigit": `\128`,
	"range-inverted": `[z-a]`, "range-inverted-esc": `[\x7a-\x61]`, "class-range-set": `[a-\d]`,
	"paren-open": `(ab`, "paren-close": `ab)`, "bracket-open": `[ab`,
	"quant-inverted": `a{2,1}`, "quant-open": `a{2`, "quant-dangling": `*a`, "quant-double": `a**`,
	"backslash-trailing": `ab\`, "prop-unknown": `\p{Nope}`, "prop-unclosed": `\p{Lu`, "esc-unknown": `\q`,
	"bytes-toobig-class": `[Ā]`,
}

// maxCP returns the largest code point a class item mentions (for the byte-mode universe).
func (n *c10Node) maxClassCP() int {
	m := 0
	switch n.K {
	case "ch":
		m = n.CP
	case "range":
		m = n.Hi
	}
	for _, it := range n.Items {
		if x := it.maxClassCP(); x > m {
			m = x
		}
	}
	for _, it := range n.Subs {
		if x := it.maxClassCP(); x > m {
			m = x
		}
	}
	return m
}

func (n *c10Node) hasProp() bool {
	if n.K == "prop" {
		return true
	}
	for _, x := range n.Items {
		if x.hasProp() {
			return true
		}
	}
	for _, x := range n.Subs {
		if x.hasProp() {
			return true
		}
	}
	return false
}

func (n *c10Node) normalize() {
	if n.Items == nil {
		n.Items = []*c10Node{}
	}
	if n.Subs == nil {
		n.Subs = []*c10Node{}
	}
	for _, x := range n.Items {
		x.normalize()
	}
	for _, x := range n.Subs {
		x.normalize()
	}
}

func c10Exec(c *c10Case) {
	defer func() {
		if r := recover(); r != nil {
			c.Err, c.ErrOff, c.ErrEnd = fmt.Sprint("panic: ", r), -1, -1
			c.Matches = []int{}
		}
		c.P.normalize()
	}()
	c.Spelling = c.P.spell()
	c.PatLen = len(c.Spelling)
	c.Probes, c.Matches = []int{}, []int{}
	c.Facts = map[string][]int{}
	c.Orbits = [][]int{}
	c.InUniverse = true
	if c.P.K == "mal" {
		c.Malformed = true
		if c.P.Name == "bytes-toobig-class" && !c.Bytes {
			c.Malformed = false // well-formed in rune mode: not part of the malformed universe there
			c.InUniverse = true
			c.P = &c10Node{K: "class", Items: []*c10Node{{K: "ch", CP: 0x100, Form: "u4"}}}
			c.Spelling = c.P.spell()
			c.PatLen = len(c.Spelling)
		}
	}
	max := 0x10ffff
	if c.Bytes {
		max = 0xff
		if !c.Malformed {
			if c.P.K == "class" && c.P.maxClassCP() > 0xff {
				c.InUniverse = false // a class item above 0xff cannot be written in byte mode: must be rejected
			}
			if c.P.hasProp() {
				c.InUniverse = false // Unicode categories are not available in byte mode: rejected
			}
			if c.P.K == "ch" && c.P.CP > 0x7f {
				// a standalone code point above 0xff stands for its UTF-8 bytes in byte mode: a multi-byte
				// pattern, outside this single-character universe
				c.Err = "skipped"
				c.InUniverse = true
				c.Malformed = false
				c.Probes = []int{}
				c.Err = ""
				c.P = &c10Node{K: "ch", CP: 65, Form: "raw"}
				c.Spelling, c.PatLen = "A", 1
			}
		}
	}
	for _, p := range c10Probes {
		if p <= max {
			c.Probes = append(c.Probes, p)
		}
	}
	for name, tab := range map[string]*unicode.RangeTable{"Lu": unicode.Lu, "Ll": unicode.Ll, "L": unicode.L, "Nd": unicode.Nd} {
		f := []int{}
		for _, p := range c.Probes {
			if unicode.Is(tab, rune(p)) {
				f = append(f, p)
			}
		}
		c.Facts[name] = f
	}
	seen := map[int]bool{}
	for _, p := range c.Probes {
		if seen[p] {
			continue
		}
		orbit := []int{p}
		for r := unicode.SimpleFold(rune(p)); r != rune(p); r = unicode.SimpleFold(r) {
			if int(r) <= max {
				orbit = append(orbit, int(r))
			}
		}
		if len(orbit) > 1 {
			for _, o := range orbit {
				seen[o] = true
			}
			c.Orbits = append(c.Orbits, orbit)
		}
	}
	opts := lex.CharsetOptions{Fold: c.Fold, ScanBytes: c.Bytes}
	re, err := lex.ParseRegexp(c.Spelling, opts)
	if err != nil {
		c.Err = err.Error()
		if pe, ok := err.(lex.ParseError); ok {
			c.ErrOff, c.ErrEnd = pe.Offset, pe.EndOffset
		} else {
			c.ErrOff, c.ErrEnd = -1, -1
		}
		return
	}
	t, err := lex.Compile([]*lex.Rule{{Pattern: &lex.Pattern{Name: "p", RE: re, Text: c.Spelling, Origin: srcNode{"p", 0}},
		StartConditions: []int{0}, Action: 2, Origin: srcNode{"p", 0}}}, c.Bytes, true)
	if err != nil {
		c.Err = "compile: " + err.Error()
		c.ErrOff, c.ErrEnd = 0, c.PatLen
		return
	}
	for _, p := range c.Probes {
		var text string
		if c.Bytes {
			text = string([]byte{byte(p)})
		} else {
			text = string(rune(p))
		}
		size, act := t.Scan(0, text)
		if size == len(text) && act == 2 {
			c.Matches = append(c.Matches, p)
		}
	}
}

func c10Run(args []string) error {
	cases, err := readNDJSON[c10Case](args[0])
	if err != nil {
		return err
	}
	w, err := newNDWriter(args[1])
	if err != nil {
		return err
	}
	for i := range cases {
		c := &cases[i]
		c.ID = i
		c10Exec(c)
		if err := w.Write(c); err != nil {
			return err
		}
	}
	return w.Close()
}
