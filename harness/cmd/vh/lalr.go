package main

import (
	"fmt"
	"math/rand"
	"os"
	"strconv"

	"github.com/inspirer/textmapper/lalr"
	"github.com/inspirer/textmapper/status"
)

func init() {
	register("lalr-dump", lalrDump)
	register("lalr-random", lalrRandom)
}

// ---- interchange format (DESIGN.md Appendix A): the implementation's own numbering throughout.

type jsRule struct {
	LHS    int      `json:"lhs"`
	RHS    []int    `json:"rhs"`
	Prec   int      `json:"prec"`
	Action int      `json:"action"`
	Type   *int     `json:"type"` // nil = -1 (unset); always emitted
	Flags  []string `json:"flags"`
	Arrows [][]int  `json:"arrows"` // run-time layer only: nested '-> Node' parts [from, to] (1-based, inclusive, properly nested)
	RType  int      `json:"rtype"`  // filled by rt-gen: listener node type of the rule-level arrow
	AType  []int    `json:"atype"`  // filled by rt-gen: node types of the nested arrows
}

type jsInput struct {
	NT  int  `json:"nt"`
	Eoi bool `json:"eoi"`
}

type jsPrec struct {
	Assoc string `json:"assoc"`
	Terms []int  `json:"terms"`
}

type jsPred struct {
	Input int  `json:"input"`
	Neg   bool `json:"neg"`
}

type jsLookahead struct {
	NT    int      `json:"nt"`
	Preds []jsPred `json:"preds"`
}

type jsGrammar struct {
	ID         int           `json:"id"`
	Tag        string        `json:"tag,omitempty"`
	NT         int           `json:"nT"`
	NS         int           `json:"nS"`
	Rules      []jsRule      `json:"rules"`
	Inputs     []jsInput     `json:"inputs"`
	Prec       []jsPrec      `json:"prec"`
	Lookaheads []jsLookahead `json:"lookaheads"`
	Markers    []string      `json:"markers"`
	K          int           `json:"k,omitempty"` // lalr(k)
}

type jsLaCase struct {
	Input  int  `json:"input"`
	Neg    bool `json:"neg"`
	Target int  `json:"target"`
}

type jsLaRule struct {
	Cases   []jsLaCase `json:"cases"`
	Default int        `json:"default"`
}

type jsTables struct {
	Action      []int      `json:"Action"`
	Lalr        []int      `json:"Lalr"`
	Goto        []int      `json:"Goto"`
	FromTo      []int      `json:"FromTo"`
	FinalStates []int      `json:"FinalStates"`
	RuleLen     []int      `json:"RuleLen"`
	RuleSymbol  []int      `json:"RuleSymbol"`
	Markers     [][]int    `json:"Markers"`
	Lookaheads  []jsLaRule `json:"Lookaheads"`
	NumStates   int        `json:"NumStates"`
	SR          int        `json:"SR"`
	RR          int        `json:"RR"`
	UsedLADepth int        `json:"UsedLADepth"`
	Err         bool       `json:"err"`
	Msgs        []string   `json:"msgs"`
}

type jsOpt struct {
	DefGoto []int `json:"DefGoto"`
	Goto    []int `json:"Goto"`
	DefAct  []int `json:"DefAct"`
	Action  []int `json:"Action"`
	Base    int   `json:"Base"`
	Table   []int `json:"Table"`
	Check   []int `json:"Check"`
}

type jsCompile struct {
	ExpectSR int  `json:"expectSR"`
	ExpectRR int  `json:"expectRR"`
	Err      bool `json:"err"`
}

type jsLalrCase struct {
	jsGrammar
	T        *jsTables   `json:"t"`
	Compiles []jsCompile `json:"compiles"`
	Opt      *jsOpt      `json:"opt,omitempty"`   // Optimize
	OptDR    *jsOpt      `json:"optdr,omitempty"` // Optimize + DefaultReduce
	Min      *jsTables   `json:"min,omitempty"`   // MinimizeDFA
}

type srcNode struct {
	name string
	i    int
}

func (n srcNode) SourceRange() status.SourceRange {
	return status.SourceRange{Filename: n.name, Line: n.i + 1, Column: 1, Offset: n.i, EndOffset: n.i + 1}
}

func (g *jsGrammar) normalize() {
	if g.Prec == nil {
		g.Prec = []jsPrec{}
	}
	if g.Lookaheads == nil {
		g.Lookaheads = []jsLookahead{}
	}
	if g.Markers == nil {
		g.Markers = []string{}
	}
	for i := range g.Rules {
		g.Rules[i].RHS = ints(g.Rules[i].RHS)
		if g.Rules[i].Type == nil {
			m1 := -1
			g.Rules[i].Type = &m1
		}
		if g.Rules[i].Flags == nil {
			g.Rules[i].Flags = []string{}
		}
		if g.Rules[i].Arrows == nil {
			g.Rules[i].Arrows = [][]int{}
		}
		if g.Rules[i].AType == nil {
			g.Rules[i].AType = []int{}
		}
	}
	for i := range g.Prec {
		g.Prec[i].Terms = ints(g.Prec[i].Terms)
	}
}

func (g *jsGrammar) build(expSR, expRR int) *lalr.Grammar {
	ret := &lalr.Grammar{Terminals: g.NT, Origin: srcNode{"grammar", 0}, ExpectSR: expSR, ExpectRR: expRR}
	for i := 0; i < g.NS; i++ {
		switch {
		case i == 0:
			ret.Symbols = append(ret.Symbols, "eoi")
		case i < g.NT:
			ret.Symbols = append(ret.Symbols, fmt.Sprintf("t%d", i))
		default:
			ret.Symbols = append(ret.Symbols, fmt.Sprintf("N%d", i))
		}
	}
	for i, r := range g.Rules {
		lr := lalr.Rule{LHS: lalr.Sym(r.LHS), Precedence: lalr.Sym(r.Prec), Action: r.Action, Type: -1, Flags: r.Flags, Origin: srcNode{"rule", i}}
		if r.Type != nil {
			lr.Type = *r.Type
		}
		for _, s := range r.RHS {
			lr.RHS = append(lr.RHS, lalr.Sym(s))
		}
		ret.Rules = append(ret.Rules, lr)
	}
	for _, in := range g.Inputs {
		ret.Inputs = append(ret.Inputs, lalr.Input{Nonterminal: lalr.Sym(in.NT), Eoi: in.Eoi})
	}
	for _, p := range g.Prec {
		lp := lalr.Precedence{}
		switch p.Assoc {
		case "left":
			lp.Associativity = lalr.Left
		case "right":
			lp.Associativity = lalr.Right
		default:
			lp.Associativity = lalr.NonAssoc
		}
		for _, t := range p.Terms {
			lp.Terminals = append(lp.Terminals, lalr.Sym(t))
		}
		ret.Precedence = append(ret.Precedence, lp)
	}
	for i, la := range g.Lookaheads {
		l := lalr.Lookahead{Nonterminal: lalr.Sym(la.NT), Origin: srcNode{"lookahead", i}}
		for _, p := range la.Preds {
			l.Predicates = append(l.Predicates, lalr.Predicate{Input: int32(p.Input), Negated: p.Neg})
		}
		ret.Lookaheads = append(ret.Lookaheads, l)
	}
	ret.Markers = append(ret.Markers, g.Markers...)
	return ret
}

func dumpTables(t *lalr.Tables, err error) *jsTables {
	ret := &jsTables{
		Action: ints(t.Action), Lalr: ints(t.Lalr), Goto: ints(t.Goto), FromTo: ints(t.FromTo),
		FinalStates: ints(t.FinalStates), RuleLen: ints(t.RuleLen), RuleSymbol: ints(t.RuleSymbol),
		NumStates: t.NumStates, SR: t.SR, RR: t.RR, UsedLADepth: t.UsedLADepth,
		Markers: [][]int{}, Lookaheads: []jsLaRule{}, Msgs: []string{},
	}
	for _, m := range t.Markers {
		ret.Markers = append(ret.Markers, ints(m.States))
	}
	for _, la := range t.Lookaheads {
		r := jsLaRule{Cases: []jsLaCase{}, Default: int(la.DefaultTarget)}
		for _, c := range la.Cases {
			r.Cases = append(r.Cases, jsLaCase{Input: int(c.Input), Neg: c.Negated, Target: int(c.Target)})
		}
		ret.Lookaheads = append(ret.Lookaheads, r)
	}
	if err != nil {
		ret.Err = true
		for _, e := range status.FromError(err) {
			if len(ret.Msgs) < 8 {
				ret.Msgs = append(ret.Msgs, e.Msg)
			}
		}
	}
	return ret
}

func dumpOpt(o *lalr.DisplacementEnc) *jsOpt {
	if o == nil {
		return nil
	}
	return &jsOpt{DefGoto: ints(o.DefGoto), Goto: ints(o.Goto), DefAct: ints(o.DefAct), Action: ints(o.Action), Base: o.Base, Table: ints(o.Table), Check: ints(o.Check)}
}

func lalrExec(c *jsLalrCase, withOpt, withMin bool) {
	c.normalize()
	opts := lalr.Options{Lookahead: c.K}
	t, err := lalr.Compile(c.build(0, 0), opts)
	c.T = dumpTables(t, err)
	c.Compiles = []jsCompile{{0, 0, err != nil}}
	for _, d := range [][2]int{{t.SR, t.RR}, {t.SR + 1, t.RR}, {t.SR, t.RR + 1}} {
		_, err := lalr.Compile(c.build(d[0], d[1]), opts)
		c.Compiles = append(c.Compiles, jsCompile{d[0], d[1], err != nil})
	}
	if withOpt && t.UsedLADepth == 0 {
		o := opts
		o.Optimize = true
		t2, _ := lalr.Compile(c.build(t.SR, t.RR), o)
		c.Opt = dumpOpt(t2.Optimized)
		o.DefaultReduce = true
		t3, _ := lalr.Compile(c.build(t.SR, t.RR), o)
		c.OptDR = dumpOpt(t3.Optimized)
	}
	if withMin {
		o := opts
		o.MinimizeDFA = true
		t2, err := lalr.Compile(c.build(t.SR, t.RR), o)
		c.Min = dumpTables(t2, err)
	}
}

// lalr-dump <grammars.ndjson> <out.ndjson> [opt] [min]
func lalrDump(args []string) error {
	cases, err := readNDJSON[jsLalrCase](args[0])
	if err != nil {
		return err
	}
	withOpt, withMin := false, false
	for _, a := range args[2:] {
		withOpt = withOpt || a == "opt"
		withMin = withMin || a == "min"
	}
	w, err := newNDWriter(args[1])
	if err != nil {
		return err
	}
	for i := range cases {
		c := &cases[i]
		c.ID = i
		lalrExec(c, withOpt, withMin)
		if err := w.Write(c); err != nil {
			return err
		}
	}
	return w.Close()
}

// ---- seeded random grammars with biased shapes (DESIGN 3.11)

type rgen struct {
	r   *rand.Rand
	dup bool
}

func (x *rgen) grammar(id int, prec bool) jsGrammar {
	r := x.r
	nT := 1 + 2 + r.Intn(3) // eoi + 2..4
	nNT := 1 + r.Intn(4)
	nS := nT + nNT
	g := jsGrammar{ID: id, NT: nT, NS: nS}
	anySym := func() int { return 1 + r.Intn(nS-1) }
	term := func() int { return 1 + r.Intn(nT-1) }
	nonterm := func() int { return nT + r.Intn(nNT) }
	addRule := func(lhs int, rhs ...int) { g.Rules = append(g.Rules, jsRule{LHS: lhs, RHS: append([]int{}, rhs...)}) }
	// every nonterminal gets at least one rule
	for a := nT; a < nS; a++ {
		switch r.Intn(8) {
		case 0: // nullable
			addRule(a)
		case 1: // left-recursive list
			addRule(a, a, term())
			addRule(a, term())
		case 2: // right-recursive
			addRule(a, term(), a)
			addRule(a)
		case 3: // list with separator
			e := anySym()
			addRule(a, a, term(), e)
			addRule(a, e)
		case 5: // list whose first element may also be another nonterminal in the same role
			e := anySym()
			t := term()
			addRule(a, a, t, e)
			addRule(a, nonterm(), t, e)
			addRule(a, e)
		case 4: // binary expression (ambiguous unless precedence)
			addRule(a, a, term(), a)
			addRule(a, term())
		default:
			ln := r.Intn(4)
			rhs := []int{}
			for k := 0; k < ln; k++ {
				rhs = append(rhs, anySym())
			}
			addRule(a, rhs...)
		}
	}
	extra := r.Intn(5)
	for i := 0; i < extra; i++ {
		ln := r.Intn(4)
		rhs := []int{}
		for k := 0; k < ln; k++ {
			if r.Intn(3) == 0 {
				rhs = append(rhs, nonterm())
			} else {
				rhs = append(rhs, anySym())
			}
		}
		addRule(nonterm(), rhs...)
	}
	r.Shuffle(len(g.Rules), func(i, j int) { g.Rules[i], g.Rules[j] = g.Rules[j], g.Rules[i] })
	// drop duplicate rules (the front end never produces them)
	seen := map[string]bool{}
	rules := g.Rules[:0]
	for _, rl := range g.Rules {
		k := fmt.Sprint(rl.LHS, rl.RHS)
		if !seen[k] {
			seen[k] = true
			rules = append(rules, rl)
		}
	}
	g.Rules = rules
	if x.dup && nNT >= 1 {
		// duplicate one nonterminal's rules under a fresh nonterminal and use the copy somewhere:
		// gives the minimizer equivalent states to merge
		src := nonterm()
		cp := nS
		nS++
		nNT++
		g.NS = nS
		var extra []jsRule
		for _, rl := range g.Rules {
			if rl.LHS == src {
				rhs := append([]int{}, rl.RHS...)
				for k := range rhs {
					if rhs[k] == src && r.Intn(2) == 0 {
						rhs[k] = cp
					}
				}
				extra = append(extra, jsRule{LHS: cp, RHS: rhs})
			}
		}
		g.Rules = append(g.Rules, extra...)
		host := nT + r.Intn(nNT)
		g.Rules = append(g.Rules, jsRule{LHS: host, RHS: []int{term(), cp}})
		if r.Intn(2) == 0 {
			g.Rules = append(g.Rules, jsRule{LHS: host, RHS: []int{term(), src}})
		}
		for i := range g.Rules {
			switch r.Intn(6) {
			case 0:
				g.Rules[i].Action = 1 + r.Intn(2)
			case 1:
				ty := r.Intn(2)
				g.Rules[i].Type = &ty
			case 2:
				g.Rules[i].Flags = []string{"f"}
			}
		}
	}
	if r.Intn(4) == 0 { // state markers: transparent symbols that occupy no stack slot
		g.Markers = []string{"m0", "m1"}
		for i := range g.Rules {
			if r.Intn(3) == 0 {
				pos := r.Intn(len(g.Rules[i].RHS) + 1)
				rhs := append([]int{}, g.Rules[i].RHS[:pos]...)
				rhs = append(rhs, -1-r.Intn(2))
				g.Rules[i].RHS = append(rhs, g.Rules[i].RHS[pos:]...)
			}
		}
	}
	if x.dup && r.Intn(4) == 0 {
		// sibling rules whose lengths coincide only when state markers are counted: A: t1 .m | t2 t1  (and longer variants)
		if len(g.Markers) == 0 {
			g.Markers = []string{"m0", "m1"}
		}
		a := nT + r.Intn(nNT)
		t1, t2 := 1+r.Intn(nT-1), 1+r.Intn(nT-1)
		k := r.Intn(2)
		short := []int{t1}
		long := []int{t2, t1}
		for i := 0; i < k; i++ {
			short = append(short, t1)
			long = append(long, t1)
		}
		pos := r.Intn(len(short) + 1)
		withMarker := append(append(append([]int{}, short[:pos]...), -1-r.Intn(2)), short[pos:]...)
		g.Rules = append(g.Rules, jsRule{LHS: a, RHS: withMarker}, jsRule{LHS: a, RHS: long})
	}
	g.Inputs = []jsInput{{nT, r.Intn(4) != 0}}
	if nNT > 1 && r.Intn(3) == 0 {
		g.Inputs = append(g.Inputs, jsInput{nT + 1 + r.Intn(nNT-1), r.Intn(2) == 0})
	}
	if x.dup && r.Intn(3) == 0 { // several inputs, possibly the same nonterminal twice (C06 only)
		// like a synthetic lookahead input: possibly a nonterminal that is already an input, then no-eoi
		in := jsInput{nT + r.Intn(nNT), r.Intn(2) == 0}
		for _, old := range g.Inputs {
			if old.NT == in.NT {
				in.Eoi = false
				if !old.Eoi {
					in.NT = -1
				}
			}
		}
		if in.NT >= 0 {
			g.Inputs = append(g.Inputs, in)
		}
	}
	if prec {
		perm := r.Perm(nT - 1)
		ng := 1 + r.Intn(3)
		assoc := []string{"left", "right", "nonassoc"}
		pos := 0
		for k := 0; k < ng && pos < len(perm); k++ {
			p := jsPrec{Assoc: assoc[r.Intn(3)]}
			cnt := 1 + r.Intn(2)
			for j := 0; j < cnt && pos < len(perm); j++ {
				p.Terms = append(p.Terms, 1+perm[pos])
				pos++
			}
			g.Prec = append(g.Prec, p)
		}
		for i := range g.Rules {
			if r.Intn(5) == 0 {
				g.Rules[i].Prec = term()
			}
		}
	}
	return g
}

// lalr-random <n> <out.ndjson> [prec]: grammars only (to be fed to lalr-dump)
func lalrRandom(args []string) error {
	n, _ := strconv.Atoi(args[0])
	seed, _ := strconv.ParseInt(os.Getenv("VERIF_SEED"), 10, 64)
	x := &rgen{r: rand.New(rand.NewSource(seed*1000003 + 3))}
	prec := len(args) > 2 && args[2] == "prec"
	x.dup = len(args) > 2 && args[2] == "dup"
	w, err := newNDWriter(args[1])
	if err != nil {
		return err
	}
	for id := 0; id < n; id++ {
		g := x.grammar(id, prec)
		g.normalize()
		if err := w.Write(g); err != nil {
			return err
		}
	}
	return w.Close()
}
