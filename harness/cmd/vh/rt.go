package main

// Run-time layer: test grammars are rendered to .tm text, compiled and generated in-process by the
// real compiler/gen packages into a scratch Go module, built, and executed on every token string up
// to a length bound. The generated parsers are observed through the extension blocks the shipped
// templates provide (onAfterParser / onAfterShift) - no template text is replaced.

import (
	"context"
	"encoding/json"
	"fmt"
	"os"
	"os/exec"
	"path/filepath"
	"sort"
	"strings"
	"sync"

	"github.com/inspirer/textmapper/compiler"
	"github.com/inspirer/textmapper/gen"
)

func init() {
	register("rt-gen", rtGen)
}

type rtCfg struct {
	Optimize      bool `json:"optimize"`
	DefaultReduce bool `json:"defaultReduce"`
	Minimize      bool `json:"minimize"`
	Events        bool `json:"events"`      // every rule reports a node R<rule>
	Cancellable   bool `json:"cancellable"` // C29
	FixWS         bool `json:"fixWhitespace"`
}

type rtSpec struct {
	jsGrammar
	Cfg  rtCfg  `json:"cfg"`
	L    int    `json:"L"`
	TM   string `json:"tm,omitempty"`   // explicit .tm text (overrides rendering)
	Alph []int  `json:"alph,omitempty"` // terminals used in inputs (default: all real terminals)
	ErrTerm int `json:"errTerm"`        // terminal standing for the 'error' token (0: none)
	Texts    []string `json:"texts,omitempty"`    // C29: explicit (long) inputs
	CancelAt []int    `json:"cancelAt,omitempty"` // C29: cancel the context when the k-th listener event is reported

	// filled by rt-gen
	Pkg      string   `json:"pkg"`
	GenErr   string   `json:"genErr"`
	GenMsgs  []string `json:"genMsgs"`
	NInputs  int      `json:"nInputs"`
	Text     string   `json:"text,omitempty"`
	Conflict bool     `json:"conflict"`
}

func termName(t int) string { return "t" + string(rune('a'+t-1)) }
func termChar(t int) string { return string(rune('a' + t - 1)) }
func ntName(n int) string   { return fmt.Sprintf("N%d", n) }

const rtAdapter = `
%%
{{define "onAfterShift"}}
	verifShifts = append(verifShifts, int(p.next.symbol), int(state))
{{end}}
{{define "onAfterParser"}}
var verifShifts []int

// One Parser is reused for every call (Init only once): parses must not leak state into each other.
var (
	verifP      Parser
	verifInited bool
	verifEvents []int
	verifErrors []int
	verifCancel func()
	verifCancelAt int
	verifAtCancel int
)

// VerifParse runs one parse from the given input (entry state = input index) and reports what happened.
func VerifParse(entry int, text string{{if .Options.Cancellable}}, cancelAtEvent int{{end}}) (ok bool, errOff, errEnd int, events, shifts, errors []int, panicMsg string) {
	defer func() {
		if r := recover(); r != nil {
			panicMsg = "fmt".Sprint(r)
			shifts = verifShifts
			events, errors = verifEvents, verifErrors
			verifInited = false
		}
	}()
	var l Lexer
	l.Init(text)
	p := &verifP
	verifShifts = verifShifts[:0]
	verifEvents, verifErrors = []int{}, []int{}
{{- if .Options.Cancellable}}
	ctx, cancel := "context".WithCancel("context".Background())
	defer cancel()
	verifCancel, verifCancelAt, verifAtCancel = cancel, cancelAtEvent, -1
	if cancelAtEvent == 0 {
		verifAtCancel = 0
		cancel()
	}
{{- end}}
	if !verifInited {
		verifInited = true
		p.Init({{if .Parser.IsRecovering}}func(se SyntaxError) bool {
			verifErrors = append(verifErrors, se.Offset, se.Endoffset)
			return true
		}{{end}}{{if .Parser.Types}}{{if .Parser.IsRecovering}}, {{end}}func(t NodeType, off, end int) {
			verifEvents = append(verifEvents, int(t), off, end)
			if verifCancel != nil && len(verifEvents)/3 == verifCancelAt {
				verifAtCancel = len(verifShifts) / 2
				verifCancel()
			}
		}{{end}})
	}
	var err error
	switch entry {
{{- range $index, $inp := .Parser.Inputs}}{{if not $inp.Synthetic}}
	case {{$index}}:
		{{if $.Parser.HasInputAssocValues}}_, {{end}}err = p.parse({{if $.Options.Cancellable}}ctx, {{end}}{{$index}}, {{index $.Parser.Tables.FinalStates $index}}, &l)
{{- end}}{{end}}
	default:
		panicMsg = "no such input"
	}
	shifts = append([]int{}, verifShifts...)
{{- if .Options.Cancellable}}
	if cancelAtEvent >= 0 {
		shifts = append(shifts, verifAtCancel) // odd length: the last element is the number of shifts made when cancel() was called
	}
{{- end}}
	events, errors = verifEvents, verifErrors
	if err == nil {
		return true, -1, -1, events, shifts, errors, ""
	}
	if se, isSyntax := err.(SyntaxError); isSyntax {
		return false, se.Offset, se.Endoffset, events, shifts, errors, ""
	}
	return false, -2, -2, events, shifts, errors, "error: " + err.Error()
}
{{end}}
`

// renderTM renders a plain context-free grammar (lalr numbering) as .tm text.
func (s *rtSpec) renderTM() string {
	var b strings.Builder
	fmt.Fprintf(&b, "language %s(go);\n\n", s.Pkg)
	fmt.Fprintf(&b, "package = \"rt/%s\"\n", s.Pkg)
	b.WriteString("eventBased = true\n")
	if s.Cfg.Optimize {
		b.WriteString("optimizeTables = true\n")
	}
	if s.Cfg.DefaultReduce {
		b.WriteString("defaultReduce = true\n")
	}
	if s.Cfg.Minimize {
		b.WriteString("minimizeDFA = true\n")
	}
	if s.Cfg.Cancellable {
		b.WriteString("cancellable = true\n")
	}
	if s.Cfg.FixWS {
		b.WriteString("fixWhitespace = true\n")
	}
	b.WriteString("\n:: lexer\n\nWS: /[ \\n]+/ (space)\n")
	for t := 1; t < s.NT; t++ {
		if t == s.ErrTerm {
			b.WriteString("error:\n")
			continue
		}
		fmt.Fprintf(&b, "%s: /%s/\n", termName(t), termChar(t))
	}
	if s.K > 1 {
		fmt.Fprintf(&b, "\n:: parser lalr(%d)\n\n", s.K)
	} else {
		b.WriteString("\n:: parser\n\n")
	}
	var inputs []string
	for _, in := range s.Inputs {
		x := ntName(in.NT)
		if !in.Eoi {
			x += " no-eoi"
		}
		inputs = append(inputs, x)
	}
	fmt.Fprintf(&b, "%%input %s;\n\n", strings.Join(inputs, ", "))
	for _, p := range s.Prec {
		var ts []string
		for _, t := range p.Terms {
			ts = append(ts, termName(t))
		}
		fmt.Fprintf(&b, "%%%s %s;\n", p.Assoc, strings.Join(ts, " "))
	}
	// expectations are never declared: grammars with conflicts are recorded as such and skipped by the checks
	var order []int
	byLHS := map[int][]int{}
	for i, r := range s.Rules {
		if _, ok := byLHS[r.LHS]; !ok {
			order = append(order, r.LHS)
		}
		byLHS[r.LHS] = append(byLHS[r.LHS], i)
	}
	for _, lhs := range order {
		fmt.Fprintf(&b, "%s :\n", ntName(lhs))
		for k, ri := range byLHS[lhs] {
			r := s.Rules[ri]
			sep := "    "
			if k > 0 {
				sep = "  | "
			}
			var parts []string
			symText := func(sym int) string {
				switch {
				case sym == s.ErrTerm && sym > 0:
					return "error"
				case sym < 0:
					return "." + s.Markers[-1-sym]
				case sym < s.NT:
					return termName(sym)
				}
				return ntName(sym)
			}
			if s.Cfg.Events && len(r.Arrows) > 0 {
				// nested arrows: [from, to] 1-based inclusive over RHS positions, properly nested
				// distinct, properly nested ranges; at each position open the widest arrow that starts
				// here, fits and is not the one being rendered
				var rend func(from, to int, skip int) string
				rend = func(from, to int, skip int) string {
					var out []string
					for pos := from; pos <= to; {
						best := -1
						for k, a := range r.Arrows {
							if k == skip || a[0] != pos || a[1] > to {
								continue
							}
							if skip >= 0 && a[0] == r.Arrows[skip][0] && a[1] >= r.Arrows[skip][1] {
								continue
							}
							if best == -1 || a[1] > r.Arrows[best][1] {
								best = k
							}
						}
						if best >= 0 {
							a := r.Arrows[best]
							out = append(out, fmt.Sprintf("(%s -> Q%03d_%d)", rend(a[0], a[1], best), ri, best))
							pos = a[1] + 1
							continue
						}
						out = append(out, symText(r.RHS[pos-1]))
						pos++
					}
					return strings.Join(out, " ")
				}
				if len(r.RHS) > 0 {
					parts = append(parts, rend(1, len(r.RHS), -1))
				}
			} else {
				for _, sym := range r.RHS {
					parts = append(parts, symText(sym))
				}
			}
			if len(parts) == 0 || allMarkers(r.RHS) {
				parts = append([]string{"%empty"}, parts...)
			}
			if r.Prec > 0 {
				parts = append(parts, "%prec "+termName(r.Prec))
			}
			if s.Cfg.Events {
				parts = append(parts, fmt.Sprintf("-> R%03d", ri))
			}
			fmt.Fprintf(&b, "%s%s\n", sep, strings.Join(parts, " "))
		}
		b.WriteString(";\n\n")
	}
	return b.String()
}

// assignTypes computes the listener NodeType numbers: 0 is NoType, then all node names in sorted order.
func assignTypes(s *rtSpec) {
	if !s.Cfg.Events {
		return
	}
	var names []string
	for ri, r := range s.Rules {
		names = append(names, fmt.Sprintf("R%03d", ri))
		for k := range r.Arrows {
			names = append(names, fmt.Sprintf("Q%03d_%d", ri, k))
		}
	}
	sort.Strings(names)
	id := map[string]int{}
	for i, n := range names {
		id[n] = i + 1
	}
	for ri := range s.Rules {
		s.Rules[ri].RType = id[fmt.Sprintf("R%03d", ri)]
		s.Rules[ri].AType = []int{}
		for k := range s.Rules[ri].Arrows {
			s.Rules[ri].AType = append(s.Rules[ri].AType, id[fmt.Sprintf("Q%03d_%d", ri, k)])
		}
	}
}

func cancelTable(specs []rtSpec) string {
	var t []string
	for i := range specs {
		if specs[i].GenErr == "" && specs[i].Cfg.Cancellable {
			t = append(t, fmt.Sprintf("\t%q: %s.VerifParse,", specs[i].Pkg, specs[i].Pkg))
		}
	}
	return strings.Join(t, "\n")
}

func allMarkers(rhs []int) bool {
	for _, s := range rhs {
		if s >= 0 {
			return false
		}
	}
	return len(rhs) > 0
}

type dirWriter struct {
	dir string
}

func (w dirWriter) Write(filename, content string) error {
	p := filepath.Join(w.dir, filename)
	if err := os.MkdirAll(filepath.Dir(p), 0o755); err != nil {
		return err
	}
	return os.WriteFile(p, []byte(content), 0o644)
}

// genOne compiles and generates one spec into <mod>/<pkg>/.
func genOne(mod string, s *rtSpec) {
	s.GenMsgs = []string{}
	text := s.TM
	if text == "" {
		text = s.renderTM()
	}
	if !strings.Contains(text, "\n%%\n") {
		text += rtAdapter
	}
	s.Text = text
	defer func() {
		if r := recover(); r != nil {
			s.GenErr = fmt.Sprint("panic: ", r)
		}
	}()
	g, err := compiler.Compile(context.Background(), s.Pkg+".tm", text, compiler.Params{})
	if err != nil {
		s.GenErr = "compile: " + err.Error()
		if len(s.GenErr) > 600 {
			s.GenErr = s.GenErr[:600]
		}
		s.Conflict = strings.Contains(err.Error(), "conflict")
		return
	}
	if g.Parser != nil {
		for _, in := range g.Parser.Inputs {
			if !in.Synthetic {
				s.NInputs++
			}
		}
	}
	if err := gen.Generate(g, dirWriter{filepath.Join(mod, s.Pkg)}, gen.Options{}); err != nil {
		s.GenErr = "generate: " + err.Error()
	}
}

const rtMainTmpl = `package main

import (
	"bufio"
	"encoding/json"
	"fmt"
	"os"
	"time"
%s
)

type job struct {
	Pkg     string ` + "`json:\"pkg\"`" + `
	NInputs int    ` + "`json:\"nInputs\"`" + `
	L       int    ` + "`json:\"L\"`" + `
	Alph    []int  ` + "`json:\"alph\"`" + `
	Events  bool   ` + "`json:\"events\"`" + `
	Texts   []string ` + "`json:\"texts\"`" + `
	CancelAt []int   ` + "`json:\"cancelAt\"`" + `
}

type result struct {
	Pkg  string      ` + "`json:\"pkg\"`" + `
	Runs [][][]int   ` + "`json:\"runs\"`" + `   // per entry, per string (length-lexicographic rank): [accepted, errOff, errEnd]
	Ev   [][][]int   ` + "`json:\"ev,omitempty\"`" + `
	Sh   [][][]int   ` + "`json:\"sh,omitempty\"`" + `
	Er   [][][]int   ` + "`json:\"er,omitempty\"`" + `
	Bad  []string    ` + "`json:\"bad\"`" + `    // panics, hangs, non-syntax errors
	Cancel [][][]int ` + "`json:\"cancel,omitempty\"`" + ` // per text, per cancel point: [kind (1 ok, 0 syntax error, 2 context error, 3 other), events, shifts, shiftsAtCancel]
}

type parseFn func(entry int, text string) (bool, int, int, []int, []int, []int, string)
type cancelFn func(entry int, text string, cancelAt int) (bool, int, int, []int, []int, []int, string)

var cancelParsers = map[string]cancelFn{
%s
}

var parsers = map[string]parseFn{
%s
}

func call(f parseFn, entry int, text string) (ok bool, off, end int, ev, sh, er []int, bad string) {
	type out struct {
		ok         bool
		off, end   int
		ev, sh, er []int
		bad        string
	}
	ch := make(chan out, 1)
	go func() {
		ok, off, end, ev, sh, er, pm := f(entry, text)
		ch <- out{ok, off, end, ev, sh, er, pm}
	}()
	select {
	case o := <-ch:
		return o.ok, o.off, o.end, o.ev, o.sh, o.er, o.bad
	case <-time.After(3 * time.Second):
		return false, -3, -3, []int{}, []int{}, []int{}, "hang"
	}
}

func render(w []int) string {
	b := make([]byte, 0, 2*len(w))
	for _, t := range w {
		b = append(b, byte('a'+t-1), ' ')
	}
	return string(b)
}

func main() {
	in := bufio.NewReaderSize(os.Stdin, 1<<20)
	dec := json.NewDecoder(in)
	out := bufio.NewWriterSize(os.Stdout, 1<<20)
	enc := json.NewEncoder(out)
	for dec.More() {
		var j job
		if err := dec.Decode(&j); err != nil {
			fmt.Fprintln(os.Stderr, err)
			os.Exit(3)
		}
		f := parsers[j.Pkg]
		res := result{Pkg: j.Pkg, Bad: []string{}}
		if cf, ok := cancelParsers[j.Pkg]; ok && len(j.Texts) > 0 {
			for _, text := range j.Texts {
				var row [][]int
				for _, k := range append([]int{-1}, j.CancelAt...) {
					okp, off, _, ev, sh, _, pm := cf(0, text, k)
					kind := 0
					switch {
					case okp:
						kind = 1
					case pm == "error: context canceled":
						kind = 2
					case pm != "" || off < 0:
						kind = 3
						res.Bad = append(res.Bad, pm)
					}
					// shifts at the moment of cancellation = number of shift records made before the k-th event;
					// events and shifts are interleaved in time: the adapter stores it in the last element
					at := -1
					if len(sh)%%2 == 1 {
						at = sh[len(sh)-1]
						sh = sh[:len(sh)-1]
					}
					row = append(row, []int{kind, len(ev) / 3, len(sh) / 2, at})
				}
				res.Cancel = append(res.Cancel, row)
			}
			res.Runs = [][][]int{}
			enc.Encode(res)
			out.Flush()
			continue
		}
		hangs := 0
		for e := 0; e < j.NInputs; e++ {
			var runs, evs, shs, ers [][]int
			// all strings over the alphabet in length-lexicographic order
			var cur []int
			var rec func(depth int)
			level := [][]int{{}}
			for depth := 0; depth <= j.L; depth++ {
				var next [][]int
				for _, w := range level {
					if hangs > 2 {
						runs = append(runs, []int{0, -3, -3})
						if j.Events {
							evs, shs, ers = append(evs, []int{}), append(shs, []int{}), append(ers, []int{})
						}
						continue
					}
					ok, off, end, ev, sh, er, bad := call(f, e, render(w))
					if bad != "" {
						if bad == "hang" {
							hangs++
						}
						if len(res.Bad) < 20 {
							res.Bad = append(res.Bad, fmt.Sprintf("input %%d text %%q: %%s", e, render(w), bad))
						}
					}
					a := 0
					if ok {
						a = 1
					}
					runs = append(runs, []int{a, off, end})
					if j.Events {
						evs = append(evs, ev)
						shs = append(shs, sh)
						ers = append(ers, er)
					}
					if depth < j.L {
						for _, t := range j.Alph {
							nw := append(append([]int{}, w...), t)
							next = append(next, nw)
						}
					}
				}
				level = next
			}
			_ = cur
			_ = rec
			res.Runs = append(res.Runs, runs)
			if j.Events {
				res.Ev = append(res.Ev, evs)
				res.Sh = append(res.Sh, shs)
				res.Er = append(res.Er, ers)
			}
		}
		enc.Encode(res)
		out.Flush()
	}
}
`

// rt-gen <specs.ndjson> <moduledir> <out.ndjson>: generate, build and run; out has one line per spec with
// the spec (incl. rendered text and generation verdict) and the recorded behaviour tree.
func rtGen(args []string) error {
	specs, err := readNDJSON[rtSpec](args[0])
	if err != nil {
		return err
	}
	mod := args[1]
	if err := os.MkdirAll(mod, 0o755); err != nil {
		return err
	}
	for i := range specs {
		specs[i].normalize()
		specs[i].Pkg = fmt.Sprintf("g%d", i)
		if len(specs[i].Alph) == 0 {
			for t := 1; t < specs[i].NT; t++ {
				if t != specs[i].ErrTerm {
					specs[i].Alph = append(specs[i].Alph, t)
				}
			}
		}
	}
	// generation is sequential: the generator keeps package-level state
	for i := range specs {
		assignTypes(&specs[i])
		genOne(mod, &specs[i])
	}
	var imports, table []string
	for i := range specs {
		s := &specs[i]
		if s.GenErr != "" {
			continue
		}
		imports = append(imports, fmt.Sprintf("\t%s \"rt/%s\"", s.Pkg, s.Pkg))
		if s.Cfg.Cancellable {
			table = append(table, fmt.Sprintf("\t%q: func(e int, t string) (bool, int, int, []int, []int, []int, string) { return %s.VerifParse(e, t, -1) },", s.Pkg, s.Pkg))
		} else {
			table = append(table, fmt.Sprintf("\t%q: %s.VerifParse,", s.Pkg, s.Pkg))
		}
	}
	sort.Strings(imports)
	if err := os.WriteFile(filepath.Join(mod, "go.mod"), []byte("module rt\n\ngo 1.25\n"), 0o644); err != nil {
		return err
	}
	mainSrc := fmt.Sprintf(rtMainTmpl, strings.Join(imports, "\n"), cancelTable(specs), strings.Join(table, "\n"))
	if err := os.WriteFile(filepath.Join(mod, "main.go"), []byte(mainSrc), 0o644); err != nil {
		return err
	}
	// build each package separately first so that one broken package does not hide the others
	var mu sync.Mutex
	var wg sync.WaitGroup
	sem := make(chan struct{}, 16)
	for i := range specs {
		s := &specs[i]
		if s.GenErr != "" {
			continue
		}
		wg.Add(1)
		go func() {
			defer wg.Done()
			sem <- struct{}{}
			defer func() { <-sem }()
			cmd := exec.Command("go1.26", "build", "./"+s.Pkg+"/...")
			cmd.Dir = mod
			cmd.Env = append(os.Environ(), "GOFLAGS=-mod=mod", "GOPROXY=off", "GOSUMDB=off", "GOTOOLCHAIN=local")
			if out, err := cmd.CombinedOutput(); err != nil {
				mu.Lock()
				s.GenErr = "build: " + string(out)
				if len(s.GenErr) > 1500 {
					s.GenErr = s.GenErr[:1500]
				}
				mu.Unlock()
			}
		}()
	}
	wg.Wait()
	// regenerate main.go without the packages that do not build
	imports, table = nil, nil
	for i := range specs {
		s := &specs[i]
		if s.GenErr != "" {
			continue
		}
		imports = append(imports, fmt.Sprintf("\t%s \"rt/%s\"", s.Pkg, s.Pkg))
		if s.Cfg.Cancellable {
			table = append(table, fmt.Sprintf("\t%q: func(e int, t string) (bool, int, int, []int, []int, []int, string) { return %s.VerifParse(e, t, -1) },", s.Pkg, s.Pkg))
		} else {
			table = append(table, fmt.Sprintf("\t%q: %s.VerifParse,", s.Pkg, s.Pkg))
		}
	}
	mainSrc = fmt.Sprintf(rtMainTmpl, strings.Join(imports, "\n"), cancelTable(specs), strings.Join(table, "\n"))
	if err := os.WriteFile(filepath.Join(mod, "main.go"), []byte(mainSrc), 0o644); err != nil {
		return err
	}
	cmd := exec.Command("go1.26", "build", "-o", "rtbin", ".")
	cmd.Dir = mod
	cmd.Env = append(os.Environ(), "GOFLAGS=-mod=mod", "GOPROXY=off", "GOSUMDB=off", "GOTOOLCHAIN=local")
	if out, err := cmd.CombinedOutput(); err != nil {
		return fmt.Errorf("building the run-time driver failed: %v\n%s", err, out)
	}
	// run
	var jobs strings.Builder
	for i := range specs {
		s := &specs[i]
		if s.GenErr != "" {
			continue
		}
		j, _ := json.Marshal(map[string]any{"pkg": s.Pkg, "nInputs": s.NInputs, "L": s.L, "alph": s.Alph, "events": s.Cfg.Events, "texts": s.Texts, "cancelAt": s.CancelAt})
		jobs.Write(j)
		jobs.WriteByte('\n')
	}
	run := exec.Command(filepath.Join(mod, "rtbin"))
	run.Stdin = strings.NewReader(jobs.String())
	run.Stderr = os.Stderr
	outBytes, err := run.Output()
	if err != nil {
		return fmt.Errorf("run-time driver died: %v", err)
	}
	results := map[string]json.RawMessage{}
	for _, line := range strings.Split(strings.TrimSpace(string(outBytes)), "\n") {
		if line == "" {
			continue
		}
		var r struct {
			Pkg string `json:"pkg"`
		}
		if err := json.Unmarshal([]byte(line), &r); err != nil {
			return err
		}
		results[r.Pkg] = json.RawMessage(line)
	}
	w, err := newNDWriter(args[2])
	if err != nil {
		return err
	}
	for i := range specs {
		s := &specs[i]
		rec := map[string]any{"spec": s}
		if r, ok := results[s.Pkg]; ok {
			rec["res"] = r
		}
		// flatten for TLC: grammar fields at top level
		b, _ := json.Marshal(s)
		var flat map[string]any
		json.Unmarshal(b, &flat)
		if r, ok := results[s.Pkg]; ok {
			var rr map[string]any
			json.Unmarshal(r, &rr)
			for k, v := range rr {
				flat[k] = v
			}
			flat["ran"] = true
		} else {
			flat["ran"] = false
			flat["runs"] = []any{}
			flat["bad"] = []any{}
		}
		delete(flat, "text")
		flat["tmtext"] = s.Text
		if err := w.Write(flat); err != nil {
			return err
		}
	}
	return w.Close()
}
