package main

import (
	"context"
	"fmt"
	"os"
	"os/exec"
	"path/filepath"
	"sort"
	"strings"
	"sync"

	"github.com/inspirer/textmapper/compiler"
	"github.com/inspirer/textmapper/gen"
)

func init() { register("c17-gen", c17Gen) }

type c17Case struct {
	ID      int             `json:"id"`
	Base    string          `json:"base"`
	Opts    map[string]bool `json:"opts"`
	K       int             `json:"k"`
	Text    string          `json:"tmtext"`
	Pkg     string          `json:"pkg"`
	Outcome string          `json:"outcome"` // rejected | generated | crash
	Detail  string          `json:"detail"`
	Files   []string        `json:"files"`
	Built   bool            `json:"built"`
	BuildMsg string         `json:"buildMsg"`
}

func c17Text(c *c17Case, bases map[string]string) string {
	body := bases[c.Base]
	var sb strings.Builder
	fmt.Fprintf(&sb, "language %s(go);\n\npackage = \"c17/%s\"\n", c.Pkg, c.Pkg)
	var keys []string
	for k := range c.Opts {
		keys = append(keys, k)
	}
	sort.Strings(keys)
	for _, k := range keys {
		fmt.Fprintf(&sb, "%s = %v\n", k, c.Opts[k])
	}
	if c.K > 1 {
		body = strings.Replace(body, ":: parser\n", fmt.Sprintf(":: parser lalr(%d)\n", c.K), 1)
	}
	sb.WriteString(body)
	return sb.String()
}

// c17-gen <cases.ndjson> <basesdir> <moddir> <out.ndjson>
func c17Gen(args []string) error {
	cases, err := readNDJSON[c17Case](args[0])
	if err != nil {
		return err
	}
	bases := map[string]string{}
	m, _ := filepath.Glob(filepath.Join(args[1], "*.tmbody"))
	for _, f := range m {
		b, _ := os.ReadFile(f)
		bases[strings.TrimSuffix(filepath.Base(f), ".tmbody")] = string(b)
	}
	mod := args[2]
	os.MkdirAll(mod, 0o755)
	os.WriteFile(filepath.Join(mod, "go.mod"), []byte("module c17\n\ngo 1.25\n"), 0o644)
	for i := range cases {
		c := &cases[i]
		c.ID = i
		c.Pkg = fmt.Sprintf("p%d", i)
		c.Files = []string{}
		c.Text = c17Text(c, bases)
		func() {
			defer func() {
				if r := recover(); r != nil {
					c.Outcome, c.Detail = "crash", fmt.Sprint("panic: ", r)
				}
			}()
			g, err := compiler.Compile(context.Background(), c.Pkg+".tm", c.Text, compiler.Params{})
			if err != nil {
				c.Outcome, c.Detail = "rejected", truncate(err.Error(), 300)
				return
			}
			w := &mapWriter{files: map[string]string{}}
			if err := gen.Generate(g, w, gen.Options{}); err != nil {
				c.Outcome, c.Detail = "crash", "generate: "+truncate(err.Error(), 300)
				return
			}
			c.Outcome = "generated"
			for n, content := range w.files {
				c.Files = append(c.Files, n)
				if err := (dirWriter{filepath.Join(mod, c.Pkg)}).Write(n, content); err != nil {
					c.Outcome, c.Detail = "crash", err.Error()
				}
			}
			sort.Strings(c.Files)
		}()
	}
	var wg sync.WaitGroup
	sem := make(chan struct{}, 16)
	for i := range cases {
		c := &cases[i]
		if c.Outcome != "generated" {
			continue
		}
		wg.Add(1)
		go func() {
			defer wg.Done()
			sem <- struct{}{}
			defer func() { <-sem }()
			cmd := exec.Command("go1.26", "build", "./"+c.Pkg+"/...")
			cmd.Dir = mod
			cmd.Env = append(os.Environ(), "GOFLAGS=-mod=mod", "GOPROXY=off", "GOSUMDB=off", "GOTOOLCHAIN=local")
			out, err := cmd.CombinedOutput()
			c.Built = err == nil
			if err != nil {
				c.BuildMsg = truncate(string(out), 600)
			}
		}()
	}
	wg.Wait()
	w, err := newNDWriter(args[3])
	if err != nil {
		return err
	}
	for i := range cases {
		if cases[i].Outcome != "crash" && cases[i].Built {
			cases[i].Text = ""
		}
		if err := w.Write(cases[i]); err != nil {
			return err
		}
	}
	return w.Close()
}
