package main

import (
	"math/rand"
	"os"
	"path/filepath"
	"strconv"
	"strings"

	"github.com/inspirer/textmapper/parsers/js"
	jstok "github.com/inspirer/textmapper/parsers/js/token"
	"github.com/inspirer/textmapper/parsers/json"
	jsontok "github.com/inspirer/textmapper/parsers/json/token"
	"github.com/inspirer/textmapper/parsers/simple"
	simpletok "github.com/inspirer/textmapper/parsers/simple/token"
	"github.com/inspirer/textmapper/parsers/test"
	testtok "github.com/inspirer/textmapper/parsers/test/token"
	"github.com/inspirer/textmapper/parsers/tm"
	tmtok "github.com/inspirer/textmapper/parsers/tm/token"
)

func init() { register("c12-run", c12Run) }

type c12Tok struct {
	Tok   int `json:"tok"`
	Start int `json:"s"`
	End   int `json:"e"`
	Line  int `json:"line"` // 0: this lexer does not report lines
	Col   int `json:"col"`  // 0: this lexer does not report columns
}

type c12Case struct {
	ID     int      `json:"id"`
	Lexer  string   `json:"lexer"`
	Origin string   `json:"origin"`
	Len    int      `json:"len"`
	Eoi    int      `json:"eoi"`
	Hang   bool     `json:"hang"`
	Crash  string   `json:"crash"`
	Toks   []c12Tok `json:"toks"`  // up to and including the first EOI
	Extra  []c12Tok `json:"extra"` // two more calls after EOI
	// facts about the text, computed by the harness
	NlBefore  []int  `json:"nlBefore"`  // per token: number of '\n' before its first byte
	LineStart []int  `json:"lineStart"` // per token: offset of the first byte of its line
	GapClean  []bool `json:"gapClean"`  // per token: the text between the previous token (or the start, after a BOM) and this one lexes, on its own, to end-of-input only
	TextB64   string `json:"text"`
}

type lexIface struct {
	init func(string)
	next func() (tok, s, e, line, col int)
	eoi  int
}

func mkLexer(name string) lexIface {
	switch name {
	case "js":
		var l js.Lexer
		return lexIface{func(s string) { l.Init(s) }, func() (int, int, int, int, int) {
			t := l.Next()
			s, e := l.Pos()
			return int(t), s, e, l.Line(), 0
		}, int(jstok.EOI)}
	case "tm":
		var l tm.Lexer
		return lexIface{func(s string) { l.Init(s) }, func() (int, int, int, int, int) {
			t := l.Next()
			s, e := l.Pos()
			return int(t), s, e, l.Line(), l.Column()
		}, int(tmtok.EOI)}
	case "json":
		var l json.Lexer
		return lexIface{func(s string) { l.Init(s) }, func() (int, int, int, int, int) {
			t := l.Next()
			s, e := l.Pos()
			return int(t), s, e, l.Line(), 0
		}, int(jsontok.EOI)}
	case "test":
		var l test.Lexer
		return lexIface{func(s string) { l.Init(s) }, func() (int, int, int, int, int) {
			t := l.Next()
			s, e := l.Pos()
			return int(t), s, e, 0, 0
		}, int(testtok.EOI)}
	default:
		var l simple.Lexer
		return lexIface{func(s string) { l.Init(s) }, func() (int, int, int, int, int) {
			t := l.Next()
			s, e := l.Pos()
			return int(t), s, e, l.Line(), 0
		}, int(simpletok.EOI)}
	}
}

func c12Exec(c *c12Case, text string) {
	c.Len = len(text)
	c.Toks, c.Extra, c.NlBefore, c.LineStart, c.GapClean = []c12Tok{}, []c12Tok{}, []int{}, []int{}, []bool{}
	defer func() {
		if r := recover(); r != nil {
			c.Crash = "panic"
		}
	}()
	lx := mkLexer(c.Lexer)
	c.Eoi = lx.eoi
	lx.init(text)
	limit := len(text) + 8
	for {
		t, s, e, line, col := lx.next()
		c.Toks = append(c.Toks, c12Tok{t, s, e, line, col})
		if t == lx.eoi {
			break
		}
		if len(c.Toks) > limit {
			c.Hang = true
			return
		}
	}
	for i := 0; i < 2; i++ {
		t, s, e, line, col := lx.next()
		c.Extra = append(c.Extra, c12Tok{t, s, e, line, col})
	}
	prevEnd := 0
	if strings.HasPrefix(text, "\xef\xbb\xbf") {
		prevEnd = 3
	}
	for _, tk := range c.Toks {
		s := tk.Start
		if s < 0 || s > len(text) {
			c.NlBefore, c.LineStart, c.GapClean = append(c.NlBefore, -1), append(c.LineStart, -1), append(c.GapClean, false)
			continue
		}
		c.NlBefore = append(c.NlBefore, strings.Count(text[:s], "\n"))
		c.LineStart = append(c.LineStart, strings.LastIndexByte(text[:s], '\n')+1)
		clean := true
		if s < prevEnd {
			clean = false
		} else if s > prevEnd {
			g := mkLexer(c.Lexer)
			gap := text[prevEnd:s]
			func() {
				defer func() {
					if recover() != nil {
						clean = false
					}
				}()
				g.init(gap)
				t, gs, _, _, _ := g.next()
				clean = t == g.eoi && gs == len(gap)
			}()
		}
		c.GapClean = append(c.GapClean, clean)
		if tk.End > prevEnd {
			prevEnd = tk.End
		}
	}
}

// c12-run <n> <out.ndjson>: corpus from the repository working tree + mutations + short nasty strings
func c12Run(args []string) error {
	n, _ := strconv.Atoi(args[0])
	seed, _ := strconv.ParseInt(os.Getenv("VERIF_SEED"), 10, 64)
	r := rand.New(rand.NewSource(seed*48271 + 12))
	var corpus []string
	var origin []string
	for _, pat := range []string{"parsers/*/*.tm", "compiler/testdata/*.tm*", "parsers/*/testdata/*", "parsers/js/*_test.go", "parsers/json/*_test.go", "parsers/tm/*_test.go", "parsers/test/*_test.go", "vscode-ext/*.json", "parsers/json/testdata/*.json"} {
		m, _ := filepath.Glob(filepath.Join(repoDir(), pat))
		for _, f := range m {
			b, err := os.ReadFile(f)
			if err != nil || len(b) == 0 {
				continue
			}
			s := string(b)
			if len(s) > 6000 {
				off := r.Intn(len(s) - 6000)
				s = s[off : off+6000]
			}
			corpus = append(corpus, s)
			origin = append(origin, strings.TrimPrefix(f, repoDir()+"/"))
		}
	}
	nasty := []string{"/*", "*/", "\"", "'", "{", "}", "\xff", "\xef\xbb\xbf", "\r\n", "\r", "\n", "`", "${", "\\", "//", "<!--", "/", "\x00", "é", " ", "𝄞", "%%", "0x", "1e", ".", "?."}
	lexers := []string{"js", "tm", "json", "test", "simple"}
	w, err := newNDWriter(args[1])
	if err != nil {
		return err
	}
	id := 0
	emit := func(lexer, org, text string) error {
		c := &c12Case{ID: id, Lexer: lexer, Origin: org}
		id++
		c12Exec(c, text)
		if c.Hang || c.Crash != "" || len(text) < 400 {
			c.TextB64 = b64(text)
		}
		return w.Write(c)
	}
	// all strings up to length 2 (3 for a smaller alphabet) over the nasty alphabet, for every lexer
	short := []string{""}
	alpha := []string{"a", "0", " ", "\n", "\"", "/", "*", "{", "\xff", "\\", "'", "\xef\xbb\xbf", "\r", "`"}
	for _, x := range alpha {
		short = append(short, x)
		for _, y := range alpha {
			short = append(short, x+y)
			for _, z := range alpha[:8] {
				if len(short) < 700 {
					short = append(short, x+y+z)
				}
			}
		}
	}
	for _, lx := range lexers {
		for _, s := range short {
			if err := emit(lx, "short", s); err != nil {
				return err
			}
		}
	}
	for id < n {
		i := r.Intn(len(corpus))
		text := corpus[i]
		op := "plain"
		switch r.Intn(6) {
		case 0:
			text = text[:r.Intn(len(text)+1)]
			op = "truncate"
		case 1, 2:
			p := r.Intn(len(text) + 1)
			text = text[:p] + nasty[r.Intn(len(nasty))] + text[p:]
			op = "inject"
		case 3:
			p := r.Intn(len(text) + 1)
			q := p + r.Intn(40)
			if q > len(text) {
				q = len(text)
			}
			text = text[:p] + text[q:]
			op = "cut"
		case 4:
			text = "\xef\xbb\xbf" + text
			op = "bom"
		}
		if len(text) > 500 {
			off := r.Intn(len(text) - 500)
			text = text[off : off+500]
		}
		if err := emit(lexers[r.Intn(len(lexers))], origin[i]+":"+op, text); err != nil {
			return err
		}
	}
	return w.Close()
}
