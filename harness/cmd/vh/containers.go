package main

import (
	"fmt"
	"math/rand"
	"os"
	"slices"
	"strconv"

	"github.com/inspirer/textmapper/util/container"
	"github.com/inspirer/textmapper/util/sparse"
)

// containers-run <intern-cases.ndjson> <n random> <out.ndjson>: IntSliceSet / IntSliceMap on TLC's insertion sequences, sparse.Union and
// sparse.Builder on seeded random inputs (Containers.tla).

func init() { register("containers-run", containersRun) }

type ctCase struct {
	K    string  `json:"k"`
	Keys [][]int `json:"keys"`

	Sets1  [][]int `json:"sets1"`
	Sets2  [][]int `json:"sets2"`
	Rounds [][]int `json:"rounds"`

	Crash        string  `json:"crash"`
	Rets         []int   `json:"rets"`
	MRets        []int   `json:"mrets"`
	Lens         []int   `json:"lens"`
	First        []int   `json:"first"`
	Second       []int   `json:"second"`
	FirstAfter   []int   `json:"firstAfter"`
	AuxClean     bool    `json:"auxClean"`
	InputsIntact bool    `json:"inputsIntact"`
	Built        [][]int `json:"built"`
}

func nn(s []int) []int {
	if s == nil {
		return []int{}
	}
	return s
}

func nn2(s [][]int) [][]int {
	ret := [][]int{}
	for _, x := range s {
		ret = append(ret, nn(x))
	}
	return ret
}

func ctExec(c *ctCase, r *rand.Rand) {
	defer func() {
		if rec := recover(); rec != nil {
			c.Crash = fmt.Sprint("panic: ", rec)
		}
	}()
	switch c.K {
	case "intern":
		set := container.NewIntSliceSet()
		next := 0
		m := container.NewIntSliceMap(func(key []int) int { next++; return next - 1 })
		for _, key := range c.Keys {
			buf := slices.Clone(key) // the caller's buffer is reused and overwritten afterwards
			c.Rets = append(c.Rets, set.Insert(buf))
			c.MRets = append(c.MRets, m.Get(buf))
			for i := range buf {
				buf[i] = 77
			}
			c.Lens = append(c.Lens, set.Len())
		}
	case "union":
		toSets := func(in [][]int) []sparse.Set {
			var ret []sparse.Set
			for _, s := range in {
				ret = append(ret, sparse.Set(slices.Clone(s)))
			}
			return ret
		}
		s1, s2 := toSets(c.Sets1), toSets(c.Sets2)
		aux := container.NewBitSet(64)
		reuse := make([]int, 0, r.Intn(10))
		r1 := sparse.Union(s1, aux, reuse)
		c.First = nn(slices.Clone([]int(r1)))
		c.AuxClean = aux.Cardinality() == 0
		r2 := sparse.Union(s2, aux, reuse)
		c.Second = nn(slices.Clone([]int(r2)))
		c.FirstAfter = nn(slices.Clone([]int(r1)))
		c.AuxClean = c.AuxClean && aux.Cardinality() == 0
		c.InputsIntact = true
		for i, s := range s1 {
			if !slices.Equal([]int(s), c.Sets1[i]) {
				c.InputsIntact = false
			}
		}
		for i, s := range s2 {
			if !slices.Equal([]int(s), c.Sets2[i]) {
				c.InputsIntact = false
			}
		}
	case "builder":
		b := sparse.NewBuilder(64)
		for _, round := range c.Rounds {
			for _, v := range round {
				b.Add(v)
			}
			c.Built = append(c.Built, nn(slices.Clone([]int(b.Build()))))
		}
	}
}

func containersRun(args []string) error {
	cases, err := readNDJSON[ctCase](args[0])
	if err != nil {
		return err
	}
	n, _ := strconv.Atoi(args[1])
	seed, _ := strconv.ParseInt(os.Getenv("VERIF_SEED"), 10, 64)
	r := rand.New(rand.NewSource(seed*32452843 + 25))
	distinct := func(max int) []int {
		s := []int{}
		for _, v := range r.Perm(12)[:r.Intn(max+1)] {
			s = append(s, []int{0, 1, 2, 3, 30, 31, 32, 33, 40, 62, 63, 5}[v])
		}
		return s
	}
	sets := func() [][]int {
		ret := [][]int{}
		for i := 0; i < r.Intn(4); i++ {
			ret = append(ret, distinct(5))
		}
		return ret
	}
	for i := 0; i < n; i++ {
		if i%2 == 0 {
			cases = append(cases, ctCase{K: "union", Sets1: sets(), Sets2: sets()})
		} else {
			c := ctCase{K: "builder", Rounds: [][]int{}}
			for k := 0; k < 1+r.Intn(3); k++ {
				round := []int{}
				for j := 0; j < r.Intn(7); j++ {
					round = append(round, []int{0, 1, 31, 32, 33, 63}[r.Intn(6)])
				}
				c.Rounds = append(c.Rounds, round)
			}
			cases = append(cases, c)
		}
	}
	w, err := newNDWriter(args[2])
	if err != nil {
		return err
	}
	for i := range cases {
		c := &cases[i]
		c.Keys, c.Sets1, c.Sets2, c.Rounds = nn2(c.Keys), nn2(c.Sets1), nn2(c.Sets2), nn2(c.Rounds)
		c.Rets, c.MRets, c.Lens, c.First, c.Second, c.FirstAfter, c.Built = []int{}, []int{}, []int{}, []int{}, []int{}, []int{}, [][]int{}
		ctExec(c, r)
		if err := w.Write(c); err != nil {
			return err
		}
	}
	return w.Close()
}
