package main

import (
	"context"
	"encoding/json"
	"fmt"
	"math/rand"
	"os"
	"os/exec"
	"path/filepath"
	"sort"
	"strconv"
	"strings"
	"sync"

	"github.com/inspirer/textmapper/compiler"
	"github.com/inspirer/textmapper/gen"
)

func init() {
	register("c21-gen", c21Gen)
}

// ---- grammars with typed AST generation; the generated accessors are called by reflection on real trees

// part of a struct rule
type tyPart struct {
	K     string `json:"k"`     // tok ref opt list
	Tok   int    `json:"tok"`   // tok: punctuation token; list: separator token (0: none)
	NT    int    `json:"nt"`    // ref/opt/list: referenced nonterminal
	Field string `json:"field"` // "" if unnamed
	Plus  bool   `json:"plus"`
}

type tyNonterm struct {
	Kind  string     `json:"kind"` // leaf struct iface
	Tok   int        `json:"tok"`  // leaf: its token; struct: its keyword
	End   int        `json:"end"`  // struct: closing token
	Parts []tyPart   `json:"parts"`
	Alts  []int      `json:"alts"` // iface: alternatives (node nonterminals)
	Op    int        `json:"op"`   // iface: binary operator token (0: none)
	Named bool       `json:"named"`
	Cyc   [][]tyCycAlt `json:"cyc"` // cyc2: per member its alternatives
	Uni   []int      `json:"uni"`  // union: tokens of the helper's alternatives (same field name, different node types), then the extra one
}

// alternative of a cycle member: tok (optionally reported as an inline node) followed by member Next (-1: nothing)
type tyCycAlt struct {
	Tok  int  `json:"tok"`
	Node bool `json:"node"`
	Next int  `json:"next"`
}

type tyField struct {
	Name  string     `json:"name"`
	LName string     `json:"lname"`
	Sel   []string   `json:"sel"` // concrete node types
	Req   bool       `json:"req"`
	List  bool       `json:"list"`
	Chain []tyStep   `json:"chain"`
}

type tyStep struct {
	Sel  []string `json:"sel"`
	List bool     `json:"list"`
}

type tyType struct {
	Name   string    `json:"name"`
	Fields []tyField `json:"fields"`
}

type tyAcc struct {
	Name  string `json:"name"`
	LName string `json:"lname"`
	Kind  string `json:"kind"` // required optional list
	Res   []int  `json:"res"`  // 1-based indices of the returned children among the node's children (0: a node that is not a child)
	Ok    bool   `json:"ok"`
	Panic string `json:"panic"`
}

type tyNode struct {
	Type string   `json:"type"`
	Kids []string `json:"kids"`
	Acc  []tyAcc  `json:"acc"`
}

type tyRun struct {
	Text  string   `json:"text"`
	Err   string   `json:"err"`
	Nodes []tyNode `json:"nodes"`
}

type tyCase struct {
	ID       int         `json:"id"`
	Pkg      string      `json:"pkg"`
	Nts      []tyNonterm `json:"nts"`
	TM       string      `json:"tmtext"`
	GenErr   string      `json:"genErr"`
	Conflict bool        `json:"conflict"`
	TypeErr  bool        `json:"typeErr"`
	Types    []tyType    `json:"types"`
	Runs     []tyRun     `json:"runs"`
}

func tyTok(t int) string {
	if t < 26 {
		return "t" + string(rune('a'+t))
	}
	return "u" + string(rune('a'+t-26))
}
func tyChar(t int) string {
	if t < 26 {
		return string(rune('a' + t))
	}
	return string(rune('A' + t - 26))
}

func (c *tyCase) ntName(i int) string   { return fmt.Sprintf("n%d", i) }
func (c *tyCase) typeName(i int) string { return fmt.Sprintf("%s%d", map[string]string{"leaf": "Leaf", "struct": "Struct", "iface": "Cat", "cyc": "Struct", "cyc2": "Struct", "union": "Struct"}[c.Nts[i].Kind], i) }

func (c *tyCase) render(ntok int) string {
	var b strings.Builder
	fmt.Fprintf(&b, "language %s(go);\n\npackage = \"rt/%s\"\neventBased = true\neventFields = true\neventAST = true\n\n:: lexer\n\nWS: /[ \\n]+/ (space)\n", c.Pkg, c.Pkg)
	for t := 0; t < ntok; t++ {
		fmt.Fprintf(&b, "%s: /%s/\n", tyTok(t), tyChar(t))
	}
	b.WriteString("\n:: parser\n\n%input root;\n\n")
	for i, nt := range c.Nts {
		if nt.Kind == "iface" {
			fmt.Fprintf(&b, "%%interface %s;\n", c.typeName(i))
		}
	}
	b.WriteString("\nroot -> Root:\n    top+ ;\n\n%interface Top;\n\ntop -> Top:\n")
	first := true
	for i, nt := range c.Nts {
		if nt.Kind == "struct" || nt.Kind == "cyc" || nt.Kind == "cyc2" || nt.Kind == "union" {
			sep := "  | "
			if first {
				sep = "    "
				first = false
			}
			fmt.Fprintf(&b, "%s%s\n", sep, c.ntName(i))
			if nt.Kind == "union" {
				fmt.Fprintf(&b, "  | %s_q\n", c.ntName(i))
			}
		}
	}
	b.WriteString(";\n\n")
	for i, nt := range c.Nts {
		switch nt.Kind {
		case "leaf":
			fmt.Fprintf(&b, "%s -> %s:\n    %s ;\n\n", c.ntName(i), c.typeName(i), tyTok(nt.Tok))
		case "iface":
			fmt.Fprintf(&b, "%s -> %s:\n", c.ntName(i), c.typeName(i))
			for k, a := range nt.Alts {
				sep := "  | "
				if k == 0 {
					sep = "    "
				}
				fmt.Fprintf(&b, "%s%s\n", sep, c.ntName(a))
			}
			if nt.Op > 0 {
				if nt.Named {
					fmt.Fprintf(&b, "  | left=%s %s right=%s -> Bin%d\n", c.ntName(i), tyTok(nt.Op-1), c.ntName(nt.Alts[0]), i)
				} else {
					fmt.Fprintf(&b, "  | %s %s %s -> Bin%d\n", c.ntName(i), tyTok(nt.Op-1), c.ntName(nt.Alts[0]), i)
				}
			}
			b.WriteString(";\n\n")
		case "cyc":
			// a cycle through nonterminals that produce no nodes themselves; each member reports an inline node
			m := len(nt.Alts)
			name := func(k int) string { return fmt.Sprintf("%s_%d", c.ntName(i), k) }
			node := func(k int) string { return fmt.Sprintf("(%s -> Cy%d_%d)", tyTok(nt.Alts[k]), i, k) }
			fmt.Fprintf(&b, "%s -> %s:\n    %s %s %s ;\n\n", c.ntName(i), c.typeName(i), tyTok(nt.Tok), name(0), tyTok(nt.End))
			fmt.Fprintf(&b, "%s:\n    %s %s\n  | %s\n;\n\n", name(0), name(1), node(0), node(0))
			for k := 1; k < m-1; k++ {
				fmt.Fprintf(&b, "%s:\n    %s %s\n;\n\n", name(k), name(k+1), node(k))
			}
			fmt.Fprintf(&b, "%s:\n    %s %s\n  | %s\n;\n\n", name(m-1), name(0), node(m-1), node(m-1))
		case "cyc2":
			// random cycle structure through node-less nonterminals (several back edges, any order of alternatives)
			name := func(k int) string { return fmt.Sprintf("%s_%d", c.ntName(i), k) }
			fmt.Fprintf(&b, "%s -> %s:\n    %s %s %s ;\n\n", c.ntName(i), c.typeName(i), tyTok(nt.Tok), name(0), tyTok(nt.End))
			for k, alts := range nt.Cyc {
				fmt.Fprintf(&b, "%s:\n", name(k))
				for j, a := range alts {
					sep := "  | "
					if j == 0 {
						sep = "    "
					}
					t := tyTok(a.Tok)
					if a.Node {
						t = fmt.Sprintf("(%s -> Cy%d_%d)", t, i, a.Tok)
					}
					if a.Next >= 0 {
						t += " " + name(a.Next)
					}
					fmt.Fprintf(&b, "%s%s\n", sep, t)
				}
				b.WriteString(";\n\n")
			}
		case "union":
			// one field name over alternatives with different node types, in a node-less helper shared by two node types
			h := fmt.Sprintf("%s_u", c.ntName(i))
			nU := len(nt.Uni) - 1
			fmt.Fprintf(&b, "%s:\n", h)
			for j := 0; j < nU; j++ {
				sep := "  | "
				if j == 0 {
					sep = "    "
				}
				fmt.Fprintf(&b, "%sx=(%s -> U%d_%d)\n", sep, tyTok(nt.Uni[j]), i, nt.Uni[j])
			}
			b.WriteString(";\n\n")
			fmt.Fprintf(&b, "%s -> %s:\n    %s %s %s\n  | %s x=(%s -> Ka%d) %s\n;\n\n", c.ntName(i), c.typeName(i), tyTok(nt.Tok), h, tyTok(nt.End), tyTok(nt.Tok), tyTok(nt.Uni[nU]), i, tyTok(nt.End))
			fmt.Fprintf(&b, "%s_q -> Qq%d:\n    %s %s %s ;\n\n", c.ntName(i), i, tyTok(nt.Op-1), h, tyTok(nt.End))
		case "struct":
			fmt.Fprintf(&b, "%s -> %s:\n    %s", c.ntName(i), c.typeName(i), tyTok(nt.Tok))
			for _, p := range nt.Parts {
				f := ""
				if p.Field != "" {
					f = p.Field + "="
				}
				switch p.K {
				case "tok":
					b.WriteString(" " + tyTok(p.Tok))
				case "inline":
					fmt.Fprintf(&b, " (%s -> Inl%d)?", tyTok(p.Tok), p.Tok)
				case "ref":
					b.WriteString(" " + f + c.ntName(p.NT))
				case "opt":
					if f != "" {
						b.WriteString(" (" + f + c.ntName(p.NT) + ")?")
					} else {
						b.WriteString(" " + c.ntName(p.NT) + "?")
					}
				case "list":
					q := "*"
					if p.Plus {
						q = "+"
					}
					if p.Tok > 0 {
						b.WriteString(" " + f + "(" + c.ntName(p.NT) + " separator " + tyTok(p.Tok-1) + ")" + q)
					} else {
						b.WriteString(" " + f + c.ntName(p.NT) + q)
					}
				}
			}
			fmt.Fprintf(&b, " %s ;\n\n", tyTok(nt.End))
		}
	}
	return b.String()
}

// a random sentence (token numbers) of nonterminal i
func (c *tyCase) sample(r *rand.Rand, i, depth int, out *[]int) {
	nt := c.Nts[i]
	switch nt.Kind {
	case "leaf":
		*out = append(*out, nt.Tok)
	case "iface":
		if nt.Op > 0 && depth > 0 && r.Intn(3) == 0 {
			c.sample(r, i, depth-1, out)
			*out = append(*out, nt.Op-1)
			c.sample(r, nt.Alts[0], depth-1, out)
			return
		}
		c.sample(r, nt.Alts[r.Intn(len(nt.Alts))], depth-1, out)
	case "cyc":
		// member 0: member1 t0 | t0 ; member k: member(k+1) tk ; last: member0 t(m-1) | t(m-1)
		*out = append(*out, nt.Tok)
		m := len(nt.Alts)
		var member func(k, d int)
		member = func(k, d int) {
			switch {
			case k == 0:
				if d > 0 && r.Intn(3) > 0 {
					member(1, d)
				}
			case k == m-1:
				if d > 0 && r.Intn(3) > 0 {
					member(0, d-1)
				}
			default:
				member(k+1, d)
			}
			*out = append(*out, nt.Alts[k])
		}
		member(0, 3)
		*out = append(*out, nt.End)
	case "cyc2":
		*out = append(*out, nt.Tok)
		// distance to termination per member
		m := len(nt.Cyc)
		dist := make([]int, m)
		for k := range dist {
			dist[k] = 1 << 20
		}
		for it := 0; it < m+1; it++ {
			for k, alts := range nt.Cyc {
				for _, a := range alts {
					d := 1
					if a.Next >= 0 {
						d = 1 + dist[a.Next]
					}
					if d < dist[k] {
						dist[k] = d
					}
				}
			}
		}
		k, budget := 0, 4+r.Intn(8)
		for steps := 0; steps < 64; steps++ {
			alts := nt.Cyc[k]
			var a tyCycAlt
			if budget > 0 {
				a = alts[r.Intn(len(alts))]
			} else { // head for termination
				best := alts[0]
				for _, x := range alts {
					dx, db := 1, 1
					if x.Next >= 0 {
						dx = 1 + dist[x.Next]
					}
					if best.Next >= 0 {
						db = 1 + dist[best.Next]
					}
					if dx < db {
						best = x
					}
				}
				a = best
			}
			budget--
			*out = append(*out, a.Tok)
			if a.Next < 0 {
				break
			}
			k = a.Next
		}
		*out = append(*out, nt.End)
	case "union":
		nU := len(nt.Uni) - 1
		if r.Intn(2) == 0 {
			*out = append(*out, nt.Tok, nt.Uni[r.Intn(nU)], nt.End)
		} else {
			*out = append(*out, nt.Tok, nt.Uni[nU], nt.End)
		}
	case "struct":
		*out = append(*out, nt.Tok)
		for _, p := range nt.Parts {
			switch p.K {
			case "tok":
				*out = append(*out, p.Tok)
			case "inline":
				if r.Intn(2) == 0 {
					*out = append(*out, p.Tok)
				}
			case "ref":
				c.sample(r, p.NT, depth-1, out)
			case "opt":
				if r.Intn(2) == 0 {
					c.sample(r, p.NT, depth-1, out)
				}
			case "list":
				n := r.Intn(4)
				if p.Plus && n == 0 {
					n = 1
				}
				for k := 0; k < n; k++ {
					if k > 0 && p.Tok > 0 {
						*out = append(*out, p.Tok-1)
					}
					c.sample(r, p.NT, depth-1, out)
				}
			}
		}
		*out = append(*out, nt.End)
	}
}

const c21Adapter = `package ast

import (
	"fmt"
	"reflect"
)

type VerifAcc struct {
	Name  string
	Kind  string
	Res   []int
	Ok    bool
	Panic string
}

type VerifNode struct {
	Type string
	Kids []string
	Acc  []VerifAcc
}

var verifNodeMethods = func() map[string]bool {
	m := map[string]bool{}
	t := reflect.TypeOf(&Node{})
	for i := 0; i < t.NumMethod(); i++ {
		m[t.Method(i).Name] = true
	}
	return m
}()

func verifIndex(parent, child *Node) int {
	i := 1
	for c := parent.firstChild; c != nil; c = c.next {
		if c == child {
			return i
		}
		i++
	}
	return 0
}

func verifUnwrap(v reflect.Value) (n *Node, isNil bool) {
	m := v.MethodByName(%q)
	if !m.IsValid() {
		if v.CanAddr() {
			m = v.Addr().MethodByName(%q)
		}
	}
	if !m.IsValid() {
		return nil, true
	}
	out := m.Call(nil)
	n, _ = out[0].Interface().(*Node)
	return n, n == nil
}

func verifCall(parent *Node, recv reflect.Value, i int) (acc VerifAcc) {
	acc.Name = recv.Type().Method(i).Name
	acc.Res = []int{}
	defer func() {
		if r := recover(); r != nil {
			acc.Panic = fmt.Sprint(r)
		}
	}()
	out := recv.Method(i).Call(nil)
	switch {
	case len(out) == 2:
		acc.Kind = "optional"
		acc.Ok = out[1].Bool()
		if n, isNil := verifUnwrap(out[0]); !isNil {
			acc.Res = append(acc.Res, verifIndex(parent, n))
		}
	case out[0].Kind() == reflect.Slice:
		acc.Kind = "list"
		acc.Ok = true
		for k := 0; k < out[0].Len(); k++ {
			if n, isNil := verifUnwrap(out[0].Index(k)); !isNil {
				acc.Res = append(acc.Res, verifIndex(parent, n))
			} else {
				acc.Res = append(acc.Res, -1)
			}
		}
	default:
		acc.Kind = "required"
		if n, isNil := verifUnwrap(out[0]); !isNil {
			acc.Res = append(acc.Res, verifIndex(parent, n))
			acc.Ok = true
		}
	}
	return acc
}

// VerifWalk parses content and calls every accessor of every node of the tree.
func VerifWalk(content string) (nodes []VerifNode, errMsg string) {
	defer func() {
		if r := recover(); r != nil {
			errMsg = fmt.Sprint("panic: ", r)
		}
	}()
	tree, err := Parse("x", content)
	if err != nil {
		return nil, err.Error()
	}
	var visit func(n *Node)
	visit = func(n *Node) {
		rec := VerifNode{Type: n.Type().String(), Kids: []string{}, Acc: []VerifAcc{}}
		for c := n.firstChild; c != nil; c = c.next {
			rec.Kids = append(rec.Kids, c.Type().String())
		}
		func() {
			defer func() {
				if r := recover(); r != nil {
					rec.Acc = append(rec.Acc, VerifAcc{Name: "(factory)", Panic: fmt.Sprint(r), Res: []int{}})
				}
			}()
			typed := reflect.ValueOf(%s(n))
			for i := 0; i < typed.NumMethod(); i++ {
				name := typed.Type().Method(i).Name
				if verifNodeMethods[name] || name == %q || typed.Type().Method(i).Type.NumIn() != 1 {
					continue
				}
				rec.Acc = append(rec.Acc, verifCall(n, typed, i))
			}
		}()
		nodes = append(nodes, rec)
		for c := n.firstChild; c != nil; c = c.next {
			visit(c)
		}
	}
	visit(tree.Root())
	return nodes, ""
}
`

const c21Main = `package main

import (
	"bufio"
	"encoding/json"
	"os"
%s
)

type job struct {
	Pkg   string   ` + "`json:\"pkg\"`" + `
	Texts []string ` + "`json:\"texts\"`" + `
}

type run struct {
	Nodes interface{} ` + "`json:\"nodes\"`" + `
	Err   string      ` + "`json:\"err\"`" + `
}

type result struct {
	Pkg  string ` + "`json:\"pkg\"`" + `
	Runs []run  ` + "`json:\"runs\"`" + `
}

var walkers = map[string]func(string) (interface{}, string){
%s
}

func main() {
	dec := json.NewDecoder(bufio.NewReaderSize(os.Stdin, 1<<20))
	out := bufio.NewWriterSize(os.Stdout, 1<<20)
	enc := json.NewEncoder(out)
	for dec.More() {
		var j job
		if err := dec.Decode(&j); err != nil {
			os.Exit(3)
		}
		res := result{Pkg: j.Pkg}
		for _, t := range j.Texts {
			nodes, e := walkers[j.Pkg](t)
			res.Runs = append(res.Runs, run{Nodes: nodes, Err: e})
		}
		enc.Encode(res)
		out.Flush()
	}
}
`

// c21-gen <n> <mod-dir> <out.ndjson>
func c21Gen(args []string) error {
	n, _ := strconv.Atoi(args[0])
	mod := args[1]
	seed, _ := strconv.ParseInt(os.Getenv("VERIF_SEED"), 10, 64)
	r := rand.New(rand.NewSource(seed*67867967 + 21))
	if err := os.MkdirAll(mod, 0o755); err != nil {
		return err
	}
	cases := make([]tyCase, n)
	texts := make([][]string, n)
	for id := 0; id < n; id++ {
		c := &cases[id]
		c.ID, c.Pkg = id, fmt.Sprintf("y%d", id)
		ntok := 0
		tok := func() int { ntok++; return ntok - 1 }
		nleaf := 2 + r.Intn(3)
		for i := 0; i < nleaf; i++ {
			c.Nts = append(c.Nts, tyNonterm{Kind: "leaf", Tok: tok()})
		}
		// interfaces over leaves (and, for the second one, over the first interface's members too)
		niface := r.Intn(3)
		for i := 0; i < niface; i++ {
			nt := tyNonterm{Kind: "iface", Named: r.Intn(2) == 0}
			perm := r.Perm(nleaf)
			for _, k := range perm[:1+r.Intn(nleaf)] {
				nt.Alts = append(nt.Alts, k)
			}
			if i > 0 && r.Intn(2) == 0 { // nested categories: an earlier interface as an alternative
				nt.Alts = append(nt.Alts, nleaf+r.Intn(i))
			}
			if r.Intn(2) == 0 {
				nt.Op = tok() + 1
			}
			c.Nts = append(c.Nts, nt)
		}
		nstruct := 1 + r.Intn(3)
		base := len(c.Nts)
		fields := []string{"a", "b", "c", "d", "e"}
		for i := 0; i < nstruct; i++ {
			nt := tyNonterm{Kind: "struct", Tok: tok()}
			if r.Intn(6) == 0 { // a cycle of 3-4 nonterminals without nodes of their own
				nt.Kind = "cyc"
				for k := 0; k < 3+r.Intn(2); k++ {
					nt.Alts = append(nt.Alts, tok())
				}
				nt.End = tok()
				c.Nts = append(c.Nts, nt)
				continue
			}
			if r.Intn(6) == 0 { // random cycles through node-less nonterminals
				nt.Kind = "cyc2"
				m := 3 + r.Intn(3)
				nt.Cyc = make([][]tyCycAlt, m)
				for k := 0; k < m; k++ {
					nt.Cyc[k] = append(nt.Cyc[k], tyCycAlt{Tok: tok(), Node: r.Intn(2) == 0, Next: (k + 1) % m})
					if r.Intn(2) == 0 {
						nx := r.Intn(m+1) - 1
						nt.Cyc[k] = append(nt.Cyc[k], tyCycAlt{Tok: tok(), Node: r.Intn(2) == 0, Next: nx})
					}
					if r.Intn(2) == 0 {
						r.Shuffle(len(nt.Cyc[k]), func(a, b int) { nt.Cyc[k][a], nt.Cyc[k][b] = nt.Cyc[k][b], nt.Cyc[k][a] })
					}
				}
				// somebody must terminate
				kt := r.Intn(m)
				nt.Cyc[kt] = append(nt.Cyc[kt], tyCycAlt{Tok: tok(), Node: true, Next: -1})
				nt.End = tok()
				c.Nts = append(c.Nts, nt)
				continue
			}
			if r.Intn(8) == 0 { // one field over differently typed alternatives in a shared node-less helper
				nt.Kind = "union"
				for k := 0; k < 2+r.Intn(6); k++ {
					nt.Uni = append(nt.Uni, tok())
				}
				nt.Uni = append(nt.Uni, tok()) // the extra alternative of the first node type
				nt.Op = tok() + 1
				nt.End = tok()
				c.Nts = append(c.Nts, nt)
				continue
			}
			if r.Intn(4) == 0 { // groups of same-typed fields, the last field of a group may be optional
				fi := 0
				for gidx := 0; gidx < 1+r.Intn(2); gidx++ {
					target := r.Intn(nleaf)
					cnt := 2 + r.Intn(2)
					for k := 0; k < cnt; k++ {
						p := tyPart{K: "ref", NT: target, Field: fields[fi%len(fields)] + strconv.Itoa(fi/len(fields))}
						fi++
						if k == cnt-1 && r.Intn(2) == 0 {
							p.K = "opt"
						}
						nt.Parts = append(nt.Parts, p)
						if r.Intn(2) == 0 {
							nt.Parts = append(nt.Parts, tyPart{K: "tok", Tok: tok()})
						}
					}
					nt.Parts = append(nt.Parts, tyPart{K: "tok", Tok: tok()})
				}
				nt.End = tok()
				c.Nts = append(c.Nts, nt)
				continue
			}
			np := 1 + r.Intn(4)
			fi := 0
			for k := 0; k < np; k++ {
				// referenced nonterminals: leaves, interfaces, earlier structs
				target := r.Intn(base + i)
				p := tyPart{NT: target}
				if r.Intn(2) == 0 {
					p.Field = fields[fi]
					fi++
				}
				switch x := r.Intn(10); {
				case x < 4:
					p.K = "ref"
				case x < 6:
					p.K = "opt"
				case x < 9:
					p.K = "list"
					p.Plus = r.Intn(2) == 0
					if r.Intn(2) == 0 {
						p.Tok = tok() + 1
					}
				case x < 10 && r.Intn(2) == 0:
					p.K, p.Tok, p.NT, p.Field = "inline", tok(), 0, ""
				default:
					p.K, p.Tok, p.Field = "tok", tok(), ""
				}
				nt.Parts = append(nt.Parts, p)
				if p.K != "tok" && r.Intn(3) == 0 { // a separator token keeps adjacent parts apart
					nt.Parts = append(nt.Parts, tyPart{K: "tok", Tok: tok()})
				}
			}
			nt.End = tok()
			c.Nts = append(c.Nts, nt)
		}
		for i := range c.Nts {
			if c.Nts[i].Parts == nil {
				c.Nts[i].Parts = []tyPart{}
			}
			if c.Nts[i].Alts == nil {
				c.Nts[i].Alts = []int{}
			}
			if c.Nts[i].Cyc == nil {
				c.Nts[i].Cyc = [][]tyCycAlt{}
			}
			if c.Nts[i].Uni == nil {
				c.Nts[i].Uni = []int{}
			}
		}
		if ntok > 50 {
			id--
			*c = tyCase{}
			continue
		}
		c.TM = c.render(ntok)
		var structs []int
		for i, nt := range c.Nts {
			if nt.Kind == "struct" || nt.Kind == "cyc" || nt.Kind == "cyc2" || nt.Kind == "union" {
				structs = append(structs, i)
			}
		}
		for k := 0; k < 20; k++ {
			var toks []int
			for it := 0; it < 1+r.Intn(3); it++ {
				si := structs[r.Intn(len(structs))]
				if u := c.Nts[si]; u.Kind == "union" && r.Intn(3) == 0 { // the second node type over the shared helper
					toks = append(toks, u.Op-1, u.Uni[r.Intn(len(u.Uni)-1)], u.End)
					continue
				}
				c.sample(r, si, 3, &toks)
			}
			var sb strings.Builder
			for _, t := range toks {
				sb.WriteString(tyChar(t))
				sb.WriteByte(' ')
			}
			texts[id] = append(texts[id], sb.String())
			c.Runs = append(c.Runs, tyRun{Text: sb.String(), Nodes: []tyNode{}})
		}
	}
	for id := range cases {
		c := &cases[id]
		c.Types = []tyType{}
		func() {
			defer func() {
				if rec := recover(); rec != nil {
					c.GenErr = fmt.Sprint("panic: ", rec)
				}
			}()
			g, err := compiler.Compile(context.Background(), c.Pkg+".tm", c.TM, compiler.Params{})
			if err != nil {
				c.GenErr = "compile: " + truncate(err.Error(), 600)
				c.Conflict = strings.Contains(err.Error(), "conflict")
				c.TypeErr = strings.Contains(err.Error(), "contain overlapping sets of node types")
				return
			}
			if err := gen.Generate(g, dirWriter{filepath.Join(mod, c.Pkg)}, gen.Options{}); err != nil {
				c.GenErr = "generate: " + truncate(err.Error(), 600)
				return
			}
			base := strings.ToUpper(c.Pkg[:1]) + c.Pkg[1:] + "Node"
			src := fmt.Sprintf(c21Adapter, base, base, "To"+base, base)
			if err := os.WriteFile(filepath.Join(mod, c.Pkg, "ast", "verif_adapter.go"), []byte(src), 0o644); err != nil {
				c.GenErr = err.Error()
				return
			}
			cats := map[string][]string{}
			for _, cat := range g.Parser.Types.Categories {
				cats[cat.Name] = cat.Types
			}
			var expand func(sel []string) []string
			expand = func(sel []string) []string {
				seen := map[string]bool{}
				var out []string
				var add func(s string)
				add = func(s string) {
					if ts, ok := cats[s]; ok {
						for _, t := range ts {
							add(t)
						}
						return
					}
					if !seen[s] {
						seen[s] = true
						out = append(out, s)
					}
				}
				for _, s := range sel {
					add(s)
				}
				sort.Strings(out)
				if out == nil {
					out = []string{}
				}
				return out
			}
			for ti := range g.Parser.Types.RangeTypes {
				rt := &g.Parser.Types.RangeTypes[ti]
				t := tyType{Name: rt.Name, Fields: []tyField{}}
				for fi, f := range rt.Fields {
					tf := tyField{Name: f.Name, LName: strings.ToLower(f.Name), Sel: expand(f.Selector), Req: f.IsRequired, List: f.IsList, Chain: []tyStep{}}
					for _, st := range rt.DecodeField(fi) {
						tf.Chain = append(tf.Chain, tyStep{Sel: expand(st.Selector), List: st.IsList})
					}
					t.Fields = append(t.Fields, tf)
				}
				c.Types = append(c.Types, t)
			}
		}()
	}
	if err := os.WriteFile(filepath.Join(mod, "go.mod"), []byte("module rt\n\ngo 1.25\n"), 0o644); err != nil {
		return err
	}
	var mu sync.Mutex
	var wg sync.WaitGroup
	sem := make(chan struct{}, 16)
	for id := range cases {
		c := &cases[id]
		if c.GenErr != "" {
			continue
		}
		wg.Add(1)
		go func() {
			defer wg.Done()
			sem <- struct{}{}
			defer func() { <-sem }()
			cmd := exec.Command("go1.26", "build", "./"+c.Pkg+"/...")
			cmd.Dir = mod
			cmd.Env = append(os.Environ(), "GOFLAGS=-mod=mod", "GOPROXY=off", "GOSUMDB=off", "GOTOOLCHAIN=local")
			if out, err := cmd.CombinedOutput(); err != nil {
				mu.Lock()
				c.GenErr = "build: " + truncate(string(out), 1500)
				mu.Unlock()
			}
		}()
	}
	wg.Wait()
	var imports, table []string
	for id := range cases {
		c := &cases[id]
		if c.GenErr != "" {
			continue
		}
		imports = append(imports, fmt.Sprintf("\t%s \"rt/%s/ast\"", c.Pkg, c.Pkg))
		table = append(table, fmt.Sprintf("\t%q: func(s string) (interface{}, string) { n, e := %s.VerifWalk(s); return n, e },", c.Pkg, c.Pkg))
	}
	sort.Strings(imports)
	if err := os.WriteFile(filepath.Join(mod, "main.go"), []byte(fmt.Sprintf(c21Main, strings.Join(imports, "\n"), strings.Join(table, "\n"))), 0o644); err != nil {
		return err
	}
	cmd := exec.Command("go1.26", "build", "-o", "tybin", ".")
	cmd.Dir = mod
	cmd.Env = append(os.Environ(), "GOFLAGS=-mod=mod", "GOPROXY=off", "GOSUMDB=off", "GOTOOLCHAIN=local")
	if out, err := cmd.CombinedOutput(); err != nil {
		return fmt.Errorf("building the AST driver failed: %v\n%s", err, out)
	}
	var jobs strings.Builder
	for id := range cases {
		if cases[id].GenErr != "" {
			continue
		}
		j, _ := json.Marshal(map[string]any{"pkg": cases[id].Pkg, "texts": texts[id]})
		jobs.Write(j)
		jobs.WriteByte('\n')
	}
	run := exec.Command(filepath.Join(mod, "tybin"))
	run.Stdin = strings.NewReader(jobs.String())
	run.Stderr = os.Stderr
	outBytes, err := run.Output()
	if err != nil {
		return fmt.Errorf("AST driver died: %v", err)
	}
	byPkg := map[string]*tyCase{}
	for id := range cases {
		byPkg[cases[id].Pkg] = &cases[id]
	}
	for _, line := range strings.Split(strings.TrimSpace(string(outBytes)), "\n") {
		if line == "" {
			continue
		}
		var res struct {
			Pkg  string `json:"pkg"`
			Runs []struct {
				Nodes []struct {
					Type string
					Kids []string
					Acc  []struct {
						Name  string
						Kind  string
						Res   []int
						Ok    bool
						Panic string
					}
				} `json:"nodes"`
				Err string `json:"err"`
			} `json:"runs"`
		}
		if err := json.Unmarshal([]byte(line), &res); err != nil {
			return err
		}
		c := byPkg[res.Pkg]
		for k := range res.Runs {
			c.Runs[k].Err = res.Runs[k].Err
			for _, nd := range res.Runs[k].Nodes {
				tn := tyNode{Type: nd.Type, Kids: nd.Kids, Acc: []tyAcc{}}
				if tn.Kids == nil {
					tn.Kids = []string{}
				}
				for _, a := range nd.Acc {
					res := a.Res
					if res == nil {
						res = []int{}
					}
					tn.Acc = append(tn.Acc, tyAcc{Name: a.Name, LName: strings.ToLower(a.Name), Kind: a.Kind, Res: res, Ok: a.Ok, Panic: a.Panic})
				}
				c.Runs[k].Nodes = append(c.Runs[k].Nodes, tn)
			}
		}
	}
	w, err := newNDWriter(args[2])
	if err != nil {
		return err
	}
	for id := range cases {
		c := &cases[id]
		if c.GenErr != "" {
			c.Runs = []tyRun{}
		}
		if err := w.Write(c); err != nil {
			return err
		}
	}
	return w.Close()
}
