// Command vh is the Go side of the /verif conformance harness: it replays TLC-generated cases
// into the real textmapper code and records real executions as ndjson for TLC to validate.
package main

import (
	"bufio"
	"encoding/base64"
	"encoding/json"
	"fmt"
	"os"
	"sort"
)

type command func(args []string) error

var commands = map[string]command{}

func register(name string, c command) { commands[name] = c }

func main() {
	if len(os.Args) < 2 {
		var names []string
		for n := range commands {
			names = append(names, n)
		}
		sort.Strings(names)
		fmt.Fprintln(os.Stderr, "usage: vh <command> args...; commands:", names)
		os.Exit(2)
	}
	c, ok := commands[os.Args[1]]
	if !ok {
		fmt.Fprintln(os.Stderr, "unknown command", os.Args[1])
		os.Exit(2)
	}
	if err := c(os.Args[2:]); err != nil {
		fmt.Fprintln(os.Stderr, "vh:", err)
		os.Exit(3)
	}
}

// readNDJSON decodes one JSON value per line of path into fresh values of type T.
func readNDJSON[T any](path string) ([]T, error) {
	f, err := os.Open(path)
	if err != nil {
		return nil, err
	}
	defer f.Close()
	var ret []T
	dec := json.NewDecoder(bufio.NewReaderSize(f, 1<<20))
	for dec.More() {
		var v T
		if err := dec.Decode(&v); err != nil {
			return nil, err
		}
		ret = append(ret, v)
	}
	return ret, nil
}

type ndWriter struct {
	f *os.File
	w *bufio.Writer
	e *json.Encoder
}

func newNDWriter(path string) (*ndWriter, error) {
	f, err := os.Create(path)
	if err != nil {
		return nil, err
	}
	w := bufio.NewWriterSize(f, 1<<20)
	return &ndWriter{f, w, json.NewEncoder(w)}, nil
}

func (w *ndWriter) Write(v any) error { return w.e.Encode(v) }
func (w *ndWriter) Close() error {
	if err := w.w.Flush(); err != nil {
		return err
	}
	return w.f.Close()
}

// ints returns a non-nil copy (JSON [] instead of null, which TLC's Json module cannot index).
func ints(s []int) []int {
	if s == nil {
		return []int{}
	}
	return s
}

func b64(s string) string { return base64.StdEncoding.EncodeToString([]byte(s)) }

func jsonMarshal(v any) string {
	b, err := json.Marshal(v)
	if err != nil {
		panic(err)
	}
	return string(b)
}

func jsonUnmarshal(s string, v any) error { return json.Unmarshal([]byte(s), v) }

// renderOnly makes the random grammar generators stop after rendering the .tm text (no in-process compilation):
// used to feed the texts to the crash check, which compiles them in sub-processes.
var renderOnly = os.Getenv("VERIF_RENDER_ONLY") != ""

func init() { register("tm-texts", tmTexts) }

// tm-texts <ndjson with a tmtext field per line> <outdir> <prefix>: one .tm file per record
func tmTexts(args []string) error {
	recs, err := readNDJSON[map[string]any](args[0])
	if err != nil {
		return err
	}
	if err := os.MkdirAll(args[1], 0o755); err != nil {
		return err
	}
	for i, r := range recs {
		t, _ := r["tmtext"].(string)
		if t == "" {
			continue
		}
		if err := os.WriteFile(fmt.Sprintf("%s/%s%04d.tm", args[1], args[2], i), []byte(t), 0o644); err != nil {
			return err
		}
	}
	return nil
}
