package main

import (
	"context"
	"fmt"
	"os"
	"path/filepath"
	"regexp"
	"strings"

	"github.com/inspirer/textmapper/compiler"
	"github.com/inspirer/textmapper/grammar"
)

func init() {
	register("tm-tables", tmTables)
}

var tableOptRE = regexp.MustCompile(`(?m)^(optimizeTables|minimizeDFA|defaultReduce)\s*=.*\n`)
var languageRE = regexp.MustCompile(`(?m)^language [^\n]*;\n`)

// withTableOptions rewrites the option header of a .tm text.
func withTableOptions(text string, opts map[string]bool) string {
	text = tableOptRE.ReplaceAllString(text, "")
	loc := languageRE.FindStringIndex(text)
	if loc == nil {
		return text
	}
	var sb strings.Builder
	sb.WriteString(text[:loc[1]])
	sb.WriteString("\n")
	for _, k := range []string{"optimizeTables", "minimizeDFA", "defaultReduce"} {
		if opts[k] {
			fmt.Fprintf(&sb, "%s = true\n", k)
		}
	}
	sb.WriteString(text[loc[1]:])
	return sb.String()
}

func compileTM(path, text string) (*grammar.Grammar, error) {
	return compiler.Compile(context.Background(), path, text, compiler.Params{})
}

func repoDir() string {
	if d := os.Getenv("VERIF_REPO"); d != "" {
		return d
	}
	return "/repo"
}

var shippedGrammars = []string{"parsers/json/json.tm", "parsers/simple/simple.tm", "parsers/test/test.tm", "parsers/tm/textmapper.tm", "parsers/js/js.tm"}

// tm-tables <out.ndjson> [min]: shipped grammars compiled through compiler.Compile with the table options
// switched: default encoding, optimizeTables, optimizeTables+defaultReduce (and minimizeDFA).
func tmTables(args []string) error {
	w, err := newNDWriter(args[0])
	if err != nil {
		return err
	}
	withMin := len(args) > 1 && args[1] == "min"
	for id, rel := range shippedGrammars {
		if os.Getenv("VERIF_SKIP_JS") == "1" && strings.Contains(rel, "/js/") {
			continue
		}
		path := filepath.Join(repoDir(), rel)
		b, err := os.ReadFile(path)
		if err != nil {
			return err
		}
		text := string(b)
		g, err := compileTM(path, withTableOptions(text, nil))
		if err != nil || g.Parser == nil || g.Parser.Tables == nil {
			return fmt.Errorf("%s does not compile: %v", rel, err)
		}
		c := &jsLalrCase{}
		c.ID, c.Tag = id, rel
		c.NT = g.Parser.NumTerminals
		c.NS = len(g.Syms)
		c.normalize()
		c.Rules, c.Inputs = []jsRule{}, []jsInput{}
		for _, r := range g.Parser.Rules {
			ty := r.Type
			c.Rules = append(c.Rules, jsRule{LHS: int(r.LHS), RHS: []int{}, Action: r.Action, Type: &ty, Flags: append([]string{}, r.Flags...)})
		}
		for _, in := range g.Parser.Inputs {
			c.Inputs = append(c.Inputs, jsInput{NT: g.Parser.NumTerminals + in.Nonterm, Eoi: !in.NoEoi})
		}
		c.normalize() // no JSON nulls: TLC's Json module rejects them
		c.T = dumpTables(g.Parser.Tables, nil)
		c.Compiles = []jsCompile{}
		if g.Parser.Tables.UsedLADepth > 0 {
			// lalr(k) chains cannot be packed (Optimize exits the process): outside C05, see C17.
			continue
		}
		g2, err := compileTM(path, withTableOptions(text, map[string]bool{"optimizeTables": true}))
		if err != nil {
			return fmt.Errorf("%s +optimizeTables: %v", rel, err)
		}
		c.Opt = dumpOpt(g2.Parser.Tables.Optimized)
		g3, err := compileTM(path, withTableOptions(text, map[string]bool{"optimizeTables": true, "defaultReduce": true}))
		if err != nil {
			return fmt.Errorf("%s +defaultReduce: %v", rel, err)
		}
		c.OptDR = dumpOpt(g3.Parser.Tables.Optimized)
		if withMin {
			g4, err := compileTM(path, withTableOptions(text, map[string]bool{"minimizeDFA": true}))
			if err != nil {
				return fmt.Errorf("%s +minimizeDFA: %v", rel, err)
			}
			c.Min = dumpTables(g4.Parser.Tables, nil)
			for _, r := range g4.Parser.Rules {
				_ = r
			}
		}
		if err := w.Write(c); err != nil {
			return err
		}
	}
	return w.Close()
}
