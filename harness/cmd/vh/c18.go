package main

import (
	"context"
	"crypto/sha256"
	"encoding/hex"
	"fmt"
	"os"
	"path/filepath"
	"sort"
	"strconv"
	"strings"

	"github.com/inspirer/textmapper/compiler"
	"github.com/inspirer/textmapper/gen"
)

func init() {
	register("c18-history", c18History)
}

type mapWriter struct{ files map[string]string }

func (w *mapWriter) Write(filename, content string) error {
	w.files[filename] = content
	return nil
}

type c18Step struct {
	Proc    string   `json:"proc"` // process label (GOMAXPROCS, history)
	Step    int      `json:"step"`
	Grammar string   `json:"grammar"`
	Err     string   `json:"err"`
	Files   []string `json:"files"`
	Hashes  []string `json:"hashes"`
	OnDisk  []bool   `json:"onDisk"` // shipped grammars: generated content equals the committed file
	Shipped bool     `json:"shipped"`
}

// generate one grammar text in this process and hash every written file.
func c18Generate(name, path, text string, shippedDir string) c18Step {
	st := c18Step{Grammar: name, Files: []string{}, Hashes: []string{}, OnDisk: []bool{}, Shipped: shippedDir != ""}
	g, err := compiler.Compile(context.Background(), path, text, compiler.Params{})
	if err != nil {
		st.Err = "compile: " + truncate(err.Error(), 200)
		return st
	}
	w := &mapWriter{files: map[string]string{}}
	if err := gen.Generate(g, w, gen.Options{}); err != nil {
		st.Err = "generate: " + truncate(err.Error(), 200)
	}
	var names []string
	for n := range w.files {
		names = append(names, n)
	}
	sort.Strings(names)
	for _, n := range names {
		h := sha256.Sum256([]byte(w.files[n]))
		st.Files = append(st.Files, n)
		st.Hashes = append(st.Hashes, hex.EncodeToString(h[:8]))
		if shippedDir != "" {
			disk, err := os.ReadFile(filepath.Join(shippedDir, n))
			st.OnDisk = append(st.OnDisk, err == nil && string(disk) == w.files[n])
		}
	}
	return st
}

// c18-history <label> <out.ndjson> <repeat> <grammar-spec>...: a history of generations inside ONE process.
// grammar-spec: "shipped:<rel path>" or "file:<path to .tm>".
func c18History(args []string) error {
	label := args[0]
	repeat, _ := strconv.Atoi(args[2])
	w, err := newNDWriter(args[1])
	if err != nil {
		return err
	}
	step := 0
	for r := 0; r < repeat; r++ {
		for _, spec := range args[3:] {
			kind, p, _ := strings.Cut(spec, ":")
			var st c18Step
			switch kind {
			case "shipped":
				path := filepath.Join(repoDir(), p)
				b, err := os.ReadFile(path)
				if err != nil {
					return err
				}
				st = c18Generate(p, path, string(b), filepath.Dir(path))
			default:
				b, err := os.ReadFile(p)
				if err != nil {
					return err
				}
				name := filepath.Base(p)
				if strings.Contains(p, "/testing/") {
					name = p[strings.Index(p, "/testing/")+1:] // testing/cpp/json/json.tm and testing/cpp/json_flex/json.tm share a base name
				}
				st = c18Generate(name, p, string(b), "")
			}
			st.Proc, st.Step = label, step
			step++
			if err := w.Write(st); err != nil {
				return err
			}
		}
	}
	fmt.Fprintln(os.Stderr, "c18-history", label, step, "generations")
	return w.Close()
}
