package main

import (
	"fmt"
	"math/rand"
	"os"
	"regexp"
	"strconv"
	"strings"
)

func init() {
	register("c14-run", c14Run)
	register("c14-random", c14Random)
}

type tpArg struct {
	Name string `json:"name"`
	V    string `json:"v"` // true false from
	From string `json:"from"`
	Bare bool   `json:"bare"` // written as 'X' alone (pass-through by name)
}

type tpPred struct {
	K    string    `json:"k"` // p not eq ne and or
	Name string    `json:"name"`
	V    string    `json:"v"`
	Sub  []*tpPred `json:"sub"`
}

type tpExpr struct {
	K    string    `json:"k"` // t ref seq alt opt list cond
	S    int       `json:"s"`
	N    int       `json:"n"`
	Args []tpArg   `json:"args"`
	Sub  []*tpExpr `json:"sub"`
	Plus bool      `json:"plus"`
	Pred *tpPred   `json:"pred"`
}

type tpDecl struct {
	Name   string `json:"name"`
	Inline bool   `json:"inline"`
	HasDef bool   `json:"hasDef"`
	Def    bool   `json:"def"`
}

type tpNonterm struct {
	Decl []tpDecl `json:"decl"`
	E    *tpExpr  `json:"e"`
}

type tpSrc struct {
	LA  []string    `json:"la"`
	Nts []tpNonterm `json:"nts"`
}

type tpParam struct {
	Name   string `json:"name"`
	LA     bool   `json:"la"`
	HasDef bool   `json:"hasDef"`
	Def    bool   `json:"def"`
}

type tpInst struct {
	Sym int      `json:"sym"`
	N   int      `json:"n"`
	S   []string `json:"S"`
}

type c14Case struct {
	ID      int       `json:"id"`
	NTerms  int       `json:"nterms"`
	Params  []tpParam `json:"params"`
	Src     tpSrc     `json:"src"`
	InputNs []int     `json:"inputNs"`
	L       int       `json:"L"`
	Orig    string    `json:"orig"`

	Text      string    `json:"tmtext"`
	Err       string    `json:"err"`
	UninitErr bool      `json:"uninitErr"`
	Crash     bool      `json:"crash"`
	G         sgGrammar `json:"g"`
	Inputs    []tpInst  `json:"inputs"`
	Instances []tpInst  `json:"instances"`
}

func (p *tpPred) render() string {
	switch p.K {
	case "p":
		return p.Name
	case "not":
		return "!" + p.Name
	case "eq":
		return p.Name + " == \"" + p.V + "\""
	case "ne":
		return p.Name + " != \"" + p.V + "\""
	case "and", "or":
		var parts []string
		for _, s := range p.Sub {
			parts = append(parts, s.render())
		}
		if p.K == "and" {
			return strings.Join(parts, " && ")
		}
		return strings.Join(parts, " || ")
	}
	panic("bad pred " + p.K)
}

func (e *tpExpr) renderAlts() string {
	var p []string
	for _, s := range e.Sub {
		if s.K == "cond" {
			p = append(p, "["+s.Pred.render()+"] "+s.Sub[0].renderSeqBody())
		} else {
			p = append(p, s.renderSeqBody())
		}
	}
	return strings.Join(p, " | ")
}

// the body of one alternative
func (e *tpExpr) renderSeqBody() string {
	if e.K == "seq" {
		var p []string
		for _, s := range e.Sub {
			p = append(p, s.render())
		}
		return strings.Join(p, " ")
	}
	return e.render()
}

func (e *tpExpr) render() string {
	switch e.K {
	case "t":
		return termName(e.S)
	case "eps":
		return "%empty"
	case "ref":
		if len(e.Args) == 0 {
			return sgName(e.N)
		}
		var p []string
		for _, a := range e.Args {
			switch {
			case a.Bare:
				p = append(p, a.Name)
			case a.V == "from":
				p = append(p, a.Name+": "+a.From)
			case a.V == "true" && len(a.Name)%2 == 0:
				p = append(p, "+"+a.Name)
			case a.V == "false" && len(a.From)%2 == 0:
				p = append(p, "~"+a.Name)
			default:
				p = append(p, a.Name+": "+a.V)
			}
		}
		return sgName(e.N) + "<" + strings.Join(p, ", ") + ">"
	case "seq":
		return "(" + e.renderSeqBody() + ")"
	case "alt":
		return "(" + e.renderAlts() + ")"
	case "opt":
		return e.Sub[0].renderPrimary() + "?"
	case "list":
		q := "*"
		if e.Plus {
			q = "+"
		}
		if len(e.Sub) == 2 {
			return "(" + e.Sub[0].renderSeqBody() + " separator " + e.Sub[1].render() + ")" + q
		}
		return e.Sub[0].renderPrimary() + q
	}
	panic("bad template node " + e.K)
}

func (e *tpExpr) renderPrimary() string {
	if e.K == "opt" || e.K == "list" {
		return "(" + e.render() + ")"
	}
	return e.render()
}

func (e *tpExpr) rewrite(byName map[string]int) {
	if e.K == "t" && byName != nil {
		e.S = byName[termName(e.S)]
	}
	if e.Args == nil {
		e.Args = []tpArg{}
	}
	if e.Sub == nil {
		e.Sub = []*tpExpr{}
	}
	if e.Pred == nil {
		e.Pred = &tpPred{K: "and"}
	}
	e.Pred.normalize()
	for _, s := range e.Sub {
		s.rewrite(byName)
	}
}

func (p *tpPred) normalize() {
	if p.Sub == nil {
		p.Sub = []*tpPred{}
	}
	for _, s := range p.Sub {
		s.normalize()
	}
}

var instName = regexp.MustCompile(`^N(\d+)((?:_[A-Z]+)*)$`)

func c14Exec(c *c14Case) {
	if c.Orig != "" {
		var in c14Case
		if err := jsonUnmarshal(c.Orig, &in); err != nil {
			panic(err)
		}
		*c = in
	}
	c.Orig = jsonMarshal(c)
	c.Inputs, c.Instances = []tpInst{}, []tpInst{}
	c.G.Rules = []jsRule{}
	defer func() {
		if r := recover(); r != nil {
			c.Err = fmt.Sprint("panic: ", r)
			c.Crash = true
		}
		for i := range c.Src.Nts {
			c.Src.Nts[i].E.rewrite(nil)
			if c.Src.Nts[i].Decl == nil {
				c.Src.Nts[i].Decl = []tpDecl{}
			}
		}
		if c.Src.LA == nil {
			c.Src.LA = []string{}
		}
	}()
	var b strings.Builder
	b.WriteString("language sg(go);\n\neventBased = true\n\n:: lexer\n\nWS: /[ \\n]+/ (space)\n")
	for t := 1; t <= c.NTerms; t++ {
		fmt.Fprintf(&b, "%s: /%s/\n", termName(t), termChar(t))
	}
	b.WriteString("\n:: parser\n\n")
	for _, p := range c.Params {
		if p.LA {
			b.WriteString("%lookahead flag " + p.Name)
		} else {
			b.WriteString("%flag " + p.Name)
		}
		if p.HasDef {
			fmt.Fprintf(&b, " = %v", p.Def)
		}
		b.WriteString(";\n")
	}
	b.WriteString("\n%input ")
	for i, n := range c.InputNs {
		if i > 0 {
			b.WriteString(", ")
		}
		b.WriteString(sgName(n))
	}
	b.WriteString(";\n\n")
	for i, nt := range c.Src.Nts {
		b.WriteString(sgName(i))
		if len(nt.Decl) > 0 {
			var p []string
			for _, d := range nt.Decl {
				if d.Inline {
					s := "flag " + d.Name
					if d.HasDef {
						s += fmt.Sprintf(" = %v", d.Def)
					}
					p = append(p, s)
				} else {
					p = append(p, d.Name)
				}
			}
			b.WriteString("<" + strings.Join(p, ", ") + ">")
		}
		body := ""
		switch nt.E.K {
		case "alt":
			body = nt.E.renderAlts()
		case "cond":
			body = "[" + nt.E.Pred.render() + "] " + nt.E.Sub[0].renderSeqBody()
		default:
			body = nt.E.renderSeqBody()
		}
		fmt.Fprintf(&b, " :\n    %s\n;\n\n", body)
	}
	c.Text = b.String()
	if renderOnly {
		return
	}
	if f := os.Getenv("VERIF_LASTTEXT"); f != "" {
		os.WriteFile(f, []byte(c.Text), 0644)
	}
	g, errMsg, _ := sgCompile(c.Text)
	c.Err = errMsg
	c.UninitErr = strings.Contains(errMsg, "uninitialized parameters")
	if g == nil || g.Parser == nil || len(g.Parser.Rules) == 0 {
		if c.Err == "" {
			c.Err = "no expanded rules available"
		}
		return
	}
	if c.Err != "" {
		// other messages may hide an 'uninitialized parameters' one: look at all of them
		return
	}
	byName := dumpSG(g, &c.G)
	for i := range c.Src.Nts {
		c.Src.Nts[i].E.rewrite(byName)
	}
	for _, n := range c.InputNs {
		c.Inputs = append(c.Inputs, tpInst{Sym: byName[sgName(n)], N: n, S: []string{}})
	}
	for i, s := range g.Syms {
		if i < g.Parser.NumTerminals {
			continue
		}
		if m := instName.FindStringSubmatch(s.Name); m != nil {
			n, _ := strconv.Atoi(m[1])
			inst := tpInst{Sym: i, N: n, S: []string{}}
			if m[2] != "" {
				inst.S = strings.Split(m[2][1:], "_")
			}
			c.Instances = append(c.Instances, inst)
		}
	}
}

func c14Run(args []string) error {
	cases, err := readNDJSON[c14Case](args[0])
	if err != nil {
		return err
	}
	w, err := newNDWriter(args[1])
	if err != nil {
		return err
	}
	for i := range cases {
		c := &cases[i]
		c14Exec(c)
		if err := w.Write(c); err != nil {
			return err
		}
	}
	return w.Close()
}

type tpGen struct {
	r      *rand.Rand
	c      *c14Case
	nterms int
	la     []string
}

func (g *tpGen) names(M int) []string {
	var ret []string
	for _, d := range g.c.Src.Nts[M].Decl {
		ret = append(ret, d.Name)
	}
	if M == 0 { // the input cannot receive lookahead flags
		return ret
	}
	return append(ret, g.la...)
}

func (g *tpGen) prim(M int) *tpPred {
	ns := g.names(M)
	name := ns[g.r.Intn(len(ns))]
	switch g.r.Intn(6) {
	case 0, 1, 2:
		return &tpPred{K: "p", Name: name}
	case 3:
		return &tpPred{K: "not", Name: name}
	case 4:
		return &tpPred{K: "eq", Name: name, V: []string{"true", "false"}[g.r.Intn(2)]}
	default:
		return &tpPred{K: "ne", Name: name, V: []string{"true", "false"}[g.r.Intn(2)]}
	}
}

func (g *tpGen) pred(M int) *tpPred {
	and := func() *tpPred {
		if g.r.Intn(3) > 0 {
			return g.prim(M)
		}
		return &tpPred{K: "and", Sub: []*tpPred{g.prim(M), g.prim(M)}}
	}
	if g.r.Intn(4) > 0 {
		return and()
	}
	return &tpPred{K: "or", Sub: []*tpPred{and(), and()}}
}

func (g *tpGen) ref(M int) *tpExpr {
	r := g.r
	T := r.Intn(len(g.c.Src.Nts))
	e := &tpExpr{K: "ref", N: T}
	mine := map[string]bool{}
	for _, d := range g.c.Src.Nts[M].Decl {
		mine[d.Name] = true
	}
	ns := g.names(M)
	for _, d := range g.c.Src.Nts[T].Decl {
		x := r.Intn(10)
		switch {
		case x < 4:
			e.Args = append(e.Args, tpArg{Name: d.Name, V: []string{"true", "false"}[r.Intn(2)], From: []string{"", "x"}[r.Intn(2)]})
		case x < 6 && len(ns) > 0:
			e.Args = append(e.Args, tpArg{Name: d.Name, V: "from", From: ns[r.Intn(len(ns))]})
		case x < 7 && mine[d.Name]:
			e.Args = append(e.Args, tpArg{Name: d.Name, V: "from", From: d.Name, Bare: true})
		default:
			if !mine[d.Name] && !d.HasDef && r.Intn(8) > 0 {
				e.Args = append(e.Args, tpArg{Name: d.Name, V: []string{"true", "false"}[r.Intn(2)]})
			}
		}
	}
	for _, l := range g.la {
		if T != 0 && (r.Intn(3) == 0 || M == 0 && r.Intn(4) > 0) {
			e.Args = append(e.Args, tpArg{Name: l, V: []string{"true", "false"}[r.Intn(2)], From: []string{"", "x"}[r.Intn(2)]})
		}
	}
	if r.Intn(3) == 0 {
		r.Shuffle(len(e.Args), func(i, j int) { e.Args[i], e.Args[j] = e.Args[j], e.Args[i] })
	}
	return e
}

func (g *tpGen) expr(M, d int) *tpExpr {
	r := g.r
	if d == 0 || r.Intn(4) == 0 {
		if r.Intn(2) == 0 {
			return &tpExpr{K: "t", S: 1 + r.Intn(g.nterms)}
		}
		return g.ref(M)
	}
	switch r.Intn(7) {
	case 0, 1, 2:
		n := 2 + r.Intn(2)
		e := &tpExpr{K: "seq"}
		for i := 0; i < n; i++ {
			s := g.expr(M, d-1)
			if s.K == "seq" { // no directly nested sequences: flatten
				e.Sub = append(e.Sub, s.Sub...)
			} else {
				e.Sub = append(e.Sub, s)
			}
		}
		return e
	case 3, 4:
		return g.alt(M, d)
	case 5:
		s := g.expr(M, d-1)
		if s.K == "opt" {
			return s
		}
		return &tpExpr{K: "opt", Sub: []*tpExpr{s}}
	default:
		e := &tpExpr{K: "list", Plus: r.Intn(3) > 0, Sub: []*tpExpr{g.expr(M, d-1)}}
		if r.Intn(3) == 0 {
			e.Sub = append(e.Sub, &tpExpr{K: "t", S: 1 + r.Intn(g.nterms)})
		}
		return e
	}
}

func (g *tpGen) alt(M, d int) *tpExpr {
	r := g.r
	n := 1 + r.Intn(3)
	e := &tpExpr{K: "alt"}
	for i := 0; i < n; i++ {
		s := g.expr(M, d-1)
		if s.K == "alt" {
			s = &tpExpr{K: "seq", Sub: []*tpExpr{s, {K: "t", S: 1 + r.Intn(g.nterms)}}}
		}
		if len(g.names(M)) > 0 && r.Intn(2) == 0 {
			s = &tpExpr{K: "cond", Pred: g.pred(M), Sub: []*tpExpr{s}}
		}
		e.Sub = append(e.Sub, s)
	}
	if r.Intn(5) == 0 { // an empty alternative, mostly guarded
		var s *tpExpr = &tpExpr{K: "eps"}
		if len(g.names(M)) > 0 && r.Intn(3) > 0 {
			s = &tpExpr{K: "cond", Pred: g.pred(M), Sub: []*tpExpr{s}}
		}
		e.Sub = append(e.Sub, s)
		if r.Intn(2) == 0 {
			k := len(e.Sub) - 1
			j := r.Intn(len(e.Sub))
			e.Sub[k], e.Sub[j] = e.Sub[j], e.Sub[k]
		}
	}
	return e
}

// c14-random <n> <out> <L>
func c14Random(args []string) error {
	n, _ := strconv.Atoi(args[0])
	L, _ := strconv.Atoi(args[2])
	seed, _ := strconv.ParseInt(os.Getenv("VERIF_SEED"), 10, 64)
	r := rand.New(rand.NewSource(seed*32452843 + 14))
	w, err := newNDWriter(args[1])
	if err != nil {
		return err
	}
	for id := 0; id < n; id++ {
		c := &c14Case{ID: id, NTerms: 2 + r.Intn(2), L: L}
		g := &tpGen{r: r, c: c, nterms: c.NTerms}
		nglob := 1 + r.Intn(3)
		for i := 0; i < nglob; i++ {
			c.Params = append(c.Params, tpParam{Name: "P" + string(rune('A'+i)), HasDef: r.Intn(10) < 7, Def: r.Intn(2) == 0})
		}
		if r.Intn(3) == 0 {
			c.Params = append(c.Params, tpParam{Name: "LA", LA: true})
			g.la = append(g.la, "LA")
			if r.Intn(3) == 0 {
				c.Params = append(c.Params, tpParam{Name: "LB", LA: true})
				g.la = append(g.la, "LB")
			}
		}
		c.Src.LA = append([]string{}, g.la...)
		nnts := 2 + r.Intn(3)
		c.Src.Nts = make([]tpNonterm, nnts)
		for i := 1; i < nnts; i++ {
			for _, p := range c.Params {
				if !p.LA && r.Intn(2) == 0 {
					c.Src.Nts[i].Decl = append(c.Src.Nts[i].Decl, tpDecl{Name: p.Name, HasDef: p.HasDef, Def: p.Def})
				}
			}
			if r.Intn(4) == 0 {
				c.Src.Nts[i].Decl = append(c.Src.Nts[i].Decl, tpDecl{Name: "I" + string(rune('A'+r.Intn(2))), Inline: true, HasDef: r.Intn(5) > 0, Def: r.Intn(2) == 0})
			}
		}
		for i := 0; i < nnts; i++ {
			if r.Intn(3) > 0 {
				c.Src.Nts[i].E = g.alt(i, 1+r.Intn(3))
			} else {
				c.Src.Nts[i].E = g.expr(i, 1+r.Intn(3))
			}
		}
		c.InputNs = []int{0}
		c14Exec(c)
		if err := w.Write(c); err != nil {
			return err
		}
	}
	return w.Close()
}
