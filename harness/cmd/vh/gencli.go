package main

import (
	"bytes"
	"context"
	"fmt"
	"os"
	"os/exec"
	"path/filepath"
	"strings"
	"sync"

	"github.com/inspirer/textmapper/gen"
)

// gencli-run <histories.ndjson> <grammar.tm> <textmapper binary> <work dir> <out.ndjson>
// Histories of GenCLI.tla (write / diff / edit f / delete f) replayed with the real binary in scratch directories.

func init() { register("gencli-run", genCLIRun) }

type gcStep struct {
	Op string `json:"op"`
	F  int    `json:"f"`
}

type gcObs struct {
	Exit      int      `json:"exit"`
	Differs   []int    `json:"differs"`
	Disk      []string `json:"disk"`
	ForeignOk bool     `json:"foreignOk"`
	Note      string   `json:"note,omitempty"`
}

type gcCase struct {
	Steps []gcStep `json:"steps"`
	Obs   []gcObs  `json:"obs"`
	Crash string   `json:"crash"`
}

type gcRecorder struct {
	names    []string
	contents map[string]string
}

func (r *gcRecorder) Write(name, content string) error {
	r.names = append(r.names, name)
	r.contents[name] = content
	return nil
}

const gcForeign = "these notes are not generated\n"

func genCLIRun(args []string) error {
	cases, err := readNDJSON[gcCase](args[0])
	if err != nil {
		return err
	}
	grammar, err := os.ReadFile(args[1])
	if err != nil {
		return err
	}
	bin, work := args[2], args[3]
	// the oracle: what the generator writes for this grammar, in order (in-process, recording writer)
	odir := filepath.Join(work, "oracle")
	os.MkdirAll(odir, 0o755)
	opath := filepath.Join(odir, "g.tm")
	os.WriteFile(opath, grammar, 0o644)
	rec := &gcRecorder{contents: map[string]string{}}
	if _, err := gen.GenerateFile(context.Background(), opath, rec, gen.Options{}); err != nil {
		return fmt.Errorf("oracle generation failed: %v", err)
	}
	n := len(rec.names)
	if n < 4 {
		return fmt.Errorf("the grammar generates only %d files", n)
	}
	model := []string{rec.names[0], rec.names[1], rec.names[2], rec.names[n-1]} // specification files 1..4
	idx := map[string]int{}
	for i, m := range model {
		idx[m] = i + 1
	}
	state := func(dir, name string) string {
		b, err := os.ReadFile(filepath.Join(dir, name))
		switch {
		case err != nil:
			return "absent"
		case string(b) == rec.contents[name]:
			return "gen"
		}
		return "edited"
	}
	runOne := func(id int, c *gcCase) {
		dir := filepath.Join(work, fmt.Sprintf("h%d", id))
		defer os.RemoveAll(dir)
		if err := os.MkdirAll(dir, 0o755); err != nil {
			c.Crash = err.Error()
			return
		}
		os.WriteFile(filepath.Join(dir, "g.tm"), grammar, 0o644)
		os.WriteFile(filepath.Join(dir, "notes.txt"), []byte(gcForeign), 0o644)
		written := false
		for _, s := range c.Steps {
			o := gcObs{Differs: []int{}, Disk: []string{}}
			switch s.Op {
			case "write", "diff":
				a := []string{"generate"}
				if s.Op == "diff" {
					a = append(a, "-diff")
				} else {
					written = true
				}
				cmd := exec.Command(bin, a...)
				cmd.Dir = dir
				var so, se bytes.Buffer
				cmd.Stdout, cmd.Stderr = &so, &se
				err := cmd.Run()
				if ee, ok := err.(*exec.ExitError); ok {
					o.Exit = ee.ExitCode()
					if o.Exit < 0 || strings.Contains(se.String(), "panic:") || strings.Contains(se.String(), "goroutine ") {
						c.Crash = "generate died: " + truncate(se.String(), 300)
					}
				} else if err != nil {
					c.Crash = err.Error()
				}
				for _, l := range strings.Split(so.String(), "\n") {
					if strings.HasPrefix(l, "--- ") {
						name := strings.TrimSpace(strings.TrimPrefix(l, "--- "))
						if k, ok := idx[name]; ok {
							o.Differs = append(o.Differs, k)
						} else {
							o.Note += "reported " + name + "; "
							o.Differs = append(o.Differs, 99)
						}
					}
				}
			case "edit":
				p := filepath.Join(dir, model[s.F-1])
				os.MkdirAll(filepath.Dir(p), 0o755)
				b, _ := os.ReadFile(p)
				os.WriteFile(p, append(b, []byte("\n// edited by hand\n")...), 0o644)
			case "delete":
				os.Remove(filepath.Join(dir, model[s.F-1]))
			}
			for _, m := range model {
				o.Disk = append(o.Disk, state(dir, m))
			}
			// everything else: the foreign file and the grammar intact, the other generated files all absent (nothing written yet) or as generated
			o.ForeignOk = true
			if b, _ := os.ReadFile(filepath.Join(dir, "notes.txt")); string(b) != gcForeign {
				o.ForeignOk, o.Note = false, o.Note+"notes.txt changed; "
			}
			if b, _ := os.ReadFile(filepath.Join(dir, "g.tm")); !bytes.Equal(b, grammar) {
				o.ForeignOk, o.Note = false, o.Note+"grammar changed; "
			}
			for _, name := range rec.names {
				if _, ok := idx[name]; ok {
					continue
				}
				want := "absent"
				if written {
					want = "gen"
				}
				if got := state(dir, name); got != want {
					o.ForeignOk, o.Note = false, o.Note+fmt.Sprintf("%s is %s; ", name, got)
				}
			}
			known := map[string]bool{"g.tm": true, "notes.txt": true}
			for _, name := range rec.names {
				known[name] = true
			}
			filepath.Walk(dir, func(p string, fi os.FileInfo, err error) error {
				if err == nil && !fi.IsDir() {
					if rel, _ := filepath.Rel(dir, p); !known[filepath.ToSlash(rel)] {
						o.ForeignOk, o.Note = false, o.Note+"unexpected file "+rel+"; "
					}
				}
				return nil
			})
			c.Obs = append(c.Obs, o)
		}
	}
	var wg sync.WaitGroup
	sem := make(chan struct{}, 12)
	for i := range cases {
		cases[i].Obs = []gcObs{}
		wg.Add(1)
		sem <- struct{}{}
		go func(i int) {
			defer func() { <-sem; wg.Done() }()
			runOne(i, &cases[i])
		}(i)
	}
	wg.Wait()
	w, err := newNDWriter(args[4])
	if err != nil {
		return err
	}
	for i := range cases {
		if err := w.Write(&cases[i]); err != nil {
			return err
		}
	}
	return w.Close()
}
