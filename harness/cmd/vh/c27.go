package main

import (
	"fmt"
	"math/rand"
	"os"
	"regexp"
	"strconv"
	"strings"

	"github.com/inspirer/textmapper/util/diff"
)

func init() {
	register("c27-run", c27Run)
	register("c27-random", c27Random)
}

type c27Line struct {
	C    string `json:"c"`
	T    int    `json:"t"`
	Skip int    `json:"skip"`
}

type c27Hunk struct {
	LL    int       `json:"ll"`
	LS    int       `json:"ls"`
	RL    int       `json:"rl"`
	RS    int       `json:"rs"`
	Lines []c27Line `json:"lines"`
}

type c27Case struct {
	ID int   `json:"id"`
	A  []int `json:"a"`
	B  []int `json:"b"`

	Empty      bool      `json:"empty"`
	Hunks      []c27Hunk `json:"hunks"`
	ParseError string    `json:"parseError"`
	Crash      string    `json:"crash,omitempty"`
}

// Line identifiers are rendered as short distinct strings; id 0 is the empty line so that
// texts with empty lines (and the empty text) are inside the universe.
func c27LineText(id int) string {
	if id == 0 {
		return ""
	}
	return "L" + strconv.Itoa(id)
}

func c27Text(ids []int) string {
	var parts []string
	for _, id := range ids {
		parts = append(parts, c27LineText(id))
	}
	return strings.Join(parts, "\n")
}

var c27Header = regexp.MustCompile(`^@@ -(\d+),(\d+) \+(\d+),(\d+) @@$`)
var c27Skipped = regexp.MustCompile(`^  \.\.\. (\d+) lines skipped \.\.\.$`)

// c27Parse is the (thin, trusted) parser of LineDiff's unified format.
func c27Parse(out string) ([]c27Hunk, string) {
	hunks := []c27Hunk{}
	if out == "" {
		return hunks, ""
	}
	if !strings.HasSuffix(out, "\n") {
		return hunks, "output does not end with a newline"
	}
	lines := strings.Split(strings.TrimSuffix(out, "\n"), "\n")
	for _, l := range lines {
		if m := c27Header.FindStringSubmatch(l); m != nil {
			var h c27Hunk
			h.LL, _ = strconv.Atoi(m[1])
			h.LS, _ = strconv.Atoi(m[2])
			h.RL, _ = strconv.Atoi(m[3])
			h.RS, _ = strconv.Atoi(m[4])
			h.Lines = []c27Line{}
			hunks = append(hunks, h)
			continue
		}
		if len(hunks) == 0 {
			return hunks, "text before the first hunk header: " + l
		}
		if l == "" || !strings.ContainsRune(" +-", rune(l[0])) {
			return hunks, "bad line intro: " + l
		}
		h := &hunks[len(hunks)-1]
		text := l[1:]
		if m := c27Skipped.FindStringSubmatch(text); m != nil {
			n, _ := strconv.Atoi(m[1])
			h.Lines = append(h.Lines, c27Line{C: l[:1], T: -1, Skip: n})
			continue
		}
		id := 0
		if text != "" {
			if !strings.HasPrefix(text, "L") {
				return hunks, "unknown line text: " + l
			}
			v, err := strconv.Atoi(text[1:])
			if err != nil {
				return hunks, "unknown line text: " + l
			}
			id = v
		}
		h.Lines = append(h.Lines, c27Line{C: l[:1], T: id})
	}
	return hunks, ""
}

func c27Exec(c *c27Case) {
	c.A, c.B = ints(c.A), ints(c.B)
	out := diff.LineDiff(c27Text(c.A), c27Text(c.B))
	c.Empty = out == ""
	c.Hunks, c.ParseError = c27Parse(out)
}

func c27Run(args []string) error {
	cases, err := readNDJSON[c27Case](args[0])
	if err != nil {
		return err
	}
	w, err := newNDWriter(args[1])
	if err != nil {
		return err
	}
	for i := range cases {
		c := &cases[i]
		c.ID = i
		c27Exec(c)
		if err := w.Write(c); err != nil {
			return err
		}
	}
	return w.Close()
}

// c27-random <n> <out>: edited copies of longer texts: several hunks (equal runs > 6 lines),
// unbalanced insert/delete, blocks > 14 lines (abbreviation), repeated lines.
func c27Random(args []string) error {
	n, _ := strconv.Atoi(args[0])
	seed, _ := strconv.ParseInt(os.Getenv("VERIF_SEED"), 10, 64)
	r := rand.New(rand.NewSource(seed*15485863 + 27))
	w, err := newNDWriter(args[1])
	if err != nil {
		return err
	}
	for id := 0; id < n; id++ {
		c := &c27Case{ID: id}
		alpha := 2 + r.Intn(20)
		la := r.Intn(14)
		if id%3 == 0 {
			la = 10 + r.Intn(50)
		}
		for i := 0; i < la; i++ {
			c.A = append(c.A, r.Intn(alpha))
		}
		switch id % 4 {
		case 0: // unrelated text
			lb := r.Intn(12)
			for i := 0; i < lb; i++ {
				c.B = append(c.B, r.Intn(alpha))
			}
		default: // edited copy
			c.B = append([]int{}, c.A...)
			edits := 1 + r.Intn(4)
			for e := 0; e < edits; e++ {
				pos := 0
				if len(c.B) > 0 {
					pos = r.Intn(len(c.B) + 1)
				}
				k := 1 + r.Intn(3)
				if r.Intn(12) == 0 {
					k = 15 + r.Intn(6)
				}
				switch r.Intn(3) {
				case 0: // insert
					ins := []int{}
					for i := 0; i < k; i++ {
						ins = append(ins, r.Intn(alpha+3))
					}
					c.B = append(c.B[:pos:pos], append(ins, c.B[pos:]...)...)
				case 1: // delete
					end := pos + k
					if end > len(c.B) {
						end = len(c.B)
					}
					c.B = append(c.B[:pos:pos], c.B[end:]...)
				default: // replace
					for i := pos; i < pos+k && i < len(c.B); i++ {
						c.B[i] = r.Intn(alpha + 3)
					}
				}
			}
		}
		if len(c.A) == 0 {
			c.A = []int{0}
		}
		if len(c.B) == 0 {
			c.B = []int{0}
		}
		c27Exec(c)
		if err := w.Write(c); err != nil {
			return err
		}
	}
	return w.Close()
}

var _ = fmt.Sprint
