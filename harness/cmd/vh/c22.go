package main

import (
	"bufio"
	"encoding/base64"
	"context"
	"encoding/json"
	"fmt"
	"io"
	"math/rand"
	"os"
	"os/exec"
	"path/filepath"
	"regexp"
	"sort"
	"strconv"
	"strings"
	"sync"
	"time"

	"github.com/inspirer/textmapper/compiler"
	"github.com/inspirer/textmapper/parsers/tm"
	"github.com/inspirer/textmapper/status"
)

func init() {
	register("c22-run", c22Run)
	register("c22-worker", c22Worker)
}

type c22Err struct {
	Off  int    `json:"off"`
	End  int    `json:"end"`
	Line int    `json:"line"`
	Col  int    `json:"col"`
	Msg  string `json:"msg"`
}

type c22Case struct {
	ID      int    `json:"id"`
	Seed    string `json:"seedFile"`
	Op      string `json:"op"`
	Text    string `json:"text"` // base64 in files
	Len     int    `json:"len"`
	Outcome string `json:"outcome"` // ok | errors | crash | hang
	Detail  string `json:"detail"`
	Errs    []c22Err `json:"errs"`
	// position facts derived from the text by the harness for TLC: offsets of line starts
	LineStarts []int `json:"lineStarts"`
}

// c22-worker: reads {"id","text"} lines, compiles, prints result lines. Dies on log.Fatal / os.Exit / panic.
func c22Worker(args []string) error {
	in := bufio.NewReaderSize(os.Stdin, 1<<22)
	dec := json.NewDecoder(in)
	out := bufio.NewWriter(os.Stdout)
	enc := json.NewEncoder(out)
	for dec.More() {
		var c c22Case
		if err := dec.Decode(&c); err != nil {
			return err
		}
		res := c22Case{ID: c.ID, Errs: []c22Err{}, Outcome: "ok"}
		raw, derr := base64.StdEncoding.DecodeString(c.Text)
		if derr != nil {
			return derr
		}
		_, err := compiler.Compile(context.Background(), "m.tm", string(raw), compiler.Params{CheckOnly: true})
		if se, ok := err.(tm.SyntaxError); ok {
			// the tm parser's own error type: line, offset and end offset, no column
			res.Outcome = "errors"
			res.Errs = append(res.Errs, c22Err{se.Offset, se.Endoffset, se.Line, -1, "syntax error"})
		} else if err != nil {
			res.Outcome = "errors"
			for _, e := range status.FromError(err) {
				if len(res.Errs) >= 40 {
					break
				}
				res.Errs = append(res.Errs, c22Err{e.Origin.Offset, e.Origin.EndOffset, e.Origin.Line, e.Origin.Column, truncate(e.Msg, 120)})
			}
		}
		enc.Encode(res)
		out.Flush()
	}
	return nil
}

// crashSummary keeps the fatal line and the first frames inside the repository.
func crashSummary(stderr string) string {
	var keep []string
	frames := 0
	for _, l := range strings.Split(stderr, "\n") {
		switch {
		case strings.HasPrefix(l, "panic:") || strings.HasPrefix(l, "fatal error:") || strings.Contains(l, "log.Fatal") || strings.HasPrefix(l, "runtime: goroutine stack exceeds"):
			keep = append(keep, l)
		case strings.HasPrefix(l, "github.com/inspirer/textmapper/") && frames < 3:
			if k := strings.LastIndexByte(l, '('); k > 0 {
				l = l[:k]
			}
			keep = append(keep, "  at "+l)
			frames++
		}
	}
	if len(keep) == 0 {
		lines := strings.Split(strings.TrimSpace(stderr), "\n")
		return "exit without panic: " + lines[len(lines)-1]
	}
	return strings.Join(keep, "\n")
}

var tokenRE = regexp.MustCompile(`[A-Za-z_][A-Za-z_0-9\-]*|'(?:[^'\\\n]|\\.)*'|"(?:[^"\\\n]|\\.)*"|/(?:[^/\\\n]|\\.)+/|[0-9]+|->|::|%[a-z\-]+|\(\?[=!]|\S`)

func mutate(r *rand.Rand, text string, pool []string) (string, string) {
	toks := tokenRE.FindAllStringIndex(text, -1)
	lines := strings.SplitAfter(text, "\n")
	nasty := []string{"\xff", "\x00", "/*", "{", "}", "'", "\"", "%%", "\xef\xbb\xbf", "\r", "é", "𝄞", "(?=", "[", "->", "::", "%input", "set(", "~", "<", ">", "$$", "\\"}
	pick := func() (int, int) {
		if len(toks) == 0 {
			return 0, 0
		}
		t := toks[r.Intn(len(toks))]
		return t[0], t[1]
	}
	switch op := r.Intn(12); op {
	case 0:
		a, b := pick()
		return text[:a] + text[b:], "delete-token"
	case 1:
		a, b := pick()
		return text[:b] + " " + text[a:b] + text[b:], "duplicate-token"
	case 2:
		a, b := pick()
		c, d := pick()
		if a > c {
			a, b, c, d = c, d, a, b
		}
		if b > c {
			return text[:a] + text[b:], "delete-token"
		}
		return text[:a] + text[c:d] + text[b:c] + text[a:b] + text[d:], "swap-tokens"
	case 3:
		a, b := pick()
		c, d := pick()
		return text[:a] + text[c:d] + text[b:], "replace-token-with-other"
	case 4:
		i := r.Intn(len(lines))
		return strings.Join(append(append([]string{}, lines[:i]...), lines[i+1:]...), ""), "delete-line"
	case 5:
		i := r.Intn(len(lines))
		return strings.Join(append(append(append([]string{}, lines[:i+1]...), lines[i]), lines[i+1:]...), ""), "duplicate-line"
	case 6:
		return text[:r.Intn(len(text)+1)], "truncate"
	case 7:
		p := r.Intn(len(text) + 1)
		return text[:p] + nasty[r.Intn(len(nasty))] + text[p:], "insert-nasty"
	case 8:
		a, b := pick()
		return text[:a] + nasty[r.Intn(len(nasty))] + text[b:], "replace-token-with-nasty"
	case 9: // splice a line from another grammar
		other := strings.SplitAfter(pool[r.Intn(len(pool))], "\n")
		i := r.Intn(len(lines))
		return strings.Join(append(append(append([]string{}, lines[:i]...), other[r.Intn(len(other))]), lines[i:]...), ""), "splice-foreign-line"
	case 10: // rename one identifier occurrence (dangling / wrongly-kinded references)
		ids := regexp.MustCompile(`[A-Za-z_][A-Za-z_0-9]*`).FindAllStringIndex(text, -1)
		if len(ids) < 2 {
			return text + "x", "append"
		}
		a := ids[r.Intn(len(ids))]
		b := ids[r.Intn(len(ids))]
		return text[:a[0]] + text[b[0]:b[1]] + text[a[1]:], "rename-identifier"
	default: // two mutations
		t1, o1 := mutate(r, text, pool)
		t2, o2 := mutate(r, t1, pool)
		return t2, o1 + "+" + o2
	}
}

// c22-run <n> <out.ndjson> [extra seed dir]: seeds = shipped grammars + compiler/testdata + corpus injectors
func c22Run(args []string) error {
	n, _ := strconv.Atoi(args[0])
	seed, _ := strconv.ParseInt(os.Getenv("VERIF_SEED"), 10, 64)
	r := rand.New(rand.NewSource(seed*2654435761 + 22))
	var files []string
	for _, pat := range []string{"parsers/*/*.tm", "compiler/testdata/*.tm", "compiler/testdata/*.tmerr"} {
		m, _ := filepath.Glob(filepath.Join(repoDir(), pat))
		files = append(files, m...)
	}
	var genFiles []string // "gen:<dir>": generated grammars, a quarter of the mutants start from them
	for _, dir := range args[2:] {
		if d, ok := strings.CutPrefix(dir, "gen:"); ok {
			m, _ := filepath.Glob(filepath.Join(d, "*.tm*"))
			sort.Strings(m)
			genFiles = append(genFiles, m...)
			continue
		}
		m, _ := filepath.Glob(filepath.Join(dir, "*.tm*"))
		files = append(files, m...)
	}
	sort.Strings(files)
	nOwn := len(files)
	files = append(files, genFiles...)
	var pool, names []string
	for _, f := range files {
		b, err := os.ReadFile(f)
		if err != nil {
			return err
		}
		if len(b) > 60000 {
			continue // js.tm: too slow per mutant for this budget; kept out of the mutation pool
		}
		pool = append(pool, string(b))
		names = append(names, strings.TrimPrefix(f, repoDir()+"/"))
	}
	var cases []c22Case
	for i, t := range pool { // unmutated seeds first
		cases = append(cases, c22Case{ID: len(cases), Seed: names[i], Op: "none", Text: t})
	}
	for len(cases) < n {
		i := r.Intn(len(pool))
		if nOwn < len(pool) && nOwn > 0 {
			if r.Intn(4) == 0 {
				i = nOwn + r.Intn(len(pool)-nOwn)
			} else {
				i = r.Intn(nOwn)
			}
		}
		t, op := mutate(r, pool[i], pool)
		cases = append(cases, c22Case{ID: len(cases), Seed: names[i], Op: op, Text: t})
	}
	// worker pool; a worker that dies marks its current case as a crash and is restarted
	self, _ := os.Executable()
	results := make([]*c22Case, len(cases))
	var mu sync.Mutex
	next := 0
	take := func() int {
		mu.Lock()
		defer mu.Unlock()
		if next >= len(cases) {
			return -1
		}
		next++
		return next - 1
	}
	var wg sync.WaitGroup
	for w := 0; w < 12; w++ {
		wg.Add(1)
		go func() {
			defer wg.Done()
			var cmd *exec.Cmd
			var stdin io.WriteCloser
			var rd *bufio.Reader
			var stderr *strings.Builder
			start := func() {
				cmd = exec.Command(self, "c22-worker")
				stdin, _ = cmd.StdinPipe()
				so, _ := cmd.StdoutPipe()
				stderr = &strings.Builder{}
				cmd.Stderr = stderr
				rd = bufio.NewReaderSize(so, 1<<20)
				cmd.Start()
			}
			start()
			for {
				i := take()
				if i < 0 {
					break
				}
				c := &cases[i]
				b, _ := json.Marshal(map[string]any{"id": c.ID, "text": base64.StdEncoding.EncodeToString([]byte(c.Text))})
				stdin.Write(append(b, '\n'))
				type rres struct {
					line string
					err  error
				}
				ch := make(chan rres, 1)
				go func() {
					l, err := rd.ReadString('\n')
					ch <- rres{l, err}
				}()
				res := &c22Case{ID: c.ID, Errs: []c22Err{}}
				select {
				case rr := <-ch:
					if rr.err != nil {
						cmd.Wait()
						res.Outcome = "crash"
						res.Detail = crashSummary(stderr.String())
						start()
					} else if err := json.Unmarshal([]byte(rr.line), res); err != nil {
						res.Outcome = "crash"
						res.Detail = "bad worker output"
					}
				case <-time.After(20 * time.Second):
					cmd.Process.Kill()
					cmd.Wait()
					res.Outcome = "hang"
					start()
				}
				results[i] = res
			}
			stdin.Close()
			cmd.Wait()
		}()
	}
	wg.Wait()
	w, err := newNDWriter(args[1])
	if err != nil {
		return err
	}
	for i := range cases {
		c := cases[i]
		c.Outcome, c.Detail, c.Errs = results[i].Outcome, results[i].Detail, results[i].Errs
		c.Len = len(c.Text)
		c.LineStarts = []int{0}
		for k := 0; k < len(c.Text); k++ {
			if c.Text[k] == '\n' {
				c.LineStarts = append(c.LineStarts, k+1)
			}
		}
		if c.Outcome == "ok" || (c.Outcome == "errors" && len(c.Text) > 3000) {
			c.Text = "" // keep the file small
		} else {
			c.Text = base64.StdEncoding.EncodeToString([]byte(c.Text)) // texts may contain invalid UTF-8
		}
		if err := w.Write(c); err != nil {
			return err
		}
	}
	fmt.Fprintln(os.Stderr, "c22-run", len(cases), "mutants of", len(pool), "seeds")
	return w.Close()
}
