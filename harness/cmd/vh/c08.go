package main

import (
	"fmt"
	"math/rand"
	"os"
	"slices"
	"strconv"
	"strings"

	"github.com/inspirer/textmapper/lalr"
)

func init() {
	register("c08-run", c08Run)
	register("c08-random", c08Random)
	register("c08-rt", c08RTRun)
}

type c08Lit struct {
	Input int  `json:"input"` // 1..3
	Neg   bool `json:"neg"`
}

type c08ListCase struct {
	Input  int  `json:"input"`
	Neg    bool `json:"neg"`
	Target int  `json:"target"` // 1-based alternative index
}

type c08Case struct {
	ID   int        `json:"id"`
	Alts [][]c08Lit `json:"alts"`

	OK       bool          `json:"ok"` // the harness grammar behaved as designed (one lookahead rule or an error)
	Note     string        `json:"note,omitempty"`
	Accepted bool          `json:"accepted"`
	Cases    []c08ListCase `json:"cases"`
	Default  int           `json:"default"`
	Msgs     []string      `json:"msgs"`
}

// c08Exec builds a grammar in which all alternatives' lookahead nonterminals are reducible in one state:
//
//	terminals: eoi x p;  S: L_i x (one rule per alternative);  P_j: p^j (predicate inputs, no-eoi);  L_i: (?= preds) empty
func c08Exec(c *c08Case) {
	n := len(c.Alts)
	const nT = 3
	const S, P1 = 3, 4
	L := func(i int) int { return 7 + i }
	g := jsGrammar{NT: nT, NS: 7 + n}
	g.Inputs = []jsInput{{S, true}, {P1, false}, {P1 + 1, false}, {P1 + 2, false}}
	for i := 0; i < n; i++ {
		g.Rules = append(g.Rules, jsRule{LHS: S, RHS: []int{L(i), 1}})
	}
	for j := 0; j < 3; j++ {
		rhs := []int{}
		for k := 0; k <= j; k++ {
			rhs = append(rhs, 2)
		}
		g.Rules = append(g.Rules, jsRule{LHS: P1 + j, RHS: rhs})
	}
	for i, alt := range c.Alts {
		g.Rules = append(g.Rules, jsRule{LHS: L(i), RHS: []int{}})
		la := jsLookahead{NT: L(i)}
		for _, lit := range alt {
			la.Preds = append(la.Preds, jsPred{Input: lit.Input, Neg: lit.Neg}) // input index in g.Inputs: 1..3
		}
		g.Lookaheads = append(g.Lookaheads, la)
	}
	g.normalize()
	t, err := lalr.Compile(g.build(0, 0), lalr.Options{})
	d := dumpTables(t, err)
	c.Msgs = d.Msgs
	c.Cases = []c08ListCase{}
	c.Accepted = err == nil
	c.OK = true
	if err == nil {
		if len(t.Lookaheads) != 1 || t.SR != 0 || t.RR != 0 {
			c.OK, c.Note = false, "expected exactly one lookahead rule and no conflicts"
			return
		}
		for _, lc := range t.Lookaheads[0].Cases {
			c.Cases = append(c.Cases, c08ListCase{Input: int(lc.Input), Neg: lc.Negated, Target: int(lc.Target) - 7 + 1})
		}
		c.Default = int(t.Lookaheads[0].DefaultTarget) - 7 + 1
	}
}

func c08Run(args []string) error {
	cases, err := readNDJSON[c08Case](args[0])
	if err != nil {
		return err
	}
	w, err := newNDWriter(args[1])
	if err != nil {
		return err
	}
	for i := range cases {
		c := &cases[i]
		c.ID = i
		c08Exec(c)
		if err := w.Write(c); err != nil {
			return err
		}
	}
	return w.Close()
}

// c08-random <n> <out>: random sets of 2..5 alternatives in random order (biased towards exclusive chains)
func c08Random(args []string) error {
	n, _ := strconv.Atoi(args[0])
	seed, _ := strconv.ParseInt(os.Getenv("VERIF_SEED"), 10, 64)
	r := rand.New(rand.NewSource(seed*7907 + 8))
	w, err := newNDWriter(args[1])
	if err != nil {
		return err
	}
	for id := 0; id < n; id++ {
		c := &c08Case{ID: id}
		k := 2 + r.Intn(4)
		order := r.Perm(3)
		for i := 0; i < k; i++ {
			var alt []c08Lit
			ln := 1 + r.Intn(3)
			if r.Intn(3) != 0 { // consistent order
				for _, in := range order[:ln] {
					alt = append(alt, c08Lit{Input: in + 1, Neg: r.Intn(2) == 0})
				}
			} else {
				for _, in := range r.Perm(3)[:ln] {
					alt = append(alt, c08Lit{Input: in + 1, Neg: r.Intn(2) == 0})
				}
			}
			c.Alts = append(c.Alts, alt)
		}
		c08Exec(c)
		if err := w.Write(c); err != nil {
			return err
		}
	}
	return w.Close()
}

// ---- run-time layer: the generated code that executes the decision list

type c08RT struct {
	ID          int        `json:"id"`
	Alts        [][]c08Lit `json:"alts"`
	Cancellable bool       `json:"cancellable"`
	// Leads[i]: the first terminals (1 p, 2 q) alternative i starts with; NLead 1: the plain grammar without a leading terminal.
	Leads [][]int `json:"leads"`
	NLead int     `json:"nlead"`
	// Many > 0: a grammar with Many pairs (?= Pj) / (?= !Pj) in Many different states (2*Many lookahead nonterminals); alternative
	// 2j-1 is the "yes" branch of pair j, 2j its "no" branch; text 2j-1 makes Pj hold, text 2j does not.
	Many int    `json:"many"`
	TM   string `json:"tmtext"`
	GenErr      string     `json:"genErr"`
	Chosen      []int      `json:"chosen"` // per assignment (bit j-1 set: input j matches): the alternative whose node was reported, 0 none
	Errs        []string   `json:"errs"`
}

const c08Adapter = `
%%
{{define "onAfterParser"}}
// VerifEvents parses text and returns the listener calls as "Name offset endoffset".
func VerifEvents(text string) (events []string, errMsg string) {
	defer func() {
		if r := recover(); r != nil {
			errMsg = "fmt".Sprint("panic: ", r)
		}
	}()
	events = []string{}
	var l Lexer
	l.Init(text)
	var p Parser
	p.Init(func(t NodeType, offset, endoffset int) {
		events = append(events, "fmt".Sprintf("%v %v %v", t, offset, endoffset))
	})
	if err := p.Parse({{if .Options.Cancellable}}"context".Background(), {{end}}&l); err != nil {
		return events, err.Error()
	}
	return events, ""
}
{{end}}
`

// c08-rt <in.ndjson> <mod-dir> <out.ndjson> <max>: accepted alternative sets as generated parsers, run on all 8 assignments
func c08RTRun(args []string) error {
	cases, err := readNDJSON[c08Case](args[0])
	if err != nil {
		return err
	}
	max, _ := strconv.Atoi(args[3])
	var recs []*c08RT
	var items []*evItem
	for i := range cases {
		c := &cases[i]
		if !c.Accepted || !c.OK || len(recs) >= max {
			continue
		}
		for _, canc := range []bool{false, true} {
			rec := &c08RT{ID: len(recs), Alts: c.Alts, Cancellable: canc, Chosen: []int{}, Errs: []string{}, NLead: 1}
			for range c.Alts {
				rec.Leads = append(rec.Leads, []int{1})
			}
			pkg := fmt.Sprintf("k%d", len(recs))
			var b strings.Builder
			fmt.Fprintf(&b, "language %s(go);\n\npackage = \"rt/%s\"\neventBased = true\n", pkg, pkg)
			if canc {
				b.WriteString("cancellable = true\n")
			}
			b.WriteString("\n:: lexer\n\nWS: /[ \\n]+/ (space)\nty: /y/\ntn: /n/\ntx: /x/\n\n:: parser\n\n%input S;\n\nS -> Root:\n    tx Alt ;\n\nAlt:\n")
			for k, alt := range c.Alts {
				var ps []string
				for _, lit := range alt {
					p := fmt.Sprintf("P%d", lit.Input)
					if lit.Neg {
						p = "!" + p
					}
					ps = append(ps, p)
				}
				sep := "  | "
				if k == 0 {
					sep = "    "
				}
				fmt.Fprintf(&b, "%s(?= %s) Any Any Any -> Alt%d\n", sep, strings.Join(ps, " & "), k+1)
			}
			b.WriteString(";\n\nAny:\n    ty | tn ;\n\nP1:\n    ty Any Any ;\n\nP2:\n    Any ty Any ;\n\nP3:\n    Any Any ty ;\n")
			rec.TM = b.String() + c08Adapter
			it := &evItem{Pkg: pkg, TM: rec.TM}
			for asg := 0; asg < 8; asg++ {
				t := "x"
				for j := 0; j < 3; j++ {
					if asg&(1<<j) != 0 {
						t += " y"
					} else {
						t += " n"
					}
				}
				it.Texts = append(it.Texts, t+" ")
			}
			recs = append(recs, rec)
			items = append(items, it)
		}
	}
	// alternatives that start with different terminals: the sets in conflict differ from terminal to terminal within one state
	// (S: x Alt; Alt: (?= ..) Lead_i Any Any Any; the predicates skip the leading terminal). Random sets that are pairwise
	// contradictory on every terminal; those the compiler rejects are dropped.
	seed, _ := strconv.ParseInt(os.Getenv("VERIF_SEED"), 10, 64)
	r := rand.New(rand.NewSource(seed*6700417 + 8))
	contradict := func(a, b []c08Lit) bool {
		for _, x := range a {
			for _, y := range b {
				if x.Input == y.Input && x.Neg != y.Neg {
					return true
				}
			}
		}
		return false
	}
	shares := func(a, b []int) bool {
		for _, x := range a {
			if slices.Contains(b, x) {
				return true
			}
		}
		return false
	}
	for tries := 0; tries < 4000 && len(recs) < 2*max; tries++ {
		n := 3 + r.Intn(3)
		rec := &c08RT{ID: len(recs), Cancellable: r.Intn(2) == 0, Chosen: []int{}, Errs: []string{}, NLead: 2}
		if tries%2 == 0 {
			for i := 0; i < n; i++ {
				var alt []c08Lit
				for _, in := range r.Perm(3)[:1+r.Intn(2)] {
					alt = append(alt, c08Lit{Input: in + 1, Neg: r.Intn(2) == 0})
				}
				rec.Alts = append(rec.Alts, alt)
				rec.Leads = append(rec.Leads, [][]int{{1}, {2}, {1, 2}}[r.Intn(3)])
			}
		} else if tries%4 == 1 {
			// three alternatives in conflict on one terminal, only two of them on the other (pairwise contradictory), in random order
			n = 3
			ins := r.Perm(3)
			x, y := c08Lit{Input: ins[0] + 1, Neg: r.Intn(2) == 0}, c08Lit{Input: ins[1] + 1, Neg: r.Intn(2) == 0}
			nx, ny := c08Lit{Input: x.Input, Neg: !x.Neg}, c08Lit{Input: y.Input, Neg: !y.Neg}
			alts := [][]c08Lit{{x, y}, {x, ny}, {nx}}
			one := []int{1 + r.Intn(2)}
			leads := [][]int{{1, 2}, {1, 2}, one}
			if r.Intn(3) == 0 {
				leads = [][]int{{1, 2}, one, {1, 2}}
			}
			for _, k := range r.Perm(3) {
				rec.Alts = append(rec.Alts, alts[k])
				rec.Leads = append(rec.Leads, leads[k])
			}
		} else {
			// overlapping terminal sets: one alternative per terminal and one that can start with either and contradicts both,
			// in random order (so the shared one meets a different partner on each terminal)
			n = 3
			ins := r.Perm(3)
			a := []c08Lit{{Input: ins[0] + 1, Neg: r.Intn(2) == 0}}
			b := []c08Lit{{Input: ins[1] + 1, Neg: r.Intn(2) == 0}}
			if r.Intn(2) == 0 {
				a = append(a, c08Lit{Input: ins[2] + 1, Neg: r.Intn(2) == 0})
			}
			c := []c08Lit{{Input: a[0].Input, Neg: !a[0].Neg}, {Input: b[0].Input, Neg: !b[0].Neg}}
			alts, leads := [][]c08Lit{a, b, c}, [][]int{{1}, {2}, {1, 2}}
			if r.Intn(2) == 0 {
				leads[0], leads[1] = leads[1], leads[0]
			}
			for _, k := range r.Perm(3) {
				rec.Alts = append(rec.Alts, alts[k])
				rec.Leads = append(rec.Leads, leads[k])
			}
		}
		ok, crossOnly := true, false
		for i := 0; i < n && ok; i++ {
			for j := i + 1; j < n; j++ {
				c := contradict(rec.Alts[i], rec.Alts[j])
				if shares(rec.Leads[i], rec.Leads[j]) && !c {
					ok = false
				}
				if !shares(rec.Leads[i], rec.Leads[j]) && !c {
					crossOnly = true // compatible predicates kept apart by the terminal alone
				}
			}
		}
		sameLeads := true
		for i := 1; i < n; i++ {
			if !slices.Equal(rec.Leads[i], rec.Leads[0]) {
				sameLeads = false
			}
		}
		// keep sets that differ from terminal to terminal: alternatives kept apart by the terminal alone, or a conflict of three on one
		// terminal of which only two meet on the other
		if !ok || (!crossOnly && (sameLeads || tries%4 > 1)) {
			continue
		}
		pkg := fmt.Sprintf("k%d", len(recs))
		var b strings.Builder
		fmt.Fprintf(&b, "language %s(go);\n\npackage = \"rt/%s\"\neventBased = true\n", pkg, pkg)
		if rec.Cancellable {
			b.WriteString("cancellable = true\n")
		}
		b.WriteString("\n:: lexer\n\nWS: /[ \\n]+/ (space)\nty: /y/\ntn: /n/\ntx: /x/\ntp: /p/\ntq: /q/\n\n:: parser\n\n%input S;\n\nS -> Root:\n    tx Alt ;\n\nAlt:\n")
		for k, alt := range rec.Alts {
			var ps []string
			for _, lit := range alt {
				p := fmt.Sprintf("P%d", lit.Input)
				if lit.Neg {
					p = "!" + p
				}
				ps = append(ps, p)
			}
			sep := "  | "
			if k == 0 {
				sep = "    "
			}
			lead := "Lead"
			if len(rec.Leads[k]) == 1 {
				lead = []string{"tp", "tq"}[rec.Leads[k][0]-1]
			}
			fmt.Fprintf(&b, "%s(?= %s) %s Any Any Any -> Alt%d\n", sep, strings.Join(ps, " & "), lead, k+1)
		}
		b.WriteString(";\n\nLead:\n    tp | tq ;\n\nAny:\n    ty | tn ;\n\nP1:\n    Lead ty Any Any ;\n\nP2:\n    Lead Any ty Any ;\n\nP3:\n    Lead Any Any ty ;\n")
		rec.TM = b.String() + c08Adapter
		it := &evItem{Pkg: pkg, TM: rec.TM}
		for _, lead := range []string{"p", "q"} {
			for asg := 0; asg < 8; asg++ {
				t := "x " + lead
				for j := 0; j < 3; j++ {
					if asg&(1<<j) != 0 {
						t += " y"
					} else {
						t += " n"
					}
				}
				it.Texts = append(it.Texts, t+" ")
			}
		}
		recs = append(recs, rec)
		items = append(items, it)
	}
	// many lookahead nonterminals in one grammar (the planner's set keys, the generated switch over lookahead rules)
	for _, many := range []int{20, 33, 40} {
		rec := &c08RT{ID: len(recs), Alts: [][]c08Lit{}, Leads: [][]int{}, Cancellable: many == 33, Chosen: []int{}, Errs: []string{}, NLead: 1, Many: many}
		pkg := fmt.Sprintf("k%d", len(recs))
		var b strings.Builder
		fmt.Fprintf(&b, "language %s(go);\n\npackage = \"rt/%s\"\neventBased = true\n", pkg, pkg)
		if rec.Cancellable {
			b.WriteString("cancellable = true\n")
		}
		b.WriteString("\n:: lexer\n\nWS: /[ \\n]+/ (space)\nty: /y/\ntn: /n/\ntx: /x/\ntk: /k/\ntd: /d/\n\n:: parser\n\n%input S;\n\nS -> Root:\n    tx Sel1 ;\n\n")
		for j := 1; j <= many; j++ {
			if j < many {
				fmt.Fprintf(&b, "Sel%d:\n    tk Sel%d | td Pair%d ;\n\n", j, j+1, j)
			} else {
				fmt.Fprintf(&b, "Sel%d:\n    td Pair%d ;\n\n", j, j)
			}
			fmt.Fprintf(&b, "Pair%d:\n    (?= Q%d) Any Any Any -> Alt%d\n  | (?= !Q%d) Any Any Any -> Alt%d\n;\n\n", j, j, 2*j-1, j, 2*j)
			fmt.Fprintf(&b, "Q%d:\n    %s ;\n\n", j, []string{"ty Any Any", "Any ty Any", "Any Any ty"}[j%3])
		}
		b.WriteString("Any:\n    ty | tn ;\n")
		rec.TM = b.String() + c08Adapter
		it := &evItem{Pkg: pkg, TM: rec.TM}
		for j := 1; j <= many; j++ {
			pre := "x" + strings.Repeat(" k", j-1) + " d"
			it.Texts = append(it.Texts, pre+" y y y ", pre+" n n n ")
		}
		recs = append(recs, rec)
		items = append(items, it)
	}
	if err := evPipeline(args[1], items); err != nil {
		return err
	}
	w, err := newNDWriter(args[2])
	if err != nil {
		return err
	}
	for i, rec := range recs {
		if rec.NLead == 2 && items[i].GenErr != "" && strings.HasPrefix(items[i].GenErr, "compile:") {
			continue // not an accepted set
		}
		it := items[i]
		rec.GenErr = it.GenErr
		for k := range it.Events {
			chosen := 0
			for _, ev := range it.Events[k] {
				if strings.HasPrefix(ev, "Alt") {
					chosen, _ = strconv.Atoi(strings.Fields(ev)[0][3:])
				}
			}
			rec.Chosen = append(rec.Chosen, chosen)
			rec.Errs = append(rec.Errs, it.Errs[k])
		}
		if err := w.Write(rec); err != nil {
			return err
		}
	}
	return w.Close()
}
