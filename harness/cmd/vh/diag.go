package main

import (
	"fmt"

	"github.com/inspirer/textmapper/status"
)

// diag-run <cases.ndjson> <out.ndjson>: DiagGen's programs replayed in the real status package (Diagnostics.tla).

func init() { register("diag-run", diagRun) }

type diagErr struct {
	File int `json:"file"`
	Off  int `json:"off"`
	Msg  int `json:"msg"`
}

type diagCase struct {
	Adds  []diagErr `json:"adds"`
	Tail  []string  `json:"tail"`
	Lists [][][4]int `json:"lists"`
	Crash string    `json:"crash"`
}

var diagFiles = []string{"", "a.tm"}

func diagProj(s status.Status) [][4]int {
	ret := [][4]int{}
	for _, e := range s {
		f := -1
		for i, name := range diagFiles {
			if name == e.Origin.Filename {
				f = i
			}
		}
		var m int
		fmt.Sscanf(e.Msg, "m%d", &m)
		ret = append(ret, [4]int{f, e.Origin.Offset, e.Origin.Line, m})
	}
	return ret
}

func diagExec(c *diagCase) {
	defer func() {
		if r := recover(); r != nil {
			c.Crash = fmt.Sprint("panic: ", r)
		}
	}()
	var s status.Status
	for i, e := range c.Adds {
		r := status.SourceRange{Filename: diagFiles[e.File], Offset: e.Off, EndOffset: e.Off + 1, Line: e.Off/2 + 1, Column: e.Off%2 + 1}
		msg := fmt.Sprintf("m%d", e.Msg)
		switch i % 3 {
		case 0:
			s.Add(r, msg)
		case 1:
			s.AddError(&status.Error{Origin: r, Msg: msg})
		default:
			var inner status.Status
			inner.Add(r, msg)
			s.AddError(inner.Err())
		}
	}
	c.Lists = append(c.Lists, diagProj(s))
	for _, op := range c.Tail {
		if op == "sort" {
			s.Sort()
		} else {
			s.Dedupe()
		}
		c.Lists = append(c.Lists, diagProj(s))
	}
}

func diagRun(args []string) error {
	cases, err := readNDJSON[diagCase](args[0])
	if err != nil {
		return err
	}
	w, err := newNDWriter(args[1])
	if err != nil {
		return err
	}
	for i := range cases {
		c := &cases[i]
		c.Lists = [][][4]int{}
		diagExec(c)
		if err := w.Write(c); err != nil {
			return err
		}
	}
	return w.Close()
}
