package main

import (
	"fmt"
	"os"
	"path/filepath"
)

func init() { register("dbg-tm", dbgTM) }

func dbgTM(args []string) error {
	path := filepath.Join(repoDir(), args[0])
	b, _ := os.ReadFile(path)
	g, err := compileTM(path, withTableOptions(string(b), nil))
	if err != nil {
		return err
	}
	t := g.Parser.Tables
	fmt.Println("rules", len(g.Parser.Rules), "RuleLen", len(t.RuleLen), "lookaheads", len(t.Lookaheads), "states", t.NumStates)
	for i := 1; i < len(t.Lalr); i += 2 {
		if v := t.Lalr[i]; v >= len(t.RuleLen) || v < -2 {
			fmt.Println("lalr", i, t.Lalr[i-1], v)
		}
	}
	for s, a := range t.Action {
		if a >= len(t.RuleLen) {
			fmt.Println("action", s, a)
		}
	}
	return nil
}
