package main

import (
	"context"
	"encoding/json"
	"fmt"
	"math/rand"
	"os"
	"os/exec"
	"path/filepath"
	"sort"
	"strconv"
	"strings"
	"sync"

	"github.com/inspirer/textmapper/compiler"
	"github.com/inspirer/textmapper/gen"
)

func init() {
	register("c11-gen", c11Gen)
}

// ---- random lexer grammars, generated lexers built and run on sampled texts

type lxRule struct {
	Re       *reAST `json:"re"`
	Prio     int    `json:"prio"`
	Action   int    `json:"action"` // = 1-based rule index (Regex!LongestMatch returns it)
	SC       []int  `json:"sc"`
	Tok      int    `json:"tok"` // spec token id: 0 eoi, 1 invalid_token, 2.. user tokens
	Space    bool   `json:"space"`
	NewState int    `json:"newState"` // -1: unchanged
	Class    bool   `json:"class"`
	Text     string `json:"text"`
}

type lxKeyword struct {
	T        []int `json:"t"` // the keyword's symbols
	Tok      int   `json:"tok"`
	NewState int   `json:"newState"`
	Space    bool  `json:"space"`
}

type lxRun struct {
	T     []int   `json:"t"`
	Toks  [][]int `json:"toks"` // [tok, start, end, line, col] up to and including eoi
	Bad   string  `json:"bad"`
	Trunc bool    `json:"trunc"`
}

type lxCase struct {
	ID       int         `json:"id"`
	Mode     string      `json:"mode"` // rune fold bytes foldbytes
	NSC      int         `json:"nsc"`
	Rules    []lxRule    `json:"rules"`
	Keywords []lxKeyword `json:"keywords"`
	Line     bool        `json:"line"`
	Col      bool        `json:"col"`
	NoBt     bool        `json:"nobt"`
	NTok     int         `json:"ntok"`
	Shift    bool        `json:"shift"` // a token without a rule is declared first: token numbers differ from rule numbers

	Width  []int   `json:"width"`
	Canon  []int   `json:"canon"`
	NL     int     `json:"nl"` // the newline symbol
	Bom    int     `json:"bom"` // the symbol that is U+FEFF (skipped when it opens the input), 0: none
	TM     string  `json:"tmtext"`
	Pkg    string  `json:"pkg"`
	GenErr string  `json:"genErr"`
	BtErr  bool    `json:"btErr"` // rejected because it needs backtracking
	Runs   []lxRun `json:"runs"`
}

func c11Alphabet(mode string) lexAlphabet {
	switch mode {
	case "fold":
		return lexAlphabet{Mode: mode, Chars: []string{"a", "A", "b", "B", "é", "É", "\n", " "}, Pat: []string{"a", "A", "b", "B", "é", "É", `\n`, `\x20`},
			Width: []int{1, 1, 1, 1, 2, 2, 1, 1}, Canon: []int{1, 1, 3, 3, 5, 5, 7, 8}}
	case "foldbytes":
		return lexAlphabet{Mode: mode, Chars: []string{"k", "K", "s", "S", "\n", " "}, Pat: []string{"k", "K", "s", "S", `\n`, `\x20`}, Width: []int{1, 1, 1, 1, 1, 1}, Canon: []int{1, 1, 3, 3, 5, 6}}
	case "bytes":
		return lexAlphabet{Mode: mode, Chars: []string{"a", "b", "\x80", "\xc3", "\xff", "\n", " "}, Pat: []string{"a", "b", `\x80`, `\xc3`, `\xff`, `\n`, `\x20`},
			Width: []int{1, 1, 1, 1, 1, 1, 1}, Canon: []int{1, 2, 3, 4, 5, 6, 7}}
	case "rune2": // the highest character is exactly U+07FF: the boundary between the flat and the compressed rune map
		return lexAlphabet{Mode: "rune", Chars: []string{"a", "b", "é", "λ", "\u07ff", "\n", " "}, Pat: []string{"a", "b", "é", "λ", "\u07ff", `\n`, `\x20`},
			Width: []int{1, 1, 2, 2, 2, 1, 1}, Canon: []int{1, 2, 3, 4, 5, 6, 7}}
	case "rune3": // characters that are awkward inside generated Go source (token comments, string literals): NUL, BOM, line separators, carriage return
		return lexAlphabet{Mode: "rune", Chars: []string{"a", "\x00", "\ufeff", "\u2028", "\r", "\n", " "}, Pat: []string{"a", `\x00`, `\ufeff`, `\u2028`, `\r`, `\n`, `\x20`},
			Width: []int{1, 1, 3, 3, 1, 1, 1}, Canon: []int{1, 2, 3, 4, 5, 6, 7}}
	}
	return lexAlphabet{Mode: "rune", Chars: []string{"a", "b", "é", "𝄞", "中", "\n", " "}, Pat: []string{"a", "b", "é", "𝄞", "中", `\n`, `\x20`},
		Width: []int{1, 1, 2, 4, 3, 1, 1}, Canon: []int{1, 2, 3, 4, 5, 6, 7}}
}

func (c *lxCase) tokName(tok int) string { return fmt.Sprintf("T%d", tok) }

func (c *lxCase) render(a lexAlphabet) string {
	var b strings.Builder
	fmt.Fprintf(&b, "language %s(go);\n\npackage = \"rt/%s\"\n", c.Pkg, c.Pkg)
	fmt.Fprintf(&b, "tokenLine = %v\n", c.Line)
	if c.Col {
		b.WriteString("tokenColumn = true\n")
	}
	if c.NoBt {
		b.WriteString("nonBacktracking = true\n")
	}
	if a.Mode == "bytes" || a.Mode == "foldbytes" {
		b.WriteString("scanBytes = true\n")
	}
	if a.Mode == "fold" || a.Mode == "foldbytes" {
		b.WriteString("caseInsensitive = true\n")
	}
	b.WriteString("\n:: lexer\n\n")
	if c.NSC > 1 {
		b.WriteString("%s initial, S1;\n\n")
	}
	scs := func(sc []int) string {
		if c.NSC == 1 {
			return ""
		}
		var p []string
		for _, s := range sc {
			p = append(p, []string{"initial", "S1"}[s])
		}
		return "<" + strings.Join(p, ", ") + "> "
	}
	state := func(s int) string {
		if s < 0 {
			return ""
		}
		return " { l.State = " + []string{"StateInitial", "StateS1"}[s] + " }"
	}
	str := func(t []int) string {
		var sb strings.Builder
		for _, x := range t {
			sb.WriteString(a.Pat[x-1])
		}
		return sb.String()
	}
	if c.Shift {
		b.WriteString("T999:\n")
	}
	for i := range c.Rules {
		r := &c.Rules[i]
		r.Text = r.Re.render(a)
		attrs := ""
		switch {
		case r.Class:
			attrs = " (class)"
		case r.Space:
			attrs = " (space)"
		}
		prio := ""
		if r.Prio != 0 {
			prio = fmt.Sprintf(" %d", r.Prio)
		}
		fmt.Fprintf(&b, "%s%s: /%s/%s%s%s\n", scs(r.SC), c.tokName(r.Tok), r.Text, prio, attrs, state(r.NewState))
		if r.Class {
			for _, k := range c.Keywords {
				attrs := ""
				if k.Space {
					attrs = " (space)"
				}
				fmt.Fprintf(&b, "%s%s: /%s/%s%s\n", scs(r.SC), c.tokName(k.Tok), str(k.T), attrs, state(k.NewState))
			}
		}
	}
	b.WriteString("\n:: parser\n\ninput: " + c.tokName(2) + " ;\n")
	return b.String()
}

const c11Adapter = `package %s

import "fmt"

// VerifLex runs the generated lexer over text: [token, start, end, line, column] per token up to and including EOI.
func VerifLex(text string, limit int) (toks [][]int, bad string) {
	defer func() {
		if r := recover(); r != nil {
			bad = fmt.Sprint("panic: ", r)
		}
	}()
	var l Lexer
	l.Init(text)
	for {
		t := l.Next()
		s, e := l.Pos()
		toks = append(toks, []int{int(t), s, e, %s, %s})
		if int(t) == 0 {
			return
		}
		if len(toks) > limit {
			return toks, "hang"
		}
	}
}
`

const c11Main = `package main

import (
	"bufio"
	"encoding/base64"
	"encoding/json"
	"os"
	"time"
%s
)

type job struct {
	Pkg   string   ` + "`json:\"pkg\"`" + `
	Texts []string ` + "`json:\"texts\"`" + `
}

var hangs int

type result struct {
	Pkg  string    ` + "`json:\"pkg\"`" + `
	Toks [][][]int ` + "`json:\"toks\"`" + `
	Bad  []string  ` + "`json:\"bad\"`" + `
}

var lexers = map[string]func(string, int) ([][]int, string){
%s
}

func main() {
	dec := json.NewDecoder(bufio.NewReaderSize(os.Stdin, 1<<20))
	out := bufio.NewWriterSize(os.Stdout, 1<<20)
	enc := json.NewEncoder(out)
	for dec.More() {
		var j job
		if err := dec.Decode(&j); err != nil {
			os.Exit(3)
		}
		res := result{Pkg: j.Pkg}
		for _, enc64 := range j.Texts {
			raw, _ := base64.StdEncoding.DecodeString(enc64)
			t := string(raw)
			// a Next() that never returns must become a verdict, not a dead driver: run under a watchdog; the goroutine of a hung run is
			// abandoned, and after three of them the remaining texts of the process are not started
			var toks [][]int
			bad := "not run: three earlier runs did not return"
			if hangs < 3 {
				type outcome struct {
					toks [][]int
					bad  string
				}
				ch := make(chan outcome, 1)
				go func() {
					tk, b := lexers[j.Pkg](t, len(t)+8)
					ch <- outcome{tk, b}
				}()
				select {
				case o := <-ch:
					toks, bad = o.toks, o.bad
				case <-time.After(5 * time.Second):
					hangs++
					bad = "hang: the lexer did not return within 5 s"
				}
			}
			if toks == nil {
				toks = [][]int{}
			}
			res.Toks = append(res.Toks, toks)
			res.Bad = append(res.Bad, bad)
		}
		enc.Encode(res)
		out.Flush()
	}
}
`

func c11GenOne(mod string, c *lxCase, a lexAlphabet) (tokIDs map[int]int) {
	defer func() {
		if r := recover(); r != nil {
			c.GenErr = fmt.Sprint("panic: ", r)
		}
	}()
	c.TM = c.render(a)
	g, err := compiler.Compile(context.Background(), c.Pkg+".tm", c.TM, compiler.Params{})
	if err != nil {
		c.GenErr = "compile: " + truncate(err.Error(), 500)
		c.BtErr = strings.Contains(err.Error(), "backtracking")
		return nil
	}
	if err := gen.Generate(g, dirWriter{filepath.Join(mod, c.Pkg)}, gen.Options{}); err != nil {
		c.GenErr = "generate: " + truncate(err.Error(), 500)
		return nil
	}
	line, col := "0", "0"
	if c.Line {
		line = "l.Line()"
	}
	if c.Col {
		col = "l.Column()"
	}
	if err := os.WriteFile(filepath.Join(mod, c.Pkg, "verif_adapter.go"), []byte(fmt.Sprintf(c11Adapter, c.Pkg, line, col)), 0o644); err != nil {
		c.GenErr = err.Error()
		return nil
	}
	// generated token numbers -> spec token ids
	tokIDs = map[int]int{}
	for i, s := range g.Syms {
		switch {
		case i == 0:
			tokIDs[i] = 0
		case s.Name == "invalid_token":
			tokIDs[i] = 1
		case strings.HasPrefix(s.Name, "T"):
			if n, err := strconv.Atoi(s.Name[1:]); err == nil {
				tokIDs[i] = n
			}
		}
	}
	return tokIDs
}

func unNegate(e *reAST) {
	if e.K == "class" {
		e.Neg = false
	}
	for _, s := range e.Sub {
		unNegate(s)
	}
}

func maybeConst(e *reAST) bool {
	switch e.K {
	case "lit":
		return true
	case "class":
		return !e.Neg && len(e.C) == 1
	case "cat", "rep":
		for _, s := range e.Sub {
			if !maybeConst(s) {
				return false
			}
		}
		return true
	}
	return false
}

// c11-gen <n> <mod-dir> <out.ndjson>
func c11Gen(args []string) error {
	n, _ := strconv.Atoi(args[0])
	mod := args[1]
	seed, _ := strconv.ParseInt(os.Getenv("VERIF_SEED"), 10, 64)
	r := rand.New(rand.NewSource(seed*2750159 + 11))
	if err := os.MkdirAll(mod, 0o755); err != nil {
		return err
	}
	cases := make([]lxCase, n)
	alphs := make([]lexAlphabet, n)
	tokMaps := make([]map[int]int, n)
	texts := make([][]string, n)
	for id := 0; id < n; id++ {
		c := &cases[id]
		c.ID, c.Pkg = id, fmt.Sprintf("x%d", id)
		c.Mode = []string{"rune", "rune", "rune2", "bytes", "fold", "foldbytes", "rune3"}[r.Intn(7)]
		a := c11Alphabet(c.Mode)
		alphs[id] = a
		c.Width, c.Canon = a.Width, a.Canon
		c.NL = len(a.Chars) - 1
		for i, ch := range a.Chars {
			if ch == "\ufeff" {
				c.Bom = i + 1
			}
		}
		c.NSC = 1
		if r.Intn(3) == 0 {
			c.NSC = 2
		}
		c.Line = r.Intn(4) > 0
		c.Col = c.Line && r.Intn(2) == 0
		c.NoBt = r.Intn(6) == 0
		nsym := len(a.Chars)
		nr := 2 + r.Intn(4)
		tok := 2
		sc := func() []int {
			if c.NSC == 1 {
				return []int{0}
			}
			return [][]int{{0}, {1}, {0, 1}}[r.Intn(3)]
		}
		newState := func() int {
			if c.NSC == 2 && r.Intn(3) == 0 {
				return r.Intn(2)
			}
			return -1
		}
		prios := r.Perm(nr + 2)
		for i := 0; i < nr; i++ {
			re := genRE(r, 1+r.Intn(3), nsym)
			if c.Mode == "rune2" {
				unNegate(re)
			}
			if reNullable(re) {
				re = &reAST{K: "cat", Sub: []*reAST{{K: "lit", C: []int{1 + r.Intn(nsym)}}, re}}
			}
			rule := lxRule{Re: re, Prio: prios[i] + 1, Action: i + 1, SC: sc(), Tok: tok, Space: r.Intn(5) == 0, NewState: newState()}
			tok++
			c.Rules = append(c.Rules, rule)
		}
		// a rule that is a proper prefix of a longer one: scanning the longer one's prefixes has to fall back
		if r.Intn(3) == 0 {
			x, y, z := 1+r.Intn(nsym-2), 1+r.Intn(nsym-2), 1+r.Intn(nsym-2)
			short := &reAST{K: "lit", C: []int{x}}
			long := &reAST{K: "cat", Sub: []*reAST{{K: "lit", C: []int{x}}, {K: "cat", Sub: []*reAST{{K: "plus", Sub: []*reAST{{K: "lit", C: []int{y}}}}, {K: "lit", C: []int{z}}}}}}
			c.Rules = append(c.Rules, lxRule{Re: &reAST{K: "plus", Sub: []*reAST{short}}, Prio: nr + 3, Action: len(c.Rules) + 1, SC: c.Rules[0].SC, Tok: tok, NewState: -1})
			tok++
			c.Rules = append(c.Rules, lxRule{Re: long, Prio: nr + 4, Action: len(c.Rules) + 1, SC: c.Rules[0].SC, Tok: tok, NewState: -1})
			tok++
		}
		c.Shift = r.Intn(3) == 0
		// whitespace rule (mostly), so that lines and columns are exercised
		if r.Intn(5) > 0 {
			re := &reAST{K: "plus", Sub: []*reAST{{K: "class", C: []int{nsym - 1, nsym}}}}
			c.Rules = append(c.Rules, lxRule{Re: re, Prio: -3, Action: len(c.Rules) + 1, SC: []int{0}, Tok: tok, Space: true, NewState: -1})
			if c.NSC == 2 {
				c.Rules[len(c.Rules)-1].SC = []int{0, 1}
			}
			tok++
		}
		// a class rule with keywords (constant patterns are not recognised as such under case folding)
		if r.Intn(2) == 0 && c.Mode != "fold" && c.Mode != "foldbytes" {
			// every constant pattern the class matches becomes a keyword: keep the other rules non-constant
			for i := range c.Rules {
				if maybeConst(c.Rules[i].Re) {
					c.Rules[i].Re = &reAST{K: "plus", Sub: []*reAST{c.Rules[i].Re}}
				}
			}
			letters := []int{1, 2}
			if strings.HasPrefix(c.Mode, "rune") {
				letters = []int{1, 2, 3, 5} // a b é 中: keywords with multi-byte characters
			}
			re := &reAST{K: "plus", Sub: []*reAST{{K: "class", C: letters}}}
			cls := lxRule{Re: re, Prio: -5, Action: len(c.Rules) + 1, SC: sc(), Tok: tok, Class: true, NewState: -1}
			tok++
			c.Rules = append(c.Rules, cls)
			seen := map[string]bool{}
			for k := 0; k < 1+r.Intn(3); k++ {
				var t []int
				for j := 0; j < 1+r.Intn(3); j++ {
					t = append(t, letters[r.Intn(len(letters))])
				}
				if seen[fmt.Sprint(t)] {
					continue
				}
				seen[fmt.Sprint(t)] = true
				c.Keywords = append(c.Keywords, lxKeyword{T: t, Tok: tok, NewState: newState(), Space: r.Intn(8) == 0})
				tok++
			}
		}
		if c.Keywords == nil {
			c.Keywords = []lxKeyword{}
		}
		c.NTok = tok
		// texts: random strings, members of the rules' languages glued together, with newlines
		var ts [][]int
		for k := 0; k < 30; k++ {
			var t []int
			for len(t) < 1+r.Intn(9) {
				switch r.Intn(4) {
				case 0:
					t = append(t, 1+r.Intn(nsym))
				case 1:
					if len(c.Keywords) > 0 {
						t = append(t, c.Keywords[r.Intn(len(c.Keywords))].T...)
						break
					}
					fallthrough
				default:
					w := sampleRE(r, c.Rules[r.Intn(len(c.Rules))].Re, nsym, 5)
					if len(w) > 1 && r.Intn(3) == 0 {
						w = w[:len(w)-1]
					}
					t = append(t, w...)
				}
				if r.Intn(3) == 0 {
					t = append(t, nsym-r.Intn(2))
				}
			}
			if len(t) > 12 {
				t = t[:12]
			}
			ts = append(ts, t)
		}
		ts = append(ts, []int{})
		for _, t := range ts {
			var sb strings.Builder
			for _, x := range t {
				sb.WriteString(a.Chars[x-1])
			}
			texts[id] = append(texts[id], b64(sb.String()))
			c.Runs = append(c.Runs, lxRun{T: append([]int{}, t...), Toks: [][]int{}})
		}
	}
	// generation is sequential: the generator keeps package-level state
	for id := range cases {
		tokMaps[id] = c11GenOne(mod, &cases[id], alphs[id])
	}
	if err := os.WriteFile(filepath.Join(mod, "go.mod"), []byte("module rt\n\ngo 1.25\n"), 0o644); err != nil {
		return err
	}
	var mu sync.Mutex
	var wg sync.WaitGroup
	sem := make(chan struct{}, 16)
	for id := range cases {
		c := &cases[id]
		if c.GenErr != "" {
			continue
		}
		wg.Add(1)
		go func() {
			defer wg.Done()
			sem <- struct{}{}
			defer func() { <-sem }()
			cmd := exec.Command("go1.26", "build", "./"+c.Pkg+"/...")
			cmd.Dir = mod
			cmd.Env = append(os.Environ(), "GOFLAGS=-mod=mod", "GOPROXY=off", "GOSUMDB=off", "GOTOOLCHAIN=local")
			if out, err := cmd.CombinedOutput(); err != nil {
				mu.Lock()
				c.GenErr = "build: " + truncate(string(out), 1200)
				mu.Unlock()
			}
		}()
	}
	wg.Wait()
	var imports, table []string
	for id := range cases {
		c := &cases[id]
		if c.GenErr != "" {
			continue
		}
		imports = append(imports, fmt.Sprintf("\t%s \"rt/%s\"", c.Pkg, c.Pkg))
		table = append(table, fmt.Sprintf("\t%q: %s.VerifLex,", c.Pkg, c.Pkg))
	}
	sort.Strings(imports)
	if err := os.WriteFile(filepath.Join(mod, "main.go"), []byte(fmt.Sprintf(c11Main, strings.Join(imports, "\n"), strings.Join(table, "\n"))), 0o644); err != nil {
		return err
	}
	cmd := exec.Command("go1.26", "build", "-o", "lxbin", ".")
	cmd.Dir = mod
	cmd.Env = append(os.Environ(), "GOFLAGS=-mod=mod", "GOPROXY=off", "GOSUMDB=off", "GOTOOLCHAIN=local")
	if out, err := cmd.CombinedOutput(); err != nil {
		return fmt.Errorf("building the lexer driver failed: %v\n%s", err, out)
	}
	var jobs strings.Builder
	for id := range cases {
		if cases[id].GenErr != "" {
			continue
		}
		j, _ := json.Marshal(map[string]any{"pkg": cases[id].Pkg, "texts": texts[id]})
		jobs.Write(j)
		jobs.WriteByte('\n')
	}
	run := exec.Command(filepath.Join(mod, "lxbin"))
	run.Stdin = strings.NewReader(jobs.String())
	run.Stderr = os.Stderr
	outBytes, err := run.Output()
	if err != nil {
		return fmt.Errorf("lexer driver died: %v", err)
	}
	byPkg := map[string]*lxCase{}
	for id := range cases {
		byPkg[cases[id].Pkg] = &cases[id]
	}
	for _, line := range strings.Split(strings.TrimSpace(string(outBytes)), "\n") {
		if line == "" {
			continue
		}
		var res struct {
			Pkg  string    `json:"pkg"`
			Toks [][][]int `json:"toks"`
			Bad  []string  `json:"bad"`
		}
		if err := json.Unmarshal([]byte(line), &res); err != nil {
			return err
		}
		c := byPkg[res.Pkg]
		m := tokMaps[c.ID]
		for k := range res.Toks {
			for _, tk := range res.Toks[k] {
				id, ok := m[tk[0]]
				if !ok {
					id = -1
				}
				c.Runs[k].Toks = append(c.Runs[k].Toks, []int{id, tk[1], tk[2], tk[3], tk[4]})
			}
			c.Runs[k].Bad = res.Bad[k]
		}
	}
	w, err := newNDWriter(args[2])
	if err != nil {
		return err
	}
	for id := range cases {
		c := &cases[id]
		if c.GenErr != "" {
			c.Runs = []lxRun{}
		}
		if err := w.Write(c); err != nil {
			return err
		}
	}
	return w.Close()
}
