package main

import (
	"fmt"
	"go/ast"
	"go/parser"
	"go/token"
	"strconv"
	"strings"

	"github.com/inspirer/textmapper/gen"
)

// imports-run <cases.ndjson> <out.ndjson>: gen.ExtractGoImports on rendered sources (Imports.tla), its output parsed back.

func init() { register("imports-run", importsRun) }

type impRef struct {
	Path  int    `json:"path"` // 1-based index into impPaths
	Alias string `json:"alias"`
	Name  string `json:"name"`
}

type impCase struct {
	Refs []impRef `json:"refs"`
	Pkg  bool     `json:"pkg"`

	Src        string      `json:"src"`
	Out        string      `json:"out"`
	Crash      string      `json:"crash"`
	Parses     bool        `json:"parses"`
	Imports    [][2]string `json:"imports"`
	GroupBreak int         `json:"groupBreak"`
	Sels       [][2]string `json:"sels"`
	Placed     bool        `json:"placed"`
	Leftover   bool        `json:"leftover"`
}

var impPaths = []string{"bufio", "fmt", "unicode/utf8", "example.com/a/lib", "github.com/x/fmtx"}

func importsExec(c *impCase) {
	defer func() {
		if r := recover(); r != nil {
			c.Crash = fmt.Sprint("panic: ", r)
		}
	}()
	var b strings.Builder
	b.WriteString("// Code generated for a test. \"not/a\" .qualifier here.\n\n")
	if c.Pkg {
		b.WriteString("package p\n\n")
	}
	for i, r := range c.Refs {
		q := impPaths[r.Path-1]
		if r.Alias != "" {
			q += []string{" as ", "  as ", " as  "}[i%3] + r.Alias
		}
		fmt.Fprintf(&b, "var v%d = \"%s\".%s\n\n", i, q, r.Name)
	}
	c.Src = b.String()
	c.Out = gen.ExtractGoImports(c.Src)
	text := c.Out
	if !c.Pkg {
		// not a Go file on its own: the block has to open the text after the leading comment
		c.Placed = strings.HasPrefix(strings.TrimPrefix(text, "// Code generated for a test. \"not/a\" .qualifier here.\n\n"), "import (\n") ||
			strings.HasPrefix(text, "import (\n")
		text = "package p\n\n" + text
	}
	fset := token.NewFileSet()
	f, err := parser.ParseFile(fset, "x.go", text, parser.ParseComments)
	if err != nil {
		c.Crash = ""
		return
	}
	c.Parses = true
	if c.Pkg {
		// the first declaration is the only import block and starts two lines below the package clause
		if len(f.Decls) > 0 {
			if g, ok := f.Decls[0].(*ast.GenDecl); ok && g.Tok == token.IMPORT {
				c.Placed = fset.Position(g.Pos()).Line == fset.Position(f.Name.End()).Line+2
			}
		}
	}
	nblocks := 0
	for _, d := range f.Decls {
		if g, ok := d.(*ast.GenDecl); ok && g.Tok == token.IMPORT {
			nblocks++
			prev := -1
			for k, s := range g.Specs {
				is := s.(*ast.ImportSpec)
				name := ""
				if is.Name != nil {
					name = is.Name.Name
				}
				p, _ := strconv.Unquote(is.Path.Value)
				c.Imports = append(c.Imports, [2]string{name, p})
				line := fset.Position(is.Pos()).Line
				if prev != -1 && line > prev+1 {
					if c.GroupBreak != 0 {
						c.GroupBreak = -1 // more than one blank line
					} else {
						c.GroupBreak = k + 1
					}
				}
				prev = line
			}
		}
	}
	if nblocks != 1 {
		c.Placed = false
	}
	ast.Inspect(f, func(n ast.Node) bool {
		if s, ok := n.(*ast.SelectorExpr); ok {
			if x, ok := s.X.(*ast.Ident); ok {
				c.Sels = append(c.Sels, [2]string{x.Name, s.Sel.Name})
			}
		}
		return true
	})
	// a quoted qualifier left in the code (the one in the leading comment has a space before the dot and is none)
	for _, p := range impPaths {
		if strings.Contains(c.Out, p+"\".") || strings.Contains(c.Out, " as ") {
			c.Leftover = true
		}
	}
}

func importsRun(args []string) error {
	cases, err := readNDJSON[impCase](args[0])
	if err != nil {
		return err
	}
	w, err := newNDWriter(args[1])
	if err != nil {
		return err
	}
	for i := range cases {
		c := &cases[i]
		c.Imports, c.Sels = [][2]string{}, [][2]string{}
		importsExec(c)
		if err := w.Write(c); err != nil {
			return err
		}
	}
	return w.Close()
}
