package main

import (
	"context"
	"fmt"
	"os"
	"path/filepath"
	"regexp"
	"strings"

	"github.com/inspirer/textmapper/compiler"
	"github.com/inspirer/textmapper/gen"
	"github.com/inspirer/textmapper/lalr"
)

func init() { register("c30-run", c30Run) }

type c30Rule struct {
	LHS  string   `json:"lhs"`
	RHS  []string `json:"rhs"`
	Prec string   `json:"prec"`
}

type c30Prec struct {
	Assoc string   `json:"assoc"`
	Terms []string `json:"terms"`
}

type c30Case struct {
	ID     int    `json:"id"`
	Name   string `json:"name"`
	Err    string `json:"err"`
	ParseErr string `json:"parseErr"`
	// from the grammar the tables were built from
	Rules  []c30Rule `json:"rules"`
	Prec   []c30Prec `json:"prec"`
	Starts []string  `json:"starts"`
	// parsed back from the exported .y
	YRules  []c30Rule `json:"yrules"`
	YPrec   []c30Prec `json:"yprec"`
	YStarts []string  `json:"ystarts"`
	Y       string    `json:"y,omitempty"`
}

var yRuleHead = regexp.MustCompile(`^([A-Za-z_$][A-Za-z_0-9$\-]*) :$`)

// parseBison is the thin, trusted reader of the exported file.
func parseBison(y string, c *c30Case) {
	c.YRules, c.YPrec, c.YStarts = []c30Rule{}, []c30Prec{}, []string{}
	parts := strings.Split(y, "\n%%\n")
	if len(parts) < 2 {
		c.ParseErr = "no %% section"
		return
	}
	for _, l := range strings.Split(parts[0], "\n") {
		f := strings.Fields(l)
		if len(f) == 0 {
			continue
		}
		switch f[0] {
		case "%start":
			c.YStarts = append(c.YStarts, f[1])
		case "%left", "%right", "%nonassoc":
			c.YPrec = append(c.YPrec, c30Prec{Assoc: f[0][1:], Terms: append([]string{}, f[1:]...)})
		}
	}
	var lhs string
	depth := 0 // inside a (possibly multi-line) semantic action
	for _, l := range strings.Split(parts[1], "\n") {
		if depth > 0 || strings.HasPrefix(l, "\t\t\t{") {
			depth += strings.Count(l, "{") - strings.Count(l, "}")
			continue
		}
		if strings.HasPrefix(l, "\t") || strings.TrimSpace(l) == "" || strings.HasPrefix(l, "// lookahead:") {
			continue // blank lines, lookahead comments
		}
		if m := yRuleHead.FindStringSubmatch(l); m != nil {
			lhs = m[1]
			continue
		}
		if l == ";" {
			lhs = ""
			continue
		}
		if lhs == "" || !(strings.HasPrefix(l, "  ") || strings.HasPrefix(l, "| ")) {
			c.ParseErr = "unexpected line: " + l
			return
		}
		r := c30Rule{LHS: lhs, RHS: []string{}}
		toks := strings.Fields(l[2:])
		for i := 0; i < len(toks); i++ {
			t := toks[i]
			switch {
			case t == "%empty":
			case t == "%prec" && i+1 < len(toks):
				r.Prec = toks[i+1]
				i++
			case strings.HasPrefix(t, "/*."):
			default:
				r.RHS = append(r.RHS, t)
			}
		}
		c.YRules = append(c.YRules, r)
	}
}

func c30One(c *c30Case, path, text string) {
	c.Rules, c.Prec, c.Starts = []c30Rule{}, []c30Prec{}, []string{}
	c.YRules, c.YPrec, c.YStarts = []c30Rule{}, []c30Prec{}, []string{}
	defer func() {
		if r := recover(); r != nil {
			c.Err = fmt.Sprint("panic: ", r)
		}
	}()
	g, err := compiler.Compile(context.Background(), path, text, compiler.Params{})
	if err != nil {
		c.Err = "compile: " + truncate(err.Error(), 200)
		return
	}
	if !g.Options.WriteBison || g.Parser == nil {
		c.Err = "writeBison is off"
		return
	}
	w := &mapWriter{files: map[string]string{}}
	if err := gen.Generate(g, w, gen.Options{}); err != nil {
		c.Err = "generate: " + truncate(err.Error(), 200)
		return
	}
	var y string
	for n, content := range w.files {
		if strings.HasSuffix(n, ".y") {
			y = content
		}
	}
	if y == "" {
		c.Err = "no .y file written"
		return
	}
	symName := func(s lalr.Sym) string {
		if int(s) < g.Parser.NumTerminals {
			return g.Syms[s].ID
		}
		return g.Syms[s].Name
	}
	for _, r := range g.Parser.Rules {
		cr := c30Rule{LHS: symName(r.LHS), RHS: []string{}}
		for _, s := range r.RHS {
			if s.IsStateMarker() {
				continue
			}
			cr.RHS = append(cr.RHS, symName(s))
		}
		if r.Precedence > 0 {
			cr.Prec = symName(r.Precedence)
		}
		c.Rules = append(c.Rules, cr)
	}
	for _, p := range g.Parser.Prec {
		cp := c30Prec{Assoc: p.Associativity.String(), Terms: []string{}}
		for _, t := range p.Terminals {
			cp.Terms = append(cp.Terms, symName(t))
		}
		c.Prec = append(c.Prec, cp)
	}
	for _, in := range g.Parser.Inputs {
		c.Starts = append(c.Starts, g.Parser.Nonterms[in.Nonterm].Name)
	}
	parseBison(y, c)
	if c.ParseErr != "" || len(y) < 3000 {
		c.Y = y
	}
}

// c30-run <out.ndjson> <dir with .tm files>...: shipped grammars with writeBison plus the given grammars (writeBison forced on)
func c30Run(args []string) error {
	w, err := newNDWriter(args[0])
	if err != nil {
		return err
	}
	var files []string
	for _, rel := range shippedGrammars {
		files = append(files, filepath.Join(repoDir(), rel))
	}
	for _, dir := range args[1:] {
		m, _ := filepath.Glob(filepath.Join(dir, "*.tm"))
		files = append(files, m...)
	}
	for id, f := range files {
		b, err := os.ReadFile(f)
		if err != nil {
			return err
		}
		text := string(b)
		if !strings.Contains(text, "writeBison = true") {
			if loc := languageRE.FindStringIndex(text); loc != nil {
				text = text[:loc[1]] + "\nwriteBison = true\n" + text[loc[1]:]
			}
		}
		c := &c30Case{ID: id, Name: strings.TrimPrefix(f, repoDir()+"/")}
		c30One(c, f, text)
		if err := w.Write(c); err != nil {
			return err
		}
	}
	return w.Close()
}
