package main

import (
	"encoding/json"
	"context"
	"fmt"
	"math/rand"
	"os"
	"regexp"
	"strconv"
	"strings"

	"github.com/inspirer/textmapper/compiler"
	"github.com/inspirer/textmapper/grammar"
	"github.com/inspirer/textmapper/status"
)

func init() {
	register("c15-run", c15Run)
	register("c15-random", c15Random)
}

// set expression; symbols are harness-level in the input (terminal k = 1.., nonterminal index 0..) and in the compiled
// grammar's numbering in the output
type sxExpr struct {
	K   string    `json:"k"` // any first last follow precede or and not ref
	S   int       `json:"s"`
	T   bool      `json:"t"` // the symbol is a terminal
	Sub []*sxExpr `json:"sub"`
	I   int       `json:"i"` // ref: 1-based index of an earlier named set
}

type sxNamed struct {
	Name      string  `json:"name"`
	E         *sxExpr `json:"e"`
	Terminals []int   `json:"terminals"`
}

type c15Case struct {
	ID       int         `json:"id"`
	NTerms   int         `json:"nterms"`
	Src      []sgNonterm `json:"src,omitempty"`
	InputNs  []int       `json:"inputNs"`
	HasError bool        `json:"hasError"`
	Host     int         `json:"host"` // nonterminal that receives the in-rule set, -1 if none
	SX       *sxExpr     `json:"sx"`   // in-rule set expression (compiled numbering on output)
	Named    []sxNamed   `json:"sets"`

	Text     string    `json:"tmtext"`
	Err      string    `json:"err"`
	ComplErr bool      `json:"complErr"`
	G        sgGrammar `json:"g"`  // expanded rules of the grammar
	G0       sgGrammar `json:"g0"` // expanded rules of the twin grammar in which the in-rule set is set(ta)
	Start    int       `json:"start"`
	Start0   int       `json:"start0"`
	SSym     int       `json:"ssym"`  // the set nonterminal in g (-1 if none)
	SSym0    int       `json:"ssym0"` // ... in g0
	SX0      *sxExpr   `json:"sx0"`
	LaHosts  [][2]int  `json:"laHosts"` // [host nonterminal, lookahead target] (compiled numbering)
	AfterErr []int     `json:"afterErr"`
	ErrSym   int       `json:"errSym"`
	Usable   bool      `json:"usable"`
	Orig     string    `json:"orig"` // the input of this case (JSON), for replays
}

func (e *sxExpr) render(named []sxNamed) string {
	name := func() string {
		if e.T {
			return termName(e.S)
		}
		return sgName(e.S)
	}
	switch e.K {
	case "any":
		return name()
	case "first", "last", "follow", "precede":
		return e.K + " " + name()
	case "or", "and":
		var p []string
		for _, s := range e.Sub {
			p = append(p, s.render(named))
		}
		sep := " | "
		if e.K == "and" {
			sep = " & "
		}
		return "(" + strings.Join(p, sep) + ")"
	case "not":
		return "~(" + e.Sub[0].render(named) + ")"
	case "ref":
		return named[e.I-1].Name
	}
	panic("bad set node " + e.K)
}

func (e *sxExpr) clone() *sxExpr {
	c := *e
	c.Sub = []*sxExpr{}
	for _, s := range e.Sub {
		c.Sub = append(c.Sub, s.clone())
	}
	return &c
}

func (e *sxExpr) rewrite(byName map[string]int) {
	switch e.K {
	case "any", "first", "last", "follow", "precede":
		if e.T {
			if t, ok := byName[termName(e.S)]; ok {
				e.S = t
			} else {
				e.S = byName["error"] // the terminal after the last plain one is 'error'
			}
		} else {
			e.S = byName[sgName(e.S)]
		}
	}
	for _, s := range e.Sub {
		s.rewrite(byName)
	}
}

func sgCompile(text string) (g *grammar.Grammar, errMsg string, conflict bool) {
	g, err := compiler.Compile(context.Background(), "sg.tm", text, compiler.Params{})
	if err != nil {
		for _, e := range status.FromError(err) {
			if strings.Contains(e.Msg, "conflict") {
				conflict = true
			} else {
				errMsg = truncate(e.Msg, 200)
			}
		}
	}
	return
}

func dumpSG(g *grammar.Grammar, out *sgGrammar) map[string]int {
	byName := map[string]int{}
	for i, s := range g.Syms {
		byName[s.Name] = i
	}
	out.NT, out.NS = g.Parser.NumTerminals, len(g.Syms)
	out.Rules = []jsRule{}
	for _, r := range g.Parser.Rules {
		jr := jsRule{LHS: int(r.LHS), RHS: []int{}}
		for _, s := range r.RHS {
			if !s.IsStateMarker() {
				jr.RHS = append(jr.RHS, int(s))
			}
		}
		jr.normalizeRule()
		out.Rules = append(out.Rules, jr)
	}
	return byName
}

func setSym(g *grammar.Grammar) int {
	ret := -1
	for i, s := range g.Syms {
		if strings.HasPrefix(s.Name, "setof_") {
			if ret >= 0 {
				return -2
			}
			ret = i
		}
	}
	return ret
}

func (c *c15Case) text(sx string) string {
	var b strings.Builder
	b.WriteString("language sg(go);\n\neventBased = true\n\n:: lexer\n\nWS: /[ \\n]+/ (space)\n")
	for t := 1; t <= c.NTerms; t++ {
		fmt.Fprintf(&b, "%s: /%s/\n", termName(t), termChar(t))
	}
	if c.HasError {
		b.WriteString("error:\n")
	}
	b.WriteString("\n:: parser\n\n%input ")
	for i, n := range c.InputNs {
		if i > 0 {
			b.WriteString(", ")
		}
		b.WriteString(sgName(n))
	}
	b.WriteString(";\n\n")
	for i := range c.Named {
		fmt.Fprintf(&b, "%%generate %s = set(%s);\n", c.Named[i].Name, c.Named[i].E.render(c.Named))
	}
	b.WriteString("\n")
	for i, nt := range c.Src {
		body := nt.E.render()
		if nt.E.K == "alt" {
			body = strings.TrimSuffix(strings.TrimPrefix(body, "("), ")")
		}
		if i == c.Host && sx != "" {
			body = "set(" + sx + ") (" + body + ")"
			if nt.E.K == "alt" {
				body = "set(" + sx + ") | " + strings.TrimSuffix(strings.TrimPrefix(nt.E.render(), "("), ")")
				if c.ID%2 == 0 {
					body = strings.TrimSuffix(strings.TrimPrefix(nt.E.render(), "("), ")") + " | " + sgName(nt.Sym) + " set(" + sx + ")"
				}
			}
		}
		fmt.Fprintf(&b, "%s :\n    %s\n;\n\n", sgName(nt.Sym), body)
	}
	s := b.String()
	if c.HasError {
		s = regexp.MustCompile(`\b`+termName(c.NTerms+1)+`\b`).ReplaceAllString(s, "error")
	}
	return s
}

func c15Exec(c *c15Case) {
	if c.Orig != "" {
		var in c15Case
		if err := json.Unmarshal([]byte(c.Orig), &in); err != nil {
			panic(err)
		}
		*c = in
	}
	orig, _ := json.Marshal(c)
	c.Orig = string(orig)
	c.AfterErr = []int{}
	c.LaHosts = [][2]int{}
	c.G.Rules, c.G0.Rules = []jsRule{}, []jsRule{}
	c.SSym, c.SSym0, c.ErrSym, c.Start, c.Start0 = -1, -1, -1, -1, -1
	for i := range c.Named {
		c.Named[i].Terminals = []int{}
	}
	defer func() {
		if r := recover(); r != nil {
			c.Err = fmt.Sprint("panic: ", r)
			c.Usable = false
		}
		c.Src = nil
	}()
	sx := ""
	if c.SX != nil && c.Host >= 0 {
		sx = c.SX.render(c.Named)
		c.SX0 = c.SX.clone()
	} else {
		c.Host = -1
		c.SX = &sxExpr{K: "or", Sub: []*sxExpr{}}
		c.SX0 = c.SX.clone()
	}
	c.Text = c.text(sx)
	if renderOnly {
		return
	}
	// the twin: same grammar, the in-rule set replaced by a plain terminal set
	twin := c.Text
	if sx != "" {
		twin = c.text("ta")
	}
	g0, err0, _ := sgCompile(twin)
	if g0 == nil || g0.Parser == nil || len(g0.Parser.Rules) == 0 || err0 != "" {
		c.Err = "twin: " + err0
		return
	}
	by0 := dumpSG(g0, &c.G0)
	c.SX0.rewrite(by0)
	c.SSym0 = setSym(g0)
	c.Start0 = by0[sgName(c.InputNs[0])]
	for _, nt := range c.Src {
		var walk func(e *sgExpr)
		walk = func(e *sgExpr) {
			if e.K == "la" {
				c.LaHosts = append(c.LaHosts, [2]int{by0[sgName(nt.Sym)], by0[sgName(e.S)]})
			}
			for _, s := range e.Sub {
				walk(s)
			}
		}
		walk(nt.E)
	}

	if (c.Host >= 0) != (c.SSym0 >= 0) {
		c.Err = "twin: set nonterminal not identified"
		return
	}
	c.Usable = true

	g, errMsg, _ := sgCompile(c.Text)
	c.Err = errMsg
	c.ComplErr = strings.Contains(errMsg, "set complement cannot transitively depend on itself")
	if g == nil || g.Parser == nil || len(g.Parser.Rules) == 0 {
		if c.Err == "" {
			c.Err = "no expanded rules available"
		}
		return
	}
	by := dumpSG(g, &c.G)
	c.SX.rewrite(by)
	for i := range c.Named {
		c.Named[i].E.rewrite(by)
	}
	c.SSym = setSym(g)
	c.Start = by[sgName(c.InputNs[0])]
	if c.HasError {
		c.ErrSym = by["error"]
	}
	found := map[string]bool{}
	for _, s := range g.Sets {
		found[s.Name] = true
		if s.Name == "afterErr" {
			c.AfterErr = append(c.AfterErr, s.Terminals...)
			continue
		}
		for i := range c.Named {
			if c.Named[i].Name == s.Name {
				c.Named[i].Terminals = append(c.Named[i].Terminals, s.Terminals...)
			}
		}
	}
	for i := range c.Named {
		if !found[c.Named[i].Name] && c.Err == "" {
			c.Err = "named set missing from the compiled grammar: " + c.Named[i].Name
		}
	}
	if c.HasError && !found["afterErr"] && c.Err == "" {
		c.Err = "afterErr missing from the compiled grammar"
	}
}

func c15Run(args []string) error {
	cases, err := readNDJSON[c15Case](args[0])
	if err != nil {
		return err
	}
	w, err := newNDWriter(args[1])
	if err != nil {
		return err
	}
	for i := range cases {
		c := &cases[i]
		c15Exec(c)
		if err := w.Write(c); err != nil {
			return err
		}
	}
	return w.Close()
}

func sxGen(r *rand.Rand, d, nterms, nnts, nnamed int, allowNot bool) *sxExpr {
	if d == 0 || r.Intn(3) == 0 {
		if nnamed > 0 && r.Intn(4) == 0 {
			return &sxExpr{K: "ref", I: 1 + r.Intn(nnamed), Sub: []*sxExpr{}}
		}
		k := []string{"any", "first", "last", "follow", "precede", "follow", "precede"}[r.Intn(7)]
		if r.Intn(3) == 0 {
			return &sxExpr{K: k, S: 1 + r.Intn(nterms), T: true, Sub: []*sxExpr{}}
		}
		return &sxExpr{K: k, S: r.Intn(nnts), Sub: []*sxExpr{}}
	}
	switch x := r.Intn(5); {
	case x < 2:
		return &sxExpr{K: "or", Sub: []*sxExpr{sxGen(r, d-1, nterms, nnts, nnamed, allowNot), sxGen(r, d-1, nterms, nnts, nnamed, allowNot)}}
	case x < 3:
		return &sxExpr{K: "and", Sub: []*sxExpr{sxGen(r, d-1, nterms, nnts, nnamed, allowNot), sxGen(r, d-1, nterms, nnts, nnamed, allowNot)}}
	case x < 4 && allowNot:
		return &sxExpr{K: "not", Sub: []*sxExpr{sxGen(r, d-1, nterms, nnts, nnamed, allowNot)}}
	default:
		return sxGen(r, d-1, nterms, nnts, nnamed, allowNot)
	}
}

func sgNonNullable(e *sgExpr) bool {
	switch e.K {
	case "t":
		return true
	case "seq":
		for _, s := range e.Sub {
			if sgNonNullable(s) {
				return true
			}
		}
		return false
	case "alt":
		for _, s := range e.Sub {
			if !sgNonNullable(s) {
				return false
			}
		}
		return len(e.Sub) > 0
	case "list":
		return e.Plus && sgNonNullable(e.Sub[0])
	}
	return false
}

func stripSets(e *sgExpr, r *rand.Rand, nterms int) {
	if e.K == "set" || e.K == "la" {
		e.K, e.S, e.C = "t", 1+r.Intn(nterms), nil
	}
	for _, s := range e.Sub {
		stripSets(s, r, nterms)
	}
}

// c15-random <n> <out>
func c15Random(args []string) error {
	n, _ := strconv.Atoi(args[0])
	seed, _ := strconv.ParseInt(os.Getenv("VERIF_SEED"), 10, 64)
	r := rand.New(rand.NewSource(seed*86028121 + 15))
	w, err := newNDWriter(args[1])
	if err != nil {
		return err
	}
	for id := 0; id < n; id++ {
		c := &c15Case{ID: id, NTerms: 2 + r.Intn(3), Host: -1}
		c.HasError = r.Intn(3) == 0
		nt := c.NTerms
		if c.HasError {
			nt++ // the last terminal is 'error'
		}
		nnts := 1 + r.Intn(4)
		for i := 0; i < nnts; i++ {
			e := sgGen(r, 1+r.Intn(3), nt, nnts, false)
			stripSets(e, r, nt)
			c.Src = append(c.Src, sgNonterm{Sym: i, E: e})
		}
		c.InputNs = []int{0}
		if nnts > 1 && r.Intn(4) == 0 {
			c.InputNs = append(c.InputNs, 1)
		}
		if r.Intn(4) == 0 {
			// a nonterminal that is referenced only from a lookahead predicate (positive or negated) of a reachable rule
			la := len(c.Src)
			e := sgGen(r, 1, nt, nnts, false)
			stripSets(e, r, nt)
			if !sgNonNullable(e) {
				e = &sgExpr{K: "seq", Sub: []*sgExpr{{K: "t", S: 1 + r.Intn(nt)}, e}}
			}
			c.Src = append(c.Src, sgNonterm{Sym: la, E: e})
			op := ""
			if r.Intn(2) == 0 {
				op = "not"
			}
			host := c.Src[0].E
			c.Src[0].E = &sgExpr{K: "seq", Sub: []*sgExpr{{K: "la", S: la, Op: op}, {K: "t", S: 1 + r.Intn(nt)}, host}}
			nnts++
		}
		nnamed := r.Intn(4)
		recursive := r.Intn(3) == 0 // named sets may refer to any named set, else only to earlier ones
		refTo := func(i int) int {
			if recursive {
				return nnamed
			}
			return i
		}
		for i := 0; i < nnamed; i++ {
			c.Named = append(c.Named, sxNamed{Name: fmt.Sprintf("ns%d", i), E: sxGen(r, 1+r.Intn(3), nt, nnts, refTo(i), true)})
		}
		if c.Named == nil {
			c.Named = []sxNamed{}
		}
		if r.Intn(2) == 0 {
			c.Host = r.Intn(nnts)
			c.SX = sxGen(r, 1+r.Intn(2), nt, nnts, 0, r.Intn(2) == 0)
		}
		c15Exec(c)
		if err := w.Write(c); err != nil {
			return err
		}
	}
	return w.Close()
}
