package main

import (
	"fmt"
	"math/rand"
	"os"
	"os/exec"
	"sort"
	"strconv"

	"github.com/inspirer/textmapper/util/container"
	"github.com/inspirer/textmapper/util/set"
)

func init() {
	register("c25-run", c25Run)
	register("c25-random", c25Random)
	register("c25-one", c25One)
}

type jsSet struct {
	Inv bool  `json:"inv"`
	Set []int `json:"set"`
}

type c25Node struct {
	Op    string `json:"op"`
	Base  []int  `json:"base"`
	Edges []int  `json:"edges"`
}

type c25Case struct {
	ID    int       `json:"id"`
	Kind  string    `json:"kind"`
	A     *jsSet    `json:"a,omitempty"`
	B     *jsSet    `json:"b,omitempty"`
	Nodes []c25Node `json:"nodes,omitempty"`

	// recorded from the implementation
	Merge        *jsSet  `json:"merge,omitempty"`
	Inter        *jsSet  `json:"inter,omitempty"`
	Compl        *jsSet  `json:"compl,omitempty"`
	InputsIntact bool    `json:"inputsIntact"`
	Err          bool    `json:"err"`
	ErrNodes     []int   `json:"errNodes"`
	Vals         []jsSet `json:"vals"`
	Crash        string  `json:"crash,omitempty"`
}

func toIntSet(s *jsSet) container.IntSet {
	return container.IntSet{Inverse: s.Inv, Set: append([]int{}, s.Set...)}
}

func fromIntSet(s container.IntSet) *jsSet {
	return &jsSet{Inv: s.Inverse, Set: append([]int{}, s.Set...)}
}

func sameInts(a, b []int) bool {
	if len(a) != len(b) {
		return false
	}
	for i := range a {
		if a[i] != b[i] {
			return false
		}
	}
	return true
}

func c25Alg(c *c25Case) {
	a, b := toIntSet(c.A), toIntSet(c.B)
	buf := make([]int, 0, 16)
	c.Merge = fromIntSet(container.Merge(a, b, buf))
	ok := sameInts(a.Set, c.A.Set) && sameInts(b.Set, c.B.Set)
	buf2 := make([]int, 0, 16)
	c.Inter = fromIntSet(container.Intersect(a, b, buf2))
	ok = ok && sameInts(a.Set, c.A.Set) && sameInts(b.Set, c.B.Set)
	c.Compl = fromIntSet(a.Complement())
	c.InputsIntact = ok && sameInts(a.Set, c.A.Set)
}

// c25Closure builds the system through the public API only. log.Fatal paths (Include on a
// non-union set) are unreachable by construction: intersection/complement nodes are created
// from already existing sets.
func c25Closure(c *c25Case) {
	cl := set.NewClosure(8)
	fs := make([]*set.FutureSet, len(c.Nodes))
	for i, n := range c.Nodes {
		switch n.Op {
		case "u":
			fs[i] = cl.Add(append([]int{}, n.Base...))
		case "i":
			var args []*set.FutureSet
			for _, e := range n.Edges {
				args = append(args, fs[e])
			}
			fs[i] = cl.Intersect(args...)
		case "c":
			fs[i] = cl.Complement(fs[n.Edges[0]], nil)
		}
	}
	for i, n := range c.Nodes {
		if n.Op == "u" {
			for _, e := range n.Edges {
				fs[i].Include(fs[e])
			}
		}
	}
	err := cl.Compute()
	c.Vals = []jsSet{}
	c.ErrNodes = []int{}
	if err != nil {
		c.Err = true
		if ce, ok := err.(set.ClosureError); ok {
			seen := map[int]bool{}
			for _, f := range ce {
				for i := range fs {
					if fs[i] == f && !seen[i] {
						seen[i] = true
						c.ErrNodes = append(c.ErrNodes, i)
					}
				}
			}
			sort.Ints(c.ErrNodes)
		}
		return
	}
	for _, f := range fs {
		c.Vals = append(c.Vals, *fromIntSet(f.IntSet))
	}
}

func c25Exec(c *c25Case) {
	c.Vals, c.ErrNodes = []jsSet{}, []int{}
	if c.Kind == "alg" {
		c25Alg(c)
	} else {
		c25Closure(c)
	}
}

// c25-run <cases.ndjson> <out.ndjson>: replay TLC-generated cases into the real code.
func c25Run(args []string) error {
	cases, err := readNDJSON[c25Case](args[0])
	if err != nil {
		return err
	}
	w, err := newNDWriter(args[1])
	if err != nil {
		return err
	}
	for i := range cases {
		c := &cases[i]
		c.ID = i
		c25Exec(c)
		if err := w.Write(c); err != nil {
			return err
		}
	}
	return w.Close()
}

// c25-one: used for crash isolation (log.Fatal in the library) - not needed on the API-built universe.
func c25One(args []string) error { return c25Run(args) }

// c25-random <n> <out.ndjson>: seeded random larger systems / sets (recorded for TLC to validate).
func c25Random(args []string) error {
	n, _ := strconv.Atoi(args[0])
	seed, _ := strconv.ParseInt(os.Getenv("VERIF_SEED"), 10, 64)
	r := rand.New(rand.NewSource(seed*7919 + 25))
	w, err := newNDWriter(args[1])
	if err != nil {
		return err
	}
	subset := func(max int, p float64) []int {
		s := []int{}
		for i := 0; i <= max; i++ {
			if r.Float64() < p {
				s = append(s, i)
			}
		}
		return s
	}
	for id := 0; id < n; id++ {
		c := &c25Case{ID: id}
		if id%5 == 0 {
			c.Kind = "alg"
			mx := 4 + r.Intn(8)
			c.A = &jsSet{Inv: r.Intn(2) == 0, Set: subset(mx, r.Float64())}
			c.B = &jsSet{Inv: r.Intn(2) == 0, Set: subset(mx, r.Float64())}
		} else {
			c.Kind = "closure"
			nn := 4 + r.Intn(4)
			mx := 1 + r.Intn(3)
			pc := 0.15 + 0.25*r.Float64()
			for i := 0; i < nn; i++ {
				var nd c25Node
				x := r.Float64()
				switch {
				case i > 0 && x < pc:
					nd = c25Node{Op: "c", Base: []int{}, Edges: []int{r.Intn(i)}}
				case i > 0 && x < 2*pc:
					nd = c25Node{Op: "i", Base: []int{}, Edges: []int{}}
					k := 1 + r.Intn(3)
					for j := 0; j < k; j++ {
						nd.Edges = append(nd.Edges, r.Intn(i))
					}
					sort.Ints(nd.Edges)
				default:
					nd = c25Node{Op: "u", Base: subset(mx, 0.4), Edges: []int{}}
					k := r.Intn(3)
					for j := 0; j < k; j++ {
						nd.Edges = append(nd.Edges, r.Intn(nn))
					}
					sort.Ints(nd.Edges)
				}
				c.Nodes = append(c.Nodes, nd)
			}
		}
		c25Exec(c)
		if err := w.Write(c); err != nil {
			return err
		}
	}
	return w.Close()
}

var _ = exec.Command
var _ = fmt.Sprintf
