package main

import (
	"fmt"
	"math/rand"
	"os"
	"strconv"
	"strings"

	"github.com/inspirer/textmapper/lex"
	"github.com/inspirer/textmapper/shiftdfa"
)

func init() {
	register("lex-run", lexRun)
	register("lex-random", lexRandom)
}

// ---- symbolic alphabets

type lexAlphabet struct {
	Mode  string   // rune | fold | bytes
	Chars []string // symbol (1-based) -> text
	Pat   []string // symbol -> spelling inside a pattern
	Width []int
	Canon []int
}

func alphabetFor(mode string) lexAlphabet {
	switch mode {
	case "fold":
		return lexAlphabet{Mode: mode, Chars: []string{"a", "b", "A", "B", "c"}, Pat: []string{"a", "b", "A", "B", "c"}, Width: []int{1, 1, 1, 1, 1}, Canon: []int{1, 2, 1, 2, 5}}
	case "foldbytes":
		return lexAlphabet{Mode: mode, Chars: []string{"k", "K", "s", "S", "a"}, Pat: []string{"k", "K", "s", "S", "a"}, Width: []int{1, 1, 1, 1, 1}, Canon: []int{1, 1, 3, 3, 5}}
	case "bytes":
		return lexAlphabet{Mode: mode, Chars: []string{"a", "b", "\x7f", "\x80", "\x85", "\xc3", "\xff"}, Pat: []string{"a", "b", `\x7f`, `\x80`, `\x85`, `\xc3`, `\xff`},
			Width: []int{1, 1, 1, 1, 1, 1, 1}, Canon: []int{1, 2, 3, 4, 5, 6, 7}}
	}
	return lexAlphabet{Mode: "rune", Chars: []string{"a", "b", "c", "é", "𝄞"}, Pat: []string{"a", "b", "c", "é", "𝄞"}, Width: []int{1, 1, 1, 2, 4}, Canon: []int{1, 2, 3, 4, 5}}
}

type reAST struct {
	K   string   `json:"k"`
	C   []int    `json:"c,omitempty"`
	Neg bool     `json:"neg"`
	Sub []*reAST `json:"sub,omitempty"`
	Min int      `json:"min"`
	Max int      `json:"max"`
}

func (e *reAST) render(a lexAlphabet) string {
	switch e.K {
	case "lit":
		if a.Mode == "bytes" && a.Chars[e.C[0]-1][0] >= 0x80 {
			// outside a class, a non-ASCII literal or escape stands for the UTF-8 encoding of that code point even in
			// byte mode; a single byte >= 0x80 can only be written as a class
			return "[" + a.Pat[e.C[0]-1] + "]"
		}
		return a.Pat[e.C[0]-1]
	case "class":
		var sb strings.Builder
		sb.WriteByte('[')
		if e.Neg {
			sb.WriteByte('^')
		}
		for _, c := range e.C {
			sb.WriteString(a.Pat[c-1])
		}
		sb.WriteByte(']')
		return sb.String()
	case "cat":
		return "(" + e.Sub[0].render(a) + ")(" + e.Sub[1].render(a) + ")"
	case "alt":
		return "(" + e.Sub[0].render(a) + "|" + e.Sub[1].render(a) + ")"
	case "star":
		return "(" + e.Sub[0].render(a) + ")*"
	case "plus":
		return "(" + e.Sub[0].render(a) + ")+"
	case "opt":
		return "(" + e.Sub[0].render(a) + ")?"
	case "rep":
		q := fmt.Sprintf("{%d,%d}", e.Min, e.Max)
		if e.Max == -1 {
			q = fmt.Sprintf("{%d,}", e.Min)
		} else if e.Max == e.Min {
			q = fmt.Sprintf("{%d}", e.Min)
		}
		return "(" + e.Sub[0].render(a) + ")" + q
	}
	panic("bad regexp node " + e.K)
}

type lexRuleJS struct {
	Re     *reAST `json:"re"`
	Prio   int    `json:"prio"`
	Action int    `json:"action"`
	SC     []int  `json:"sc"`
	Text   string `json:"text"`
}

type lexScan struct {
	SC     int   `json:"sc"`
	T      []int `json:"t"`
	Size   int   `json:"size"`
	Action int   `json:"action"`
}

type lexCase struct {
	ID    int         `json:"id"`
	Mode  string      `json:"mode"`
	NSC   int         `json:"nsc"`
	L     int         `json:"L"`
	Rules []lexRuleJS `json:"rules"`

	Width   []int     `json:"width"`
	Canon   []int     `json:"canon"`
	Err     string    `json:"err"`
	NBt     int       `json:"nbt"`
	NStates int       `json:"nstates"`
	Scans   []lexScan `json:"scans"`
	SdfaOk  bool      `json:"sdfaOk"`
	SdfaErr string    `json:"sdfaErr"`
	Sdfa    []lexScan `json:"sdfa"`
	Crash   string    `json:"crash"`
}

func lexExec(c *lexCase) {
	defer func() {
		if r := recover(); r != nil {
			c.Crash = fmt.Sprint("panic: ", r)
		}
	}()
	a := alphabetFor(c.Mode)
	c.Mode = a.Mode
	c.Width, c.Canon = a.Width, a.Canon
	c.Scans, c.Sdfa = []lexScan{}, []lexScan{}
	if c.NSC == 0 {
		c.NSC = 1
	}
	opts := lex.CharsetOptions{Fold: a.Mode == "fold" || a.Mode == "foldbytes", ScanBytes: a.Mode == "bytes" || a.Mode == "foldbytes"}
	var rules []*lex.Rule
	var srules []shiftdfa.Rule
	for i := range c.Rules {
		r := &c.Rules[i]
		if len(r.SC) == 0 {
			r.SC = []int{0}
		}
		r.Text = r.Re.render(a)
		p, err := lex.ParseRegexp(r.Text, opts)
		if err != nil {
			c.Err = "parse: " + err.Error()
			return
		}
		rules = append(rules, &lex.Rule{
			Pattern:         &lex.Pattern{Name: fmt.Sprintf("r%d", i), RE: p, Text: r.Text, Origin: srcNode{"rule", i}},
			StartConditions: append([]int{}, r.SC...), Precedence: r.Prio, Action: r.Action, Origin: srcNode{"rule", i}})
		srules = append(srules, shiftdfa.Rule{Pattern: r.Text, Token: r.Action, Precedence: r.Prio})
	}
	t, err := lex.Compile(rules, opts.ScanBytes, true /*allowBacktracking*/)
	if err != nil {
		c.Err = err.Error()
	} else {
		c.NBt = len(t.Backtrack)
		c.NStates = len(t.Dfa) / t.NumSymbols
	}
	var texts [][]int
	var rec func(pref []int)
	rec = func(pref []int) {
		texts = append(texts, append([]int{}, pref...))
		if len(pref) < c.L {
			for x := 1; x <= len(a.Chars); x++ {
				rec(append(pref, x))
			}
		}
	}
	rec(nil)
	// deeper texts: random members of each rule's language, their prefixes and one-symbol extensions
	rs := rand.New(rand.NewSource(int64(len(c.Rules))*7919 + int64(c.L)))
	seenText := map[string]bool{}
	for _, tx := range texts {
		seenText[fmt.Sprint(tx)] = true
	}
	addText := func(tx []int) {
		if k := fmt.Sprint(tx); len(tx) <= 14 && !seenText[k] && len(texts) < 4000 {
			seenText[k] = true
			texts = append(texts, append([]int{}, tx...))
		}
	}
	for i := range c.Rules {
		for n := 0; n < 6; n++ {
			w := sampleRE(rs, c.Rules[i].Re, len(a.Chars), 12)
			for p := 1; p <= len(w); p++ {
				addText(w[:p])
				addText(append(append([]int{}, w[:p]...), 1+rs.Intn(len(a.Chars))))
			}
		}
	}
	str := func(t []int) string {
		var sb strings.Builder
		for _, x := range t {
			sb.WriteString(a.Chars[x-1])
		}
		return sb.String()
	}
	if err == nil {
		c.NSC = len(t.StateMap)
		for sc := 0; sc < c.NSC; sc++ {
			for _, tx := range texts {
				size, act := t.Scan(sc, str(tx))
				c.Scans = append(c.Scans, lexScan{SC: sc, T: tx, Size: size, Action: act})
			}
		}
	}
	if a.Mode == "bytes" && c.NSC == 1 { // shiftdfa.Compile has no case-folding option
		sd, err := shiftdfa.Compile(srules, shiftdfa.Options{})
		if err != nil {
			c.SdfaErr = err.Error()
		} else {
			c.SdfaOk = true
			for _, tx := range texts {
				size, tok := sd.Scan(str(tx))
				c.Sdfa = append(c.Sdfa, lexScan{T: tx, Size: size, Action: int(tok)})
			}
		}
	}
}

func lexRun(args []string) error {
	cases, err := readNDJSON[lexCase](args[0])
	if err != nil {
		return err
	}
	w, err := newNDWriter(args[1])
	if err != nil {
		return err
	}
	for i := range cases {
		c := &cases[i]
		c.ID = i
		lexExec(c)
		if err := w.Write(c); err != nil {
			return err
		}
	}
	return w.Close()
}

// ---- seeded random rule sets

func genRE(r *rand.Rand, d, nsym int) *reAST {
	if d == 0 || r.Intn(3) == 0 {
		if r.Intn(3) == 0 {
			var cs []int
			for i := 1; i <= nsym; i++ {
				if r.Intn(3) == 0 {
					cs = append(cs, i)
				}
			}
			if len(cs) == 0 {
				cs = []int{1 + r.Intn(nsym)}
			}
			neg := r.Intn(4) == 0
			if neg && len(cs) >= nsym-1 { // keep negated classes non-empty over the alphabet (two canonical symbols at least stay)
				cs = cs[:1]
			}
			return &reAST{K: "class", C: cs, Neg: neg}
		}
		return &reAST{K: "lit", C: []int{1 + r.Intn(nsym)}}
	}
	switch r.Intn(7) {
	case 0, 1:
		return &reAST{K: "cat", Sub: []*reAST{genRE(r, d-1, nsym), genRE(r, d-1, nsym)}}
	case 2:
		return &reAST{K: "alt", Sub: []*reAST{genRE(r, d-1, nsym), genRE(r, d-1, nsym)}}
	case 3:
		return &reAST{K: "star", Sub: []*reAST{genRE(r, d-1, nsym)}}
	case 4:
		return &reAST{K: "plus", Sub: []*reAST{genRE(r, d-1, nsym)}}
	case 5:
		min := r.Intn(3)
		max := min + r.Intn(3)
		if r.Intn(4) == 0 {
			max = -1
		}
		if max == 0 {
			max = 1
		}
		return &reAST{K: "rep", Sub: []*reAST{genRE(r, d-1, nsym)}, Min: min, Max: max}
	default:
		return &reAST{K: "opt", Sub: []*reAST{genRE(r, d-1, nsym)}}
	}
}

// sampleRE returns a random string of the regexp's language (bounded length), symbols 1..nsym.
func sampleRE(r *rand.Rand, e *reAST, nsym, budget int) []int {
	switch e.K {
	case "lit":
		return []int{e.C[0]}
	case "class":
		if !e.Neg {
			return []int{e.C[r.Intn(len(e.C))]}
		}
		for tries := 0; tries < 20; tries++ {
			x := 1 + r.Intn(nsym)
			ok := true
			for _, c := range e.C {
				if c == x {
					ok = false
				}
			}
			if ok {
				return []int{x}
			}
		}
		return []int{1}
	case "cat":
		a := sampleRE(r, e.Sub[0], nsym, budget)
		return append(a, sampleRE(r, e.Sub[1], nsym, budget-len(a))...)
	case "alt":
		return sampleRE(r, e.Sub[r.Intn(2)], nsym, budget)
	case "opt":
		if r.Intn(2) == 0 {
			return nil
		}
		return sampleRE(r, e.Sub[0], nsym, budget)
	case "star", "plus", "rep":
		min, max := 0, 3
		if e.K == "plus" {
			min = 1
		}
		if e.K == "rep" {
			min, max = e.Min, e.Max
			if max == -1 {
				max = min + 2
			}
		}
		n := min
		if max > min {
			n += r.Intn(max - min + 1)
		}
		var out []int
		for i := 0; i < n && len(out) < budget; i++ {
			out = append(out, sampleRE(r, e.Sub[0], nsym, budget-len(out))...)
		}
		return out
	}
	return nil
}

func reNullable(e *reAST) bool {
	switch e.K {
	case "lit", "class":
		return false
	case "cat":
		return reNullable(e.Sub[0]) && reNullable(e.Sub[1])
	case "alt":
		return reNullable(e.Sub[0]) || reNullable(e.Sub[1])
	case "plus":
		return reNullable(e.Sub[0])
	case "rep":
		return e.Min == 0 || reNullable(e.Sub[0])
	}
	return true
}

// lex-random <n> <out> <mode> <L>
func lexRandom(args []string) error {
	n, _ := strconv.Atoi(args[0])
	mode := args[2]
	L, _ := strconv.Atoi(args[3])
	seed, _ := strconv.ParseInt(os.Getenv("VERIF_SEED"), 10, 64)
	r := rand.New(rand.NewSource(seed*611953 + int64(len(mode))*17 + 9))
	a := alphabetFor(mode)
	w, err := newNDWriter(args[1])
	if err != nil {
		return err
	}
	for id := 0; id < n; id++ {
		c := &lexCase{ID: id, Mode: mode, L: L, NSC: 1}
		if mode != "bytes" && mode != "foldbytes" && r.Intn(4) == 0 {
			c.NSC = 2
		}
		nr := 1 + r.Intn(3)
		for i := 0; i < nr; i++ {
			re := genRE(r, 1+r.Intn(3), len(a.Chars))
			if i == 0 && r.Intn(6) == 0 { // keyword-like rule: a chain of 7..10 literals (many DFA states)
				n := 7 + r.Intn(4)
				re = &reAST{K: "lit", C: []int{1 + r.Intn(2)}}
				for k := 1; k < n; k++ {
					re = &reAST{K: "cat", Sub: []*reAST{re, {K: "lit", C: []int{1 + r.Intn(2)}}}}
				}
			}
			if reNullable(re) && r.Intn(10) != 0 { // rule sets with a nullable rule are rejected; keep a few to test that
				re = &reAST{K: "cat", Sub: []*reAST{{K: "lit", C: []int{1 + r.Intn(len(a.Chars))}}, re}}
			}
			rule := lexRuleJS{Re: re, Prio: r.Intn(2), Action: 2 + i, SC: []int{0}}
			if c.NSC == 2 {
				switch r.Intn(3) {
				case 0:
					rule.SC = []int{1}
				case 1:
					rule.SC = []int{0, 1}
				}
			}
			c.Rules = append(c.Rules, rule)
		}
		lexExec(c)
		if err := w.Write(c); err != nil {
			return err
		}
	}
	return w.Close()
}
