package main

import (
	"fmt"
	"strconv"
	"strings"
	"unicode/utf8"

	"github.com/inspirer/textmapper/gen"
)

// emit-run <cases.ndjson> <out.ndjson>: the generator's table emission helpers (Emit.tla) through the gen.Verif* hooks.

func init() { register("emit-run", emitRun) }

type emitCase struct {
	K        string  `json:"k"`
	Arr      []int   `json:"arr"`
	PadLen   int     `json:"padLen"`
	MaxWidth int     `json:"maxWidth"`
	Keys     [][]int `json:"keys"`

	Crash   string   `json:"crash"`
	Width   int      `json:"width"`
	Values  []int    `json:"values"`
	Breaks  []int    `json:"breaks"`
	MaxLine int      `json:"maxLine"`
	Size    int      `json:"size"`
	Cases   [][4]any `json:"cases"`
}

func emitExec(c *emitCase) {
	defer func() {
		if r := recover(); r != nil {
			c.Crash = fmt.Sprint("panic: ", r)
		}
	}()
	switch c.K {
	case "width":
		c.Width = gen.VerifBitsPerElement(c.Arr)
	case "layout":
		pad := strings.Repeat("\t", 1)
		if c.PadLen == 2 {
			pad = "  "
		}
		text := gen.VerifIntArray(c.Arr, pad, c.MaxWidth)
		if len(c.Arr) > 0 && (!strings.HasPrefix(text, "\n") || !strings.HasSuffix(text, "\n")) {
			c.Crash = "text does not start and end with a newline"
			return
		}
		n := 0
		for _, line := range strings.Split(strings.Trim(text, "\n"), "\n") {
			if !strings.HasPrefix(line, pad) {
				c.Crash = "line without padding: " + strconv.Quote(line)
				return
			}
			if l := utf8.RuneCountInString(line); l > c.MaxLine {
				c.MaxLine = l
			}
			for k, f := range strings.Split(strings.TrimSuffix(strings.TrimPrefix(line, pad), ","), ", ") {
				v, err := strconv.Atoi(f)
				if err != nil {
					c.Crash = "entry is not a number: " + strconv.Quote(f)
					return
				}
				n++
				if k == 0 {
					c.Breaks = append(c.Breaks, n)
				}
				c.Values = append(c.Values, v)
			}
		}
	case "switch":
		m := map[string]int{}
		for i, k := range c.Keys {
			var sb strings.Builder
			for _, r := range k {
				sb.WriteRune(rune(r))
			}
			m[sb.String()] = i + 1
		}
		size, cases := gen.VerifStringSwitch(m)
		c.Size = int(size)
		for _, cs := range cases {
			key := []int{}
			for _, r := range cs[2].(string) {
				key = append(key, int(r))
			}
			c.Cases = append(c.Cases, [4]any{int(cs[0].(uint32)), [2]int{int(cs[1].(uint32) >> 16), int(cs[1].(uint32) & 0xffff)}, key, cs[3].(int)})
		}
	}
}

func emitRun(args []string) error {
	cases, err := readNDJSON[emitCase](args[0])
	if err != nil {
		return err
	}
	w, err := newNDWriter(args[1])
	if err != nil {
		return err
	}
	for i := range cases {
		c := &cases[i]
		c.Values, c.Breaks, c.Cases = []int{}, []int{}, [][4]any{}
		if c.Arr == nil {
			c.Arr = []int{}
		}
		if c.Keys == nil {
			c.Keys = [][]int{}
		}
		emitExec(c)
		if err := w.Write(c); err != nil {
			return err
		}
	}
	return w.Close()
}
