//go:build verif

package main

import (
	"fmt"
	"math/rand"
	"os"
	"strconv"

	"github.com/inspirer/textmapper/lalr"
)

func init() {
	register("pack-run", packRun)
	register("pack-random", packRandom)
}

type packCase struct {
	ID      int        `json:"id"`
	Lines   [][][2]int `json:"lines"`
	Indices []int      `json:"indices"`
	Table   []int      `json:"table"`
	Check   []int      `json:"check"`
	Crash   string     `json:"crash"`
}

func packExec(c *packCase) {
	c.Indices, c.Table, c.Check = []int{}, []int{}, []int{}
	defer func() {
		if r := recover(); r != nil {
			c.Crash = fmt.Sprint("panic: ", r)
		}
	}()
	ind, tab, chk := lalr.VerifPack(c.Lines)
	c.Indices = append(c.Indices, ind...)
	c.Table = append(c.Table, tab...)
	c.Check = append(c.Check, chk...)
}

func packRun(args []string) error {
	cases, err := readNDJSON[packCase](args[0])
	if err != nil {
		return err
	}
	w, err := newNDWriter(args[1])
	if err != nil {
		return err
	}
	for i := range cases {
		packExec(&cases[i])
		if err := w.Write(&cases[i]); err != nil {
			return err
		}
	}
	return w.Close()
}

// pack-random <n> <out>: 2..12 lines over positions 0..3, values biased towards hash-colliding pairs
func packRandom(args []string) error {
	n, _ := strconv.Atoi(args[0])
	seed, _ := strconv.ParseInt(os.Getenv("VERIF_SEED"), 10, 64)
	r := rand.New(rand.NewSource(seed*373587883 + 5))
	w, err := newNDWriter(args[1])
	if err != nil {
		return err
	}
	for id := 0; id < n; id++ {
		c := &packCase{ID: id}
		for l := 0; l < 2+r.Intn(11); l++ {
			var line [][2]int
			for pos := 0; pos < 4; pos++ {
				if r.Intn(2) == 0 {
					line = append(line, [2]int{pos, []int{5, 6, 7, 39, 40, 1000, 1001, -3, -964}[r.Intn(9)]})
				}
			}
			if len(line) == 0 {
				line = append(line, [2]int{r.Intn(4), 5})
			}
			if r.Intn(4) == 0 && len(c.Lines) > 0 { // a copy of an earlier line, or its colliding twin
				src := c.Lines[r.Intn(len(c.Lines))]
				line = append([][2]int{}, src...)
				if len(line) >= 2 && r.Intn(2) == 0 {
					line[0][1]++
					line[len(line)-1][1] -= 961
					if len(line) == 3 {
						line[len(line)-1][1] += 961 - 961*961 // three pairs: 31^4 weight on the first value
					}
				}
			}
			c.Lines = append(c.Lines, line)
		}
		packExec(c)
		if err := w.Write(c); err != nil {
			return err
		}
	}
	return w.Close()
}
