package main

import (
	"math/rand"
	"os"
	"strconv"

	"github.com/inspirer/textmapper/util/container"
	"github.com/inspirer/textmapper/util/graph"
)

func init() {
	register("c26-run", c26Run)
	register("c26-random", c26Random)
}

type c26Case struct {
	ID int     `json:"id"`
	G  [][]int `json:"g"`

	Comps     [][]int `json:"comps"`
	Stacks    [][]int `json:"stacks"`
	Closure   [][]int `json:"closure"`
	MGraph    [][]int `json:"mgraph"`
	Transpose [][]int `json:"transpose"`
	PathNil   bool    `json:"pathNil"`
	Path      []int   `json:"path"`
}

func copyGraph(g [][]int) [][]int {
	ret := make([][]int, len(g))
	for i, e := range g {
		ret[i] = append([]int{}, e...)
	}
	return ret
}

func c26Exec(c *c26Case) {
	n := len(c.G)
	c.Comps, c.Stacks = [][]int{}, [][]int{}
	graph.Tarjan(copyGraph(c.G), func(vertices []int, onStack container.BitSet) {
		c.Comps = append(c.Comps, append([]int{}, vertices...))
		st := []int{}
		for v := 0; v < n; v++ {
			if onStack.Get(v) {
				st = append(st, v)
			}
		}
		c.Stacks = append(c.Stacks, st)
	})
	m := graph.NewMatrix(n)
	for u, es := range c.G {
		for _, v := range es {
			m.AddEdge(u, v)
		}
	}
	m.Closure()
	c.Closure = make([][]int, n)
	for u := 0; u < n; u++ {
		c.Closure[u] = []int{}
		for v := 0; v < n; v++ {
			if m.HasEdge(u, v) {
				c.Closure[u] = append(c.Closure[u], v)
			}
		}
	}
	c.MGraph = make([][]int, n)
	if n > 0 {
		for i, e := range m.Graph(nil) {
			c.MGraph[i] = ints(append([]int{}, e...))
		}
	}
	c.Transpose = make([][]int, n)
	for i, e := range graph.Transpose(copyGraph(c.G)) {
		c.Transpose[i] = ints(append([]int{}, e...))
	}
	p := graph.LongestPath(copyGraph(c.G))
	c.PathNil = p == nil
	c.Path = ints(p)
}

func c26Run(args []string) error {
	cases, err := readNDJSON[c26Case](args[0])
	if err != nil {
		return err
	}
	w, err := newNDWriter(args[1])
	if err != nil {
		return err
	}
	for i := range cases {
		c := &cases[i]
		c.ID = i
		for j := range c.G {
			c.G[j] = ints(c.G[j])
		}
		c26Exec(c)
		if err := w.Write(c); err != nil {
			return err
		}
	}
	return w.Close()
}

// c26-random <n> <out>: seeded random graphs with 1..8 vertices, unsorted adjacency lists with duplicates.
func c26Random(args []string) error {
	n, _ := strconv.Atoi(args[0])
	seed, _ := strconv.ParseInt(os.Getenv("VERIF_SEED"), 10, 64)
	r := rand.New(rand.NewSource(seed*104729 + 26))
	w, err := newNDWriter(args[1])
	if err != nil {
		return err
	}
	for id := 0; id < n; id++ {
		nv := 1 + r.Intn(8)
		dens := r.Float64() * 0.5
		forward := r.Intn(3) == 0 // bias: acyclic graphs, so that LongestPath's non-nil branch is exercised
		c := &c26Case{ID: id}
		for u := 0; u < nv; u++ {
			es := []int{}
			for v := 0; v < nv; v++ {
				if forward && v <= u {
					continue
				}
				if r.Float64() < dens {
					es = append(es, v)
					if r.Intn(6) == 0 {
						es = append(es, v)
					}
				}
			}
			r.Shuffle(len(es), func(i, j int) { es[i], es[j] = es[j], es[i] })
			c.G = append(c.G, es)
		}
		if forward && r.Intn(2) == 0 { // relabel vertices so that topological order is not index order
			perm := r.Perm(nv)
			g2 := make([][]int, nv)
			for u, es := range c.G {
				e2 := []int{}
				for _, v := range es {
					e2 = append(e2, perm[v])
				}
				g2[perm[u]] = e2
			}
			c.G = g2
		}
		c26Exec(c)
		if err := w.Write(c); err != nil {
			return err
		}
	}
	return w.Close()
}
