//go:build verif

package main

import (
	"context"
	"time"
	"fmt"
	"math/rand"
	"os"
	"path/filepath"
	"strconv"
	"strings"

	"github.com/inspirer/textmapper/parsers/js"
	"github.com/inspirer/textmapper/parsers/json"
	"github.com/inspirer/textmapper/parsers/test"
	"github.com/inspirer/textmapper/parsers/tm"
	"github.com/inspirer/textmapper/parsers/tm/ast"
	"github.com/inspirer/textmapper/parsers/tm/selector"
)

func init() {
	register("c20-build", c20Build)
	register("c20-parse", c20Parse)
}

type c20Case struct {
	ID       int      `json:"id"`
	Kind     string   `json:"kind"`
	Parser   string   `json:"parser,omitempty"`
	Origin   string   `json:"origin,omitempty"`
	Len      int      `json:"len"`
	Ev       [][3]int `json:"ev"`
	Parent   []int    `json:"parent"`
	Children [][]int  `json:"children"`
	Crash    string   `json:"crash"`
	Err      string   `json:"err,omitempty"`
	TextB64  string   `json:"text,omitempty"`
	Errs     [][2]int `json:"errs"` // syntax errors reported to the handler, in order: [offset, endoffset]
}

const c20TypeBase = 1000

func c20BuildOne(c *c20Case) {
	c.Kind = "build"
	c.Parent = make([]int, len(c.Ev))
	c.Children = make([][]int, len(c.Ev)+1)
	for i := range c.Children {
		c.Children[i] = []int{}
	}
	defer func() {
		if r := recover(); r != nil {
			c.Crash = fmt.Sprint("panic: ", r)
		}
	}()
	events := make([][3]int, len(c.Ev))
	for i, e := range c.Ev {
		events[i] = [3]int{c20TypeBase + e[0], e[1], e[2]}
	}
	tree, err := ast.VerifBuildTree("x", strings.Repeat("x", c.Len), events)
	if err != nil {
		c.Crash = "error: " + err.Error()
		return
	}
	seen := map[int]bool{}
	var walk func(n *ast.Node, parentID int)
	walk = func(n *ast.Node, parentID int) {
		for ch := n.Child(selector.Any); ch.IsValid(); ch = ch.Next(selector.Any) {
			id := int(ch.Type()) - c20TypeBase
			if id < 1 || id > len(c.Ev) || seen[id] {
				c.Crash = fmt.Sprintf("tree lists an unknown or repeated node (type %d)", int(ch.Type()))
				return
			}
			seen[id] = true
			if ch.Offset() != c.Ev[id-1][1] || ch.Endoffset() != c.Ev[id-1][2] {
				c.Crash = fmt.Sprintf("node %d has range [%d,%d)", id, ch.Offset(), ch.Endoffset())
			}
			c.Parent[id-1] = parentID
			c.Children[parentID] = append(c.Children[parentID], id)
			walk(ch, id)
		}
	}
	root := tree.Root()
	if root.Offset() != 0 || root.Endoffset() != c.Len {
		c.Crash = "root does not span the content"
	}
	walk(root, 0)
	if len(seen) != len(c.Ev) && c.Crash == "" {
		c.Crash = fmt.Sprintf("tree has %d of %d reported nodes", len(seen), len(c.Ev))
		for i := range c.Parent {
			if !seen[i+1] {
				c.Parent[i] = -1
			}
		}
	}
}

func c20Build(args []string) error {
	cases, err := readNDJSON[c20Case](args[0])
	if err != nil {
		return err
	}
	w, err := newNDWriter(args[1])
	if err != nil {
		return err
	}
	for i := range cases {
		c := &cases[i]
		c.ID = i
		c20BuildOne(c)
		if c.Errs == nil {
			c.Errs = [][2]int{}
		}
		if err := w.Write(c); err != nil {
			return err
		}
	}
	return w.Close()
}

// c20ParseGuarded runs one parse with a watchdog: a parse that does not return is recorded as a hang
func c20ParseGuarded(c *c20Case, text string) {
	done := make(chan struct{})
	tmp := *c
	go func() {
		defer close(done)
		c20ParseOne(&tmp, text)
	}()
	select {
	case <-done:
		*c = tmp
	case <-time.After(20 * time.Second):
		c.Kind, c.Len, c.Ev, c.Parent, c.Children, c.Errs = "parse", len(text), [][3]int{}, []int{}, [][]int{}, [][2]int{}
		c.Crash = "hang: the parser did not return within 20 s"
	}
}

func c20ParseOne(c *c20Case, text string) {
	c.Kind = "parse"
	c.Len = len(text)
	c.Errs = [][2]int{}
	c.Ev = [][3]int{}
	c.Parent, c.Children = []int{}, [][]int{}
	defer func() {
		if r := recover(); r != nil {
			c.Crash = fmt.Sprint("panic: ", r)
		}
	}()
	add := func(off, end int) {
		if len(c.Ev) < 4000 {
			c.Ev = append(c.Ev, [3]int{len(c.Ev) + 1, off, end})
		}
	}
	ctx := context.Background()
	var err error
	switch c.Parser {
	case "tm":
		var s tm.TokenStream
		var p tm.Parser
		l := func(t tm.NodeType, off, end int) { add(off, end) }
		s.Init(text, l)
		p.Init(func(se tm.SyntaxError) bool { c.Errs = append(c.Errs, [2]int{se.Offset, se.Endoffset}); return true }, l)
		err = p.ParseFile(ctx, &s)
	case "js":
		var s js.TokenStream
		var p js.Parser
		l := func(t js.NodeType, off, end int) { add(off, end) }
		s.Init(text, l)
		p.Init(func(se js.SyntaxError) bool { c.Errs = append(c.Errs, [2]int{se.Offset, se.Endoffset}); return true }, l)
		err = p.ParseModule(ctx, &s)
	case "json":
		var lx json.Lexer
		var p json.Parser
		lx.Init(text)
		p.Init(func(t json.NodeType, off, end int) { add(off, end) })
		err = p.Parse(&lx)
	default:
		var lx test.Lexer
		var p test.Parser
		lx.Init(text)
		p.Init(func(t test.NodeType, fl test.NodeFlags, off, end int) { add(off, end) })
		err = p.ParseTest(ctx, &lx)
	}
	if err != nil {
		c.Err = truncate(err.Error(), 80)
	}
}

// c20-parse <n> <out>: shipped parsers on repository texts and their mutations (valid, malformed, recovery-triggering)
func c20Parse(args []string) error {
	n, _ := strconv.Atoi(args[0])
	seed, _ := strconv.ParseInt(os.Getenv("VERIF_SEED"), 10, 64)
	r := rand.New(rand.NewSource(seed*69621 + 20))
	corp := map[string][]string{}
	load := func(parser string, pats ...string) {
		for _, pat := range pats {
			m, _ := filepath.Glob(filepath.Join(repoDir(), pat))
			for _, f := range m {
				b, err := os.ReadFile(f)
				if err == nil && len(b) > 0 && len(b) < 200000 {
					corp[parser] = append(corp[parser], string(b))
				}
			}
		}
	}
	load("tm", "parsers/*/*.tm", "compiler/testdata/*.tm*")
	load("json", "vscode-ext/*.json", "vscode-ext/*/*.json")
	corp["json"] = append(corp["json"], `{"a": [1, 2.5e3, true, null, {"b": "c\n"}], "d": {}}`, `[ /* c */ 1, "x" ]`)
	corp["js"] = []string{"var a = 1; function f(x, y) { return x + y * 2; }\nclass A extends B { m() { if (a) b(); else c() } }\nlet {q, ...r} = o; for (const x of xs) { yield* x }\n",
		"export default async function* g() { await f?.(1)[2] ?? `t${x}u`; }\nimport {a as b} from 'm';\nlabel: do x++; while (x < 10)\n/* c */ a = b ? c : d // e\n",
		"const re = /ab+c/gi, t = <div a={b}>text {c}</div>;\ntry { throw new E() } catch ({m}) { } finally { }\nswitch (k) { case 1: default: break }\n",
		"let a;\nvar x, y = 1, z;\nlet b, c\nfunction h(p, q = 2, ...rest) { return }\nfor (let i; i < n; i++) ;\nclass K { f; static g; m() {} }\nif (a) b\nelse c\n"}
	corp["test"] = []string{"decl1(a.b.c) decl2 {-- decl1(x) decl2 } test { x y } eval(1+2) 7 9 []\n", "decl2 if (as f_a) decl2 else decl2 test (1.foo_ 2) z z z x\n", "{decl1(a)} // c\n/* m */ decl2: a.b.c test 5\n"}
	nasty := []string{"}", "{", "(", ")", ";", "\"", "'", "/*", "%", "::", "->", "|", ",", "[", "]", " ", "\n", "\xff", "if", "=", "<", ">", ".", "...", "`", "${"}
	parsers := []string{"tm", "js", "json", "test"}
	w, err := newNDWriter(args[1])
	if err != nil {
		return err
	}
	for id := 0; id < n; id++ {
		parser := parsers[id%len(parsers)]
		texts := corp[parser]
		text := texts[r.Intn(len(texts))]
		if len(text) > 1200 {
			// cut at line boundaries to keep most cuts syntactically plausible
			off := r.Intn(len(text) - 1200)
			if k := strings.IndexByte(text[off:], '\n'); k >= 0 {
				off += k + 1
			}
			end := off + 1200
			if end > len(text) {
				end = len(text)
			}
			text = text[off:end]
		}
		op := "plain"
		for k := r.Intn(4); k > 0; k-- {
			switch r.Intn(4) {
			case 0:
				p := r.Intn(len(text) + 1)
				text = text[:p] + nasty[r.Intn(len(nasty))] + text[p:]
				op = "inject"
			case 1:
				p := r.Intn(len(text) + 1)
				q := p + r.Intn(12)
				if q > len(text) {
					q = len(text)
				}
				text = text[:p] + text[q:]
				op = "cut"
			case 2:
				text = text[:r.Intn(len(text)+1)]
				op = "truncate"
			case 3:
				// a complete comment in front of a delimiter: pending tokens meet nodes that end in empty symbols
				var at []int
				for p := 0; p < len(text); p++ {
					if strings.IndexByte(";,)}]=\n", text[p]) >= 0 {
						at = append(at, p)
					}
				}
				if len(at) > 0 && parser != "json" {
					p := at[r.Intn(len(at))]
					cm := []string{" /* c */", " // c\n", " /* c */ /* d */"}[r.Intn(3)]
					if parser == "tm" {
						cm = []string{" /* c */", " # c\n"}[r.Intn(2)]
					}
					text = text[:p] + cm + text[p:]
					op = "comment"
				}
			}
		}
		c := &c20Case{ID: id, Parser: parser, Origin: op}
		c20ParseGuarded(c, text)
		if c.Crash != "" || len(text) < 300 {
			c.TextB64 = b64(text)
		}
		if err := w.Write(c); err != nil {
			return err
		}
	}
	return w.Close()
}

// ---- generated parsers that trim trailing whitespace (fixWhitespace) with injected comment tokens

func init() { register("c20-gen", c20Gen) }

// c20-gen <mod-dir> <out.ndjson> <texts-per-grammar>
func c20Gen(args []string) error {
	nt, _ := strconv.Atoi(args[2])
	seed, _ := strconv.ParseInt(os.Getenv("VERIF_SEED"), 10, 64)
	r := rand.New(rand.NewSource(seed*2038074743 + 20))
	type variant struct{ decl, extra string }
	var variants []variant
	for _, mark := range []string{"", " .afterDecl"} {
		variants = append(variants,
			variant{"tl Name Suffix" + mark, "Suffix:\n    tc Name | %empty ;\n"},
			variant{"tl Name Suffix Tail" + mark, "Suffix:\n    tc Name | %empty ;\n\nTail:\n    ts | %empty ;\n"},
			variant{"tl Name (tc Name)?" + mark, ""},
			variant{"tl Name Names" + mark, "Names:\n    Names Name | %empty ;\n"},
			variant{"tl Name" + mark + " Suffix", "Suffix:\n    tc Name | %empty ;\n"},
			variant{"tl (Name Suffix -> Pair)" + mark + " Tail", "Suffix:\n    tc Name | %empty ;\n\nTail:\n    ts | %empty ;\n"},
		)
	}
	// recovering variants: the same shapes with an initializer that may be broken ('error' alone, behind a nonterminal, inside a
	// parenthesised part), so that recovery pushes empty and non-empty error symbols next to whitespace and reported comments
	nplain := len(variants)
	for _, mark := range []string{"", " .afterDecl"} {
		variants = append(variants,
			variant{"tl Name Init? ts" + mark, "Init -> Init:\n    te (Name | Broken) ;\n\nBroken -> Problem:\n    error ;\n"},
			variant{"tl Name (te (Name | error) -> Init)? ts" + mark, ""},
			variant{"tl Name Init" + mark + " Tail", "Init -> Init:\n    te Name | te error ;\n\nTail:\n    ts | %empty ;\n"},
			variant{"tl Name Names Init? ts" + mark, "Names:\n    Names Name | %empty ;\n\nInit -> Init:\n    te Broken ;\n\nBroken -> Problem:\n    Name | error ;\n"},
		)
	}
	var items []*evItem
	for i, v := range variants {
		pkg := fmt.Sprintf("w%d", i)
		if i >= nplain {
			tm := fmt.Sprintf("language %s(go);\n\npackage = \"rt/%s\"\neventBased = true\nfixWhitespace = true\n\n:: lexer\n\nWS: /[ \\n]+/ (space)\nComment: /#[a-z]*/ (space)\n"+
				"invalid_token:\nerror:\ntl: /l/\ntn: /n/\ntc: /c/\nts: /;/\nto: /o/\nte: /=/\n\n:: parser\n\n%%inject Comment -> Comment;\n%%inject invalid_token -> Invalid;\n\n%%input S;\n\nS -> Root:\n    Item+ ;\n\nItem:\n    Decl | Outer ;\n\n"+
				"Outer -> Outer:\n    to Decl ;\n\nDecl -> Decl:\n    %s ;\n\nName -> Name:\n    tn ;\n\n%s", pkg, pkg, v.decl, v.extra) + c20RecAdapter
			it := &evItem{Pkg: pkg, TM: tm}
			for k := 0; k < nt; k++ {
				var sb strings.Builder
				sp := func() {
					sb.WriteString([]string{" #x ", "\n#y\n", "  ", " ", " ", ""}[r.Intn(6)])
				}
				for d := 0; d < 1+r.Intn(3); d++ {
					// a declaration "l n [n n] = n ;" with elements dropped, doubled or replaced by an invalid character
					for _, tok := range []string{"o", "l", "n", "n", "=", "n", ";"} {
						switch {
						case (tok == "o" || tok == "n") && r.Intn(2) == 0, tok != "o" && r.Intn(7) == 0:
							continue
						case r.Intn(12) == 0:
							tok = "x"
						case r.Intn(14) == 0:
							tok = tok + " " + tok
						}
						sb.WriteString(tok)
						sp()
					}
				}
				it.Texts = append(it.Texts, sb.String())
			}
			items = append(items, it)
			continue
		}
		tm := fmt.Sprintf("language %s(go);\n\npackage = \"rt/%s\"\neventBased = true\nfixWhitespace = true\n\n:: lexer\n\nWS: /[ \\n]+/ (space)\nComment: /#[a-z]*/ (space)\n"+
			"tl: /l/\ntn: /n/\ntc: /c/\nts: /;/\nto: /o/\n\n:: parser\n\n%%inject Comment -> Comment;\n\n%%input S;\n\nS -> Root:\n    Item+ ;\n\nItem:\n    Decl | Outer ;\n\n"+
			"Outer -> Outer:\n    to Decl ;\n\nDecl -> Decl:\n    %s ;\n\nName -> Name:\n    tn ;\n\n%s", pkg, pkg, v.decl, v.extra) + c02sAdapter
		it := &evItem{Pkg: pkg, TM: tm}
		for k := 0; k < nt; k++ {
			var sb strings.Builder
			sp := func() {
				switch r.Intn(5) {
				case 0:
					sb.WriteString(" #x ")
				case 1:
					sb.WriteString("\n#y\n")
				case 2:
					sb.WriteString("  ")
				default:
					sb.WriteString(" ")
				}
			}
			if r.Intn(3) == 0 {
				sp()
			}
			for d := 0; d < 1+r.Intn(4); d++ {
				if r.Intn(4) == 0 {
					sb.WriteString("o")
					sp()
				}
				sb.WriteString("l")
				sp()
				sb.WriteString("n")
				sp()
				body := v.decl + v.extra
				if strings.Contains(body, "tc") && r.Intn(2) == 0 {
					sb.WriteString("c")
					sp()
					sb.WriteString("n")
					sp()
				}
				if strings.Contains(body, "Names") {
					for q := 0; q < r.Intn(3); q++ {
						sb.WriteString("n")
						sp()
					}
				}
				if strings.Contains(body, "ts") && r.Intn(2) == 0 {
					sb.WriteString(";")
					sp()
				}
			}
			it.Texts = append(it.Texts, sb.String())
		}
		items = append(items, it)
	}
	if err := evPipeline(args[0], items); err != nil {
		return err
	}
	w, err := newNDWriter(args[1])
	if err != nil {
		return err
	}
	id := 0
	for i, it := range items {
		if it.GenErr != "" {
			c := &c20Case{ID: id, Kind: "parse", Parser: "generated-fixws", Origin: variants[i].decl, Crash: "generation: " + it.GenErr, Ev: [][3]int{}, Parent: []int{}, Children: [][]int{}, Errs: [][2]int{}}
			id++
			if err := w.Write(c); err != nil {
				return err
			}
			continue
		}
		names := map[string]int{}
		for k, text := range it.Texts {
			c := &c20Case{ID: id, Kind: "parse", Parser: "generated-fixws", Origin: variants[i].decl, Len: len(text), Ev: [][3]int{}, Parent: []int{}, Children: [][]int{}, Errs: [][2]int{}, TextB64: b64(text)}
			id++
			if it.Errs[k] != "" && (i < nplain || strings.HasPrefix(it.Errs[k], "panic:")) {
				c.Crash = "sentence rejected: " + it.Errs[k]
			}
			for _, ev := range it.Events[k] {
				f := strings.Fields(ev)
				if _, ok := names[f[0]]; !ok {
					names[f[0]] = len(names) + 1
				}
				off, _ := strconv.Atoi(f[1])
				end, _ := strconv.Atoi(f[2])
				c.Ev = append(c.Ev, [3]int{names[f[0]], off, end})
			}
			if err := w.Write(c); err != nil {
				return err
			}
		}
	}
	return w.Close()
}

// c20RecAdapter is c02sAdapter for a recovering parser: every syntax error is accepted and recovery goes on.
var c20RecAdapter = strings.Replace(c02sAdapter, "p.Init(func(t NodeType", "p.Init(func(SyntaxError) bool { return true }, func(t NodeType", 1)

// ---- C29 on the shipped cancellable parsers: cancel from the listener at chosen events

func init() { register("c29-shipped", c29Shipped) }

type c29Row struct {
	Pkg    string    `json:"pkg"`
	GenErr string    `json:"genErr"`
	Ran    bool      `json:"ran"`
	Bad    []string  `json:"bad"`
	Cancel [][][]int `json:"cancel"` // per text, per cancel point (first: -1 = baseline): [kind, events, 0, cancelled ? 0 : -1]
	Texts  []string  `json:"texts"`
}

func c29RunOne(parser, text string, cancelAt int) (row []int, bad string) {
	defer func() {
		if r := recover(); r != nil {
			row, bad = []int{3, 0, 0, -1}, fmt.Sprint("panic: ", r)
		}
	}()
	ctx, cancel := context.WithCancel(context.Background())
	defer cancel()
	events, at := 0, -1
	// The shipped parsers do not expose their shift counter; listener events give a lower bound: between two shifts the parsers
	// report fewer than c29EventsPerShift events on the texts used here (shallow nesting), so floor(e2/64) - floor(e1/64) - 1
	// never exceeds the number of shifts between the moments with e1 and e2 events.
	if cancelAt == 0 {
		at = 1
		cancel()
	}
	on := func() {
		events++
		if events == cancelAt {
			at = events/c29EventsPerShift + 1
			cancel()
		}
	}
	var err error
	switch parser {
	case "js":
		var s js.TokenStream
		var p js.Parser
		l := func(t js.NodeType, off, end int) { on() }
		s.Init(text, l)
		p.Init(func(js.SyntaxError) bool { return true }, l)
		err = p.ParseModule(ctx, &s)
	case "tm":
		var s tm.TokenStream
		var p tm.Parser
		l := func(t tm.NodeType, off, end int) { on() }
		s.Init(text, l)
		p.Init(func(tm.SyntaxError) bool { return true }, l)
		err = p.ParseFile(ctx, &s)
	default:
		var lx test.Lexer
		var p test.Parser
		lx.Init(text)
		p.Init(func(t test.NodeType, fl test.NodeFlags, off, end int) { on() })
		err = p.ParseTest(ctx, &lx)
	}
	kind := 1
	switch {
	case err == nil:
	case err == context.Canceled:
		kind = 2
	default:
		kind = 0
	}
	return []int{kind, events, events / c29EventsPerShift, at}, ""
}

const c29EventsPerShift = 64

// c29-shipped <out.ndjson> <stride>
func c29Shipped(args []string) error {
	stride, _ := strconv.Atoi(args[1])
	w, err := newNDWriter(args[0])
	if err != nil {
		return err
	}
	var jsTexts, testTexts, tmTexts []string
	for k := 0; k < 6; k++ {
		jsTexts = append(jsTexts, strings.Repeat("a = 1;\n", k*3)+strings.Repeat("f((a, b) => a + b, async (x) => x / 2, /re/.test(s) ? (y) => y : z);\n", 60))
		testTexts = append(testTexts, strings.Repeat("decl1(a) ", 100+k*7)+strings.Repeat("eval(4.1 as 2 + 3 + 4 + 5) decl2 ", 40))
	}
	// runtime lookaheads started from inside other lookaheads (an arrow function in a parameter default), at varying distances from the
	// start so that the every-512th-shift poll falls into different depths of lookahead
	var params []string
	for i := 0; i < 60; i++ {
		params = append(params, fmt.Sprintf("b%d", i))
	}
	nested := "(a = (" + strings.Join(params, ", ") + ") => 1) => 2;\n"
	for pad := 150; pad <= 270; pad += 8 {
		jsTexts = append(jsTexts, strings.Repeat("x;\n", pad)+nested+nested)
	}
	// long texts (more than 512 * 64 events), cancelled at a few points only: a parse that ignores the cancellation is seen to
	// run on for more than 512 shifts. One well-formed, two with a recoverable syntax error every few tokens.
	long := map[string]bool{}
	for _, t := range []string{strings.Repeat("a = b + 1;\n", 16000), strings.Repeat("a = ;\n", 24000), strings.Repeat("f(a, b c);\nx = 1;\n", 12000)} {
		long[t] = true
		jsTexts = append(jsTexts, t)
	}
	b, err := os.ReadFile(filepath.Join(repoDir(), "parsers", "tm", "textmapper.tm"))
	if err == nil {
		tmTexts = append(tmTexts, string(b))
	}
	for _, set := range []struct {
		parser string
		texts  []string
	}{{"js", jsTexts}, {"test", testTexts}, {"tm", tmTexts}} {
		row := c29Row{Pkg: "shipped-" + set.parser, Ran: true, Bad: []string{}, Cancel: [][][]int{}, Texts: []string{}}
		for ti, text := range set.texts {
			base, bad := c29RunOne(set.parser, text, -1)
			if bad != "" {
				row.Bad = append(row.Bad, bad)
			}
			rows := [][]int{base}
			points := []int{}
			if long[text] {
				points = []int{0, 1, 10, 1000, 5000}
			} else {
				if ti%stride != 0 {
					points = append(points, 0) // cancelled before the parse starts
				}
				for k := ti % stride; k <= base[1]+1; k += stride {
					points = append(points, k)
				}
			}
			for _, k := range points {
				r, bad := c29RunOne(set.parser, text, k)
				if bad != "" && len(row.Bad) < 10 {
					row.Bad = append(row.Bad, fmt.Sprintf("text %d cancel at %d: %s", ti, k, bad))
				}
				rows = append(rows, r)
			}
			row.Cancel = append(row.Cancel, rows)
			row.Texts = append(row.Texts, fmt.Sprintf("%s text #%d (%d bytes)", set.parser, ti, len(text)))
		}
		if err := w.Write(&row); err != nil {
			return err
		}
	}
	return w.Close()
}
