module verifharness

go 1.25

require github.com/inspirer/textmapper v0.0.0

replace github.com/inspirer/textmapper => /repo
