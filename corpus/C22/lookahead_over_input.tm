language m(go);

package = "rt/m"
eventBased = true

:: lexer

WS: /[ \n]+/ (space)
ID: /[a-z]+/ (class)
'if': /if/
NUM: /[0-9]+/
'+': /\+/
'(': /\(/
')': /\)/
',': /,/
error:

:: parser

%input S, L;
S: (?= L) ID NUM | (?= !L) ID ;
L: ID NUM ;
