# Testing field generation.

language test(go);

lang = "test"
package = "github.com/inspirer/textmapper/parsers/test"
eventBased = true
eventFields = true
writeBison = true
debugParser = false
tokenLine = false
fixWhitespace = true
cancellable = true
cancellableFetch = true
recursiveLookaheads = true
extraTypes = ["Int7", "Int9 -> Expr"]
optInstantiationSuffix = "-opt"

:: lexer

WhiteSpace: /[ \t\r\n\x00]/ (space)

SingleLineComment: /\/\/[^\n\r\u2028\u2029]*/  (space)

Identifier: /[a-zA-Y](-*[a-zA-Z_0-9])*/    (class)
Identifier2: /^[\p{Any}-[\x80-\U0010ffff]-\p{Lu}]/

IntegerConstant {int}: /[0-9]+/ { $$ = mustParseInt(l.Text()) }

lastInt: /[0-9]+(\n|{eoi})/

# Keywords.
'test':      /test/
'decl1':     /decl1/
'decl2':     /decl2/
'eval':      /eval/
'as':        /as/
'x':        /x/
'y':        /y/
'z':        /z/

'if': /if/
"else": /else/

# Punctuation
'{': /\{/
'}': /\}/
'(': /\(/
')': /\)/
'[': /\[/
']': /\]/
'.': /\./
'...': /\.\.\./
',': /,/
':': /:/
'-': /-/
'->': /->/
'+': /\+/
'\\': /\\/
'_': /_/
'foo_': /foo_/
'f_a': /f_a/

multiline: /%\s*q((\n|{eoi})%\s*q)+/

dquote: /"/
'\'' (squote): /'/

# No backtracking required.
hex = /[0-9a-fA-F]/
esc = /u{hex}{4}/
idChar = /[a-zA-Z]|\\{esc}/

SharpAtID: /Z{idChar}+/    (class)
invalid_token: /Z{idChar}*\\(u{hex}{0,3})?/
'Zfoo': /Zfoo/

# Backtracing required.
backtrackingToken: /test(foo)?-+>/

error:
invalid_token:
eoi:

%x inMultiLine;

# This is an example of how one can support nested block comments.
MultiLineComment:  /\/\*/ (space)
  {
    l.State = StateInMultiLine
    commentOffset = l.tokenOffset
    commentDepth = 0
    space = true
  }

<inMultiLine> {
  invalid_token: /{eoi}/
    {
      l.tokenOffset = commentOffset
      l.State = StateInitial
    }
  MultiLineComment: /\/\*/ (space)
    {
      commentDepth++
      space = true
    }
  MultiLineComment: /\*\// (space)
    {
      if commentDepth == 0 {
        space = false
        l.tokenOffset = commentOffset
        l.State = StateInitial
        break
      }
      space = true
      commentDepth--
    }

  # Note: space = true below is needed only during the migration period to help the Go and Java
  # implementations produce identical output (rather than just equivalent).
  WhiteSpace: /[^\/*]+|[*\/]/ (space) { space = true }
}

:: parser lalr(2)

%input Test, Decl1;

%inject SingleLineComment -> SingleLineComment;
%inject Identifier -> Identifier;
%inject invalid_token -> InvalidToken;
%inject MultiLineComment -> MultiLineComment;

Test -> Test:
    Declaration+ ;

# Test: an interface with a type rule.

%interface Declaration;

Declaration -> Declaration :
    Decl1
  | Decl2
  | '{' ('-' '-'? -> Negation)? Declaration+? '}'        -> Block
  | lastInt  { println("it works") } -> LastInt
  | IntegerConstant ('[' ']')?
      {
        switch $IntegerConstant {
        case 7:
          p.listener(Int7, 0, ${self[0].offset}, ${last().endoffset})
        case 9:
          p.listener(Int9, 0, ${first().offset}, ${last().endoffset})
        }
      }                                                  -> Int
  | 'test' ( 'decl1' | 'decl2' )[keyword] 'test'
      { p.listener(Identifier, 0, ${keyword.offset}, ${keyword.endoffset}) } -> TestClause
  | 'test' '{' set(~(eoi | '.' | '}'))* '}' -> TestClause
  | 'test' '(' (empty1 -> Empty1) ')'
  | 'test' '(' foo_nonterm<~A> ')'
  | 'test' (IntegerConstant -> Icon/InTest) -> TestIntClause/InTest,InFoo
  | 'eval' (?= !FooLookahead) '(' expr ')' empty1   -> EvalEmpty1
  | 'eval' (?= FooLookahead) '(' foo_nonterm<+A> ')' -> EvalFoo
  | 'eval' (?= FooLookahead) '(' IntegerConstant '.' a=expr '+' .greedy b=expr ')' -> EvalFoo2
  | 'decl2' ':' QualifiedName-opt -> DeclOptQual

  # Requires LALR(2)
  | 'z' X 'z' 'x' -> AX
  | 'z' Y 'z' 'y' -> AY
;

X -> X: 'z';
Y -> Y: 'z';

FooLookahead:
  '(' IntegerConstant '.' set(foo_la)+ ')' ;

empty1 : ;

%flag A;

foo_la:
      IntegerConstant '.' expr
    | IntegerConstant 'foo_' expr
;

foo_nonterm<A> :
      IntegerConstant '.' expr
    | [A] IntegerConstant 'foo_' expr
;

# Test: a list of an exported terminal.

QualifiedName :
    Identifier
  | QualifiedName '.' Identifier
;

Decl1 {int} -> Decl1 :
    'decl1' '(' QualifiedName ')' ;

%interface Decl2Interface;

Decl2 -> Decl2Interface :
    'decl2' -> Decl2
  | If
;

%expect 1;

If -> If:
    'if' '(' O ')' then=Decl2[then]   { /* 4: $then */ }
  | 'if' '(' O ')' then=Decl2 "else" else=Decl2
;

%nonassoc 'as';
%left '+';

%interface Expr;

expr -> Expr:
    left=expr '+' right=primaryExpr   -> PlusExpr
  | customPlus -> __ignoreContent
  | primaryExpr
;

O :
      elem+ ;

elem -> Elem:
      'f_a' .greedy | 'f_a' 'as' | 'as' ;  # prefer reduce over shift


customPlus -> __ignoreContent:
  '\\' primaryExpr '+' expr { p.listener(PlusExpr, 0, ${first().offset}, ${last().endoffset}) } ;

# AsExpr consumes the whole suffix greedily.
# Note: applying .greedy after 'as' does not work since the conflict happens later.
primaryExpr<flag WithoutAs = false> -> Expr:
    [!WithoutAs] left=primaryExpr primaryExpr<+WithoutAs> 'as' right=expr  -> AsExpr
;

extend primaryExpr -> Expr:
  (/*empty*/ -> Bar) IntegerConstant -> IntExpr ;

%%

{{define "onAfterLexer"}}
func mustParseInt(s string) int {
	i, err := "strconv".Atoi(s)
	if err != nil {
		panic(`lexer internal error: ` + err.Error())
	}
	return i
}
{{end}}

{{define "onBeforeNext"}}
	var commentOffset, commentDepth int
{{end}}

{{define "onAfterParser"}}
func parserEnd() {}
{{end}}

{{define "customReportNext"}}
default:
   break
{{end}}
