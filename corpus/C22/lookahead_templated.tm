language m(go);

package = "rt/m"
eventBased = true

:: lexer

WS: /[ \n]+/ (space)
ID: /[a-z]+/ (class)
'if': /if/
NUM: /[0-9]+/
'+': /\+/
'(': /\(/
')': /\)/
',': /,/
error:

:: parser

%input S;
%flag A;
S: (?= T<+A>) ID | (?= !T<+A>) NUM ;
T<A>: [A] ID | NUM ;
