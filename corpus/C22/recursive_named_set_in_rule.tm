language parser(go);

:: lexer

a: /a/
b: /b/

:: parser

input : d e | A_bad_complement2;

d : a set(«~bad_complement») b ;
# err: set complement cannot transitively depend on itself

e : set(f) ;
f : set(«~e») ;
# err: set complement cannot transitively depend on itself

%generate bad_complement = set(«~(bad_complement)»);
# err: set complement cannot transitively depend on itself

%generate bad_complement2 = set(«~(first A_bad_complement2)»);
A_bad_complement2: set(bad_complement2);
# err: set complement cannot transitively depend on itself

%generate bad_complement3 = set(~(first A_bad_complement3));
A_bad_complement3: set(bad_complement3);
