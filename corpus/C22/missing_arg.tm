language m(go);

package = "rt/m"
eventBased = true

:: lexer

WS: /[ \n]+/ (space)
ID: /[a-z]+/ (class)
'if': /if/
NUM: /[0-9]+/
'+': /\+/
'(': /\(/
')': /\)/
',': /,/
error:

:: parser

%input S;
%flag A;
%lookahead flag B;
S: T<A: +, A: ~> | U<B> ;
T<A>: [A && B] ID | [!A || C] NUM ;
U: ID ;
