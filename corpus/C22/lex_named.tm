language m(go);

:: lexer

x = /{y}/
y = /{x}/
a: /{x}+/

:: parser

%input S;
S: a ;
