language m(go);

package = "rt/m"

:: lexer

WS: /[ \n]+/ (space)
ID: /[a-z]+/ (class)
'if': /if/
NUM: /[0-9]+/
'+': /\+/
'(': /\(/
')': /\)/
',': /,/
error:

:: parser
%input S;
S: ID (NUM+ { first() } | ID+ { second() }) ',' T U ;
T: '(' (set(ID | NUM)+ { a() } | (ID separator ',')* { b() } | NUM? { c() })? ')' ;
U: ID { $$ = 1 } (NUM[x] { _ = $x } | '+'[y] ID* { _ = $y })* ;
