language parser(go);

:: lexer

x: /a/
y: /b/

:: parser

%generate a = set(b | x);
%generate b = set(a | y);

input : r;
r : x set(a) y ;
