language m(go);

package = "rt/m"
eventBased = true

:: lexer

WS: /[ \n]+/ (space)
ID: /[a-z]+/ (class)
'if': /if/
NUM: /[0-9]+/
'+': /\+/
'(': /\(/
')': /\)/
',': /,/
error:

:: parser
%lookahead flag LA;
%input S;
S: [LA] ID | NUM N1;
N1: S<+LA> ',';
