language m(go);

package = "rt/m"
eventBased = true

:: lexer

WS: /[ \n]+/ (space)
ID: /[a-z]+/ (class)
'if': /if/
NUM: /[0-9]+/
'+': /\+/
'(': /\(/
')': /\)/
',': /,/
error:

:: parser
%lookahead flag LA;
%flag PC = false;
%input S;
S: N3<PC: LA> ID | N1<+LA>;
N1: [LA] NUM;
N3<PC>: [PC] NUM | ID;
