language m(go);

package = "rt/m"
eventBased = true

:: lexer

WS: /[ \n]+/ (space)
ID: /[a-z]+/ (class)
'if': /if/
NUM: /[0-9]+/
'+': /\+/
'(': /\(/
')': /\)/
',': /,/
error:

:: parser

%input S;
%param P string;
%flag P;
S<P = 5>: [P == "x"] ID | [P != 7] NUM ;
