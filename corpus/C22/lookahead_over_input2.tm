language m(go);

package = "rt/m"
eventBased = true

:: lexer

WS: /[ \n]+/ (space)
ID: /[a-z]+/ (class)
'if': /if/
NUM: /[0-9]+/
'+': /\+/
'(': /\(/
')': /\)/
',': /,/
error:

:: parser

%input S, L no-eoi, M;
S: (?= L & !M) ID NUM | (?= !L) ID | (?= L & M) NUM ;
L: ID NUM ;
M: ID ID ;
