language m(go);

:: lexer

id: /[a-z]+/ (class)
'ab': /ab+/
'x': /x/ (space)
id: /q/

:: parser

%input S;
S: a ;
