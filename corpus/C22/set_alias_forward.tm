language m(go);

package = "rt/m"
eventBased = true

:: lexer

WS: /[ \n]+/ (space)
ID: /[a-z]+/ (class)
'if': /if/
NUM: /[0-9]+/
'+': /\+/
'(': /\(/
')': /\)/
',': /,/
error:

:: parser
%input S;
%generate a = set(b);
%generate b = set(first N1);
%generate c = set(a | ~b);
S: N1* ID ;
N1: (NUM separator ',')+ '+';
