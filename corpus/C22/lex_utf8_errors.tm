language m(go);

:: lexer

c: /éé\p{Nope}/
d: /€)/
e: /𝄞[z-a]/
f: /ñ{2,1}/
# комментарий 𝄞
g: /(ü/

:: parser

%input S;
S: c ;
