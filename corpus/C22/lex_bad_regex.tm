language m(go);

:: lexer

a: /(/
b: /[z-a]/
c: /\xZZ/
d: /a{2,1}/
e: /{undefined}/

:: parser

%input S;
S: a ;
