language m(go);

:: lexer

a: /b*/
b: //
c: /()/

:: parser

%input S;
S: a ;
