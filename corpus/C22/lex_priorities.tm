language m(go);

:: lexer

a: /ab/ -1
b: /ab/ -1
c: /ab/
d: /ab/ 100000000000000000000

:: parser

%input S;
S: a ;
