language m(go);

:: lexer

%s st1, st2;
%x st1;
<st3> a: /a/
<st1, st2> { b: /b/ { } }
<*> c: /c/

:: parser

%input S;
S: a ;
