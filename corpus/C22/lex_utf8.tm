language m(go);

:: lexer

a: /é𝄞ÿ/
b: /\p{Lu}\p{Nope}/

:: parser

%input S;
S: a ;
