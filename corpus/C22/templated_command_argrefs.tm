language test(go);
:: lexer
IntegerConstant {int}: /[0-9]+/ { $$ = mustParseInt(l.Text()) }
'decl1':     /decl1/
'as':        /as/
'(': /\(/
')': /\)/
'.': /\./
'+': /\+/
'\\': /\\/
'foo_': /foo_/
'f_a': /f_a/
  {
    {
    }
}
:: parser lalr(2)
%input Test, Decl1;
Test -> Test:
    Declaration+ ;
Declaration -> Declaration :
      {
      }                                                  -> Int
;
FooLookahead:
  '(' IntegerConstant '.' set(foo_la)+ ')' ;
%flag A;
foo_la:
    | IntegerConstant 'foo_' expr
;
foo_nonterm<A> :
;
QualifiedName :
;
Decl1 {int} -> Decl1 :
    'decl1' '(' QualifiedName ')' ;
Decl2 -> Decl2Interface :
;
If -> If:
;
expr -> Expr:
  | customPlus -> __ignoreContent
;
O :
      'f_a' .greedy | 'f_a' 'as' | 'as' ;  # prefer reduce over shift
customPlus -> __ignoreContent:
  '\\' primaryExpr '+' expr { p.listener(PlusExpr, 0, ${first().offset}, ${last().endoffset}) } ;
primaryExpr<flag WithoutAs = false> -> Expr:
;