#  syntax: lalr1 generator source grammar

language tm(go);

lang = "tm"
package = "github.com/inspirer/textmapper/parsers/tm"
eventBased = true
eventFields = true
cancellable = true
eventAST = true
writeBison = true
tokenColumn = true
optimizeTables = true
minimizeDFA = true
fileNode = "File"
tokenStream = true
fixWhitespace = true

:: lexer

%s initial, afterID, afterColonOrEq, afterGT;

reClass = /\[([^\n\r\]\\]|\\.)*\]/
reFirst = /[^\n\r\*\[\\\/]|\\.|{reClass}/
reChar = /{reFirst}|\*/

scon:    /"([^\n\\"]|\\.)*"/
icon:    /-?[0-9]+/

templates:  /%%/                             (space)   { l.rewind(len(l.source)) }
whitespace: /[\n\r\t ]+/                     (space)
comment:    /(#|\/\/)[^\r\n]*/               (space)

commentChars = /([^*]|\*+[^*\/])*\**/
multilineComment: /\/\*{commentChars}\*\//   (space)

'%':    /%/
'::':   /::/
'|':    /\|/
'||':   /\|\|/
'=':    /=/
'==':   /==/
'!=':   /!=/
';':    /;/
'.':    /\./
',':    /,/
':':    /:/
'[':    /\[/
']':    /\]/
'(':    /\(/
'(?=': /\(\?=/
# TODO overlaps with ID
'->':   /->/
')':    /\)/
'}':    /\}/
'<':    /</
'>':    />/
'*':    /\*/
'+':    /+/
'+=':   /+=/
'?':    /?/
'!':    /!/
'~':    /~/
'&':    /&/
'&&':   /&&/
'$':    /$/
'@' (at):    /@/
<initial, afterID, afterGT>
'/':    /\//
<afterGT>
'{':  /\{/

error:
invalid_token:

ID: /[a-zA-Z_]([a-zA-Z_\-0-9]*[a-zA-Z_0-9])?/  (class)
quoted_id:   /'([^\n\\']|\\.)*'/

'as':        /as/
'false':     /false/
'import':    /import/
'separator': /separator/
'set':       /set/
'true':      /true/

# Soft keywords.

'assert':    /assert/
'brackets':  /brackets/
'class':     /class/
'empty':     /empty/
'expect':    /expect/
'expect-rr': /expect-rr/
'explicit':  /explicit/
'extend':    /extend/
'flag':      /flag/
'generate':  /generate/
'global':    /global/
'inject':    /inject/
'inline':    /inline/
'input':     /input/
'interface': /interface/
'lalr':      /lalr/
'language':  /language/
'layout':    /layout/
'left':      /left/
'lexer':     /lexer/
'lookahead': /lookahead/
'no-eoi':    /no-eoi/
'nonassoc':  /nonassoc/
'nonempty':  /nonempty/
'param':     /param/
'parser':    /parser/
'prec':      /prec/
'right':     /right/
's':         /s/
'shift':     /shift/
'space':     /space/
'x':         /x/

<initial, afterID, afterColonOrEq>
code:   /\{/    /* We skip the rest in a post-processing action. */

<afterColonOrEq>
regexp: /\/{reFirst}{reChar}*\//

:: parser

%input file, nonterm;

%inject invalid_token -> InvalidToken;
%inject multilineComment -> MultilineComment;
%inject comment -> Comment;
%inject templates -> Templates;

%flag OrSyntaxError = false;

# Basic nonterminals.

identifier<flag Keywords = false, flag Str = false> -> Identifier:
    ID
  | [Str] quoted_id
  | [Str] scon

# Soft keywords
  | 'brackets' | 'inline'    | 'prec'     | 'shift'     | 'input'
  | 'left'     | 'right'     | 'nonassoc' | 'generate'  | 'assert'  | 'empty'
  | 'nonempty' | 'global'    | 'explicit' | 'lookahead' | 'param'   | 'flag'
  | 'no-eoi'   | 's'         | 'x'        | 'expect'    | 'expect-rr'
  | 'class'    | 'interface' | 'space'    | 'extend'    | 'inject'
  | 'layout'   | 'language'  | 'lalr'     | 'lexer'     | 'parser'

  # Keywords
  | [Keywords] ('true' | 'false' | 'separator' | 'as' | 'import' | 'set')
;

integer_literal -> IntegerLiteral:
    icon ;

string_literal -> StringLiteral:
    scon ;

boolean_literal -> BooleanLiteral:
    'true'
  | 'false'
;

%interface Literal;

literal -> Literal:
    string_literal
  | integer_literal
  | boolean_literal
;

pattern -> Pattern:
    regexp ;

command -> Command:
    code ;

syntax_problem -> SyntaxProblem:
    error ;

file -> File:
    header imports=import_* options=option* syntax_problem? lexer=lexer_section? parser=parser_section? ;

header -> Header:
    'language' name=identifier<+Keywords> ('(' target=identifier<+Keywords> ')')? ';' ;

lexer_section -> LexerSection:
    '::' .recoveryScope 'lexer' lexer_parts ;

parser_section -> ParserSection:
    '::' .recoveryScope 'parser' ('lalr' '(' lookahead=integer_literal ')')? grammar_parts ;

import_ -> Import:
    'import' alias=identifier? path=string_literal ';' ;

option -> Option:
    key=identifier '=' value=expression ;

symref<flag Args> -> Symref:
    [Args]  name=identifier<+Str> args=args?
  | [!Args] name=identifier<+Str>
;

rawType -> RawType:
    code ;

lexer_parts:
    lexer_part
  | lexer_parts lexer_part<+OrSyntaxError>
;

%interface LexerPart;

lexer_part<OrSyntaxError> -> LexerPart:
    named_pattern
  | lexeme
  | lexer_directive
  | start_conditions_scope
  | [OrSyntaxError] syntax_problem
;

named_pattern -> NamedPattern:
    name=identifier '=' pattern ;

start_conditions_scope -> StartConditionsScope:
    start_conditions '{' .recoveryScope lexer_parts '}' ;

start_conditions -> StartConditions:
    '<' '*'  '>'
  | '<' (stateref separator ',')+ '>'
;

lexeme -> Lexeme:
    start_conditions? name=identifier<+Str> lexeme_id? rawTypeopt ':'
        (pattern priority=integer_literal? attrs=lexeme_attrs? command? | attrs=lexeme_attrs)? ;

lexeme_id -> LexemeId:
    '(' identifier<+Keywords> ')' ;

lexeme_attrs -> LexemeAttrs:
    '(' lexeme_attribute ')' ;

lexeme_attribute -> LexemeAttribute:
    'class'
  | 'space'
;

lexer_directive -> LexerPart:
    '%' 'brackets' opening=symref<~Args> closing=symref<~Args> ';'    -> DirectiveBrackets
  | '%' 's' states=(lexer_state separator ',')+ ';'                   -> InclusiveStartConds
  | '%' 'x' states=(lexer_state separator ',')+ ';'                   -> ExclusiveStartConds
;

stateref -> Stateref:
    name=identifier ;

lexer_state -> LexerState:
    name=identifier ;

grammar_parts:
    grammar_part
  | grammar_parts grammar_part<+OrSyntaxError>
;

%interface GrammarPart;

grammar_part<OrSyntaxError> -> GrammarPart:
    nonterm
  | template_param
  | directive
  | [OrSyntaxError] syntax_problem
;

nonterm -> Nonterm:
    name=identifier params=nonterm_params? alias=nonterm_alias? rawType? reportClause? ':' rules ';'
  | ('extend' -> Extend) name=identifier alias=nonterm_alias? reportClause? ':' rules ';'
  | ('inline' -> Inline) name=identifier params=nonterm_params? alias=nonterm_alias? reportClause? ':' rules ';'
;

nonterm_alias -> NontermAlias:
    '[' name=identifier<+Keywords> ']' ;

assoc -> Assoc:
    'left'
  | 'right'
  | 'nonassoc'
;

param_modifier -> ParamModifier:
    'lookahead' ;

template_param -> GrammarPart:
    '%' modifier=param_modifier? param_type name=identifier ('=' param_value)? ';' -> TemplateParam
;

directive -> GrammarPart:
    '%' assoc symbols=references ';'                                 -> DirectivePrio
  | '%' 'input' inputRefs=(inputref separator ',')+ ';'              -> DirectiveInput
  | '%' 'interface' ids=(identifier separator ',')+ ';'              -> DirectiveInterface
  | '%' 'assert' ('empty' -> Empty | 'nonempty' -> NonEmpty) rhsSet ';' -> DirectiveAssert
  | '%' 'generate' name=identifier '=' rhsSet ';'                    -> DirectiveSet
  | '%' 'expect' integer_literal ';'                                 -> DirectiveExpect
  | '%' 'expect-rr' integer_literal ';'                              -> DirectiveExpectRR
  | '%' 'inject' symref<~Args> reportClause ';'                      -> DirectiveInject
;

inputref -> Inputref:
    reference=symref<~Args> ('no-eoi' -> NoEoi)? ;

references:
    symref<~Args>
  | references symref<~Args>
;

rules:
    rule0
  | rules '|' rule0
;

%interface Rule0;

rule0 -> Rule0:
    predicate? rhsParts? reportClause?       -> Rule
  | syntax_problem
;

predicate -> Predicate:
    '[' predicate_expression ']' ;

reportClause -> ReportClause:
    '->' action=identifier ('/' flags=(identifier separator ',')+)? reportAs? ;

reportAs -> ReportAs:
    'as' identifier ;

rhsParts:
    rhsPart
  | rhsParts rhsPart<+OrSyntaxError>
;

%interface RhsPart;

rhsPart<OrSyntaxError> -> RhsPart:
    rhsAssignment
  | command
  | rhsStateMarker
  | rhsLookahead
  | '%' 'empty'                 -> RhsEmpty
  | '%' 'prec' symref<~Args>    -> RhsPrec
  | [OrSyntaxError] syntax_problem
;

rhsLookahead -> RhsLookahead:
    '(?=' predicates=(lookahead_predicate separator '&')+ ')' ;

lookahead_predicate -> LookaheadPredicate:
    ('!' -> Not)? symref<~Args> ;

rhsStateMarker -> StateMarker:
    '.' name=identifier ;

rhsAssignment -> RhsPart:
    rhsOptional
  | id=identifier<+Str> '=' inner=rhsOptional      -> RhsAssignment
  | id=identifier<+Str> '+=' inner=rhsOptional     -> RhsPlusAssignment
;

rhsOptional -> RhsPart:
    rhsCast
  | inner=rhsCast '?'  -> RhsOptional
;

rhsCast -> RhsPart:
    rhsAlias
  | inner=rhsAlias 'as' target=symref<+Args> -> RhsCast
;

rhsAlias -> RhsPart:
    rhsPrimary
  | inner=rhsPrimary '[' name=identifier<+Keywords> ']'       -> RhsAlias
;

listSeparator -> ListSeparator:
    'separator' separator_=references ;

rhsPrimary -> RhsPart:
    reference=symref<+Args>                                      -> RhsSymbol
  | '(' .recoveryScope rules ')'                                 -> RhsNested
  | '(' .recoveryScope ruleParts=rhsParts listSeparator ')' '+'  -> RhsPlusList
  | '(' .recoveryScope ruleParts=rhsParts listSeparator ')' '*'  -> RhsStarList
  | inner=rhsPrimary '+'                                         -> RhsPlusQuantifier
  | inner=rhsPrimary '*'                                         -> RhsStarQuantifier
  | '$' '(' .recoveryScope rules ')'                             -> RhsIgnored
  | rhsSet
;

rhsSet -> RhsSet:
    'set' '(' .recoveryScope expr=setExpression ')' ;

%interface SetExpression;

setPrimary -> SetExpression:
    operator=identifier? symbol=symref<+Args>    -> SetSymbol
  | '(' inner=setExpression ')'                  -> SetCompound
  | '~' inner=setPrimary                         -> SetComplement
;

%left '|';
%left '&';

setExpression -> SetExpression:
    setPrimary
  | left=setExpression '|' right=setExpression   -> SetOr
  | left=setExpression '&' right=setExpression   -> SetAnd
;

/* Nonterminal parameters */

nonterm_params -> NontermParams:
    '<' list=(nonterm_param separator ',')+ '>' ;

%interface NontermParam;

nonterm_param -> NontermParam:
    param_ref
  | param_type=identifier name=identifier ('=' param_value)?     -> InlineParameter
;

param_ref -> ParamRef:
    identifier ;

args -> SymrefArgs:
    '<' arg_list=(argument separator ',')* '>' ;

%interface Argument;

argument -> Argument:
    name=param_ref (':' val=param_value)?        -> ArgumentVal
  | '+' name=param_ref                           -> ArgumentTrue
  | '~' name=param_ref                           -> ArgumentFalse
;

param_type -> ParamType:
    'flag'
  | 'param'
;

%interface ParamValue;

param_value -> ParamValue:
    literal
  | param_ref
;

predicate_primary -> PredicateExpression:
    param_ref
  | '!' param_ref                 -> PredicateNot
  | param_ref '==' literal        -> PredicateEq
  | param_ref '!=' literal        -> PredicateNotEq
;

%left '||';
%left '&&';

%interface PredicateExpression;

predicate_expression -> PredicateExpression:
    predicate_primary
  | left=predicate_expression '&&' right=predicate_expression        -> PredicateAnd
  | left=predicate_expression '||' right=predicate_expression        -> PredicateOr
;

%interface Expression;

expression -> Expression:
    literal
  | '[' (expression separator ',')+? ','? ']'                         -> Array
  | syntax_problem
;

%%

{{define "stateVars"}}
	inStatesSelector bool
	prev             token.Type
{{end}}

{{define "initStateVars"}}
	l.inStatesSelector = false
	l.prev = token.UNAVAILABLE
{{end}}

{{define "onAfterNext"}}
	switch tok {
	case token.LT:
		l.inStatesSelector = l.State == StateInitial || l.State == StateAfterColonOrEq
		l.State = StateInitial
	case token.GT:
		if l.inStatesSelector {
			l.State = StateAfterGT
			l.inStatesSelector = false
		} else {
			l.State = StateInitial
		}
	case token.ID, token.LEFT, token.RIGHT, token.NONASSOC, token.GENERATE,
    token.ASSERT, token.EMPTY, token.BRACKETS, token.INLINE, token.PREC,
    token.SHIFT, token.INPUT, token.NONEMPTY, token.GLOBAL,
    token.EXPLICIT, token.LOOKAHEAD, token.PARAM, token.FLAG, token.CHAR_S,
    token.CHAR_X, token.CLASS, token.INTERFACE, token.SPACE,
		token.LAYOUT, token.LANGUAGE, token.LALR, token.EXTEND:

		l.State = StateAfterID
	case token.LEXER, token.PARSER:
		if l.prev == token.COLONCOLON {
			l.State = StateInitial
		} else {
			l.State = StateAfterID
		}
	case token.ASSIGN, token.COLON:
		l.State = StateAfterColonOrEq
	case token.CODE:
		if !l.skipAction() {
			tok = token.INVALID_TOKEN
		}
		fallthrough
	default:
		l.State = StateInitial
	}
	l.prev = tok
{{end}}
