language mid(go);

package = "rt/mid"
eventBased = true
eventFields = true
nodePrefix = "M"

:: lexer

WS: /[ \n]+/ (space)
ID: /[a-z][a-z0-9]*/ (class)
'if': /if/
'else': /else/
'while': /while/
'for': /for/
'return': /return/
'break': /break/
'continue': /continue/
'func': /func/
'var': /var/
'const': /const/
NUM: /[0-9]+(\.[0-9]+)?/
';': /;/
'(': /\(/
')': /\)/
'{': /\{/
'}': /\}/
'=': /=/
'+': /\+/
',': /,/

:: parser

%input File, Stmt;

%interface Statement, Expression;

File -> File: Stmt+ ;

Stmt -> Statement:
    'var'[x] ID[y] { /* mid $x $y */ } ('=' Expr)? ';'    -> VarDecl
  | 'const'[x] ID[y] { /* mid $x $y */ } '=' Expr ';'     -> ConstDecl
  | 'if' '(' Expr ')' then=Block ('else' else=Block)?     -> IfStmt
  | 'while' '(' Expr ')' Block                             -> WhileStmt
  | 'return' Expr? ';'                                     -> ReturnStmt
  | (?= CallLa) Call ';'                                   -> CallStmt
  | (?= !CallLa) Expr ';'                                  -> ExprStmt
  | Block
;

CallLa: ID '(' ;

Block -> Block: '{' Stmt* '}' ;

Call -> Call: ID '(' (Expr separator ',')* ')' ;

%left '+';

Expr -> Expression:
    left=Expr '+' right=Expr   -> Plus
  | ID                          -> Ref
  | NUM                         -> Num
  | '(' Expr ')'                -> Parens
;
