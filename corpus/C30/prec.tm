language prec(go);

package = "rt/prec"
eventBased = true
writeBison = true

:: lexer

WS: /[ \n]+/ (space)
ID: /[a-z]+/ (class)
'if': /if/
'else': /else/
'orelse': /orelse/
NUM: /[0-9]+/
'+': /\+/
'-': /-/
'*': /\*/
'<': /</
'(': /\(/
')': /\)/
';': /;/
LOW:
UMINUS:

:: parser

%input Prog, Expr no-eoi;

%nonassoc LOW;
%nonassoc 'else' 'orelse';
%nonassoc '<';
%left '+' '-';
%left '*';
%right UMINUS;


Prog -> Prog: Stmt* ;

Stmt -> Stmt:
    Expr ';'
  | 'if' '(' Expr ')' Stmt ElseOpt
  | Stmt 'orelse' %prec 'else'
;

ElseOpt -> ElseOpt:
    'else' Stmt
  | %empty %prec LOW
;

Expr -> Expr:
    Expr '+' Expr
  | Expr '-' Expr
  | Expr '*' Expr
  | Expr '<' Expr
  | '-' Expr %prec UMINUS
  | '(' Expr? ')'
  | ID
  | NUM
;
